"""C14 -- parallel evaluation equals serial evaluation (DESIGN.md section 5, C14).

Cases are abstract programs: batches of jobs (input, fails?) + a schedule (list of scheduling
choices).  The implementation driver realises the schedule on the real pools (gates inside the
worker evaluations, poll ticks = `queue.empty()` calls of the code under test), the Coq model
(coq/C14/Model.v) interprets the same schedule; observables are compared inside Coq.
"""
import json
import os

from . import common
from .common import cZ, cnat, cbool, clist, copt, cpair

# Which model of SneakyPool.map the code is compared with: False = the code as it is in the pinned
# tree (results yielded in completion order), True = after proposed_fixes/C14-map-order.diff
# (ordered blocking collection).  The lead flips this when the fix is applied.
MAP_FIXED = os.environ.get("C14_MAP_FIXED", "1") == "1"   # default: the repaired code (fix c80ac95 applied in /repo)

# the classes of the three repaired findings (map-order-multiprocess, run-jobs-startup-race, grid-parallel-failing-cell)
# are no longer attached to any failure: those failures are violations again
SNEAKIER_CLASS = "sneakier-two-pools-constructed"
# former finding job-pickling-race (RuntimeError "dictionary changed size during iteration" out of a parallel Sensitivity.run)
# is fixed by e882fb2; its class is attached to nothing, the pickle_walk case is its regression obligation


def fval(x):
    return x * x + 3 * x + 7


N_UNUSUAL = 20     # len(c14_impl.UNUSUAL): 0, 0.0, -0.0, False, None, '', [], (), {}, numpy scalars, 0-d / 1-element arrays, nan, ...
N_EXC = 8          # c14_impl.make_exc: ValueError(), KeyError(0), NumberedError, ZeroDivisionError, OSError(0,''), FalsyError, ...
N_SCALARS = 12     # len(c14_impl.SCALARS)


def value_of(x, m):
    """outcome of evaluating (x, mode): mode 0 value, 1 WorkError(x), 2 an unusual but legal value (code -(1+u)),
    3 an exception of user code of an unusual kind (code -(100+k))"""
    if m == 1:
        return ["exc", x]
    if m == 2:
        return ["ok", -(1 + x % N_UNUSUAL)]
    if m == 3:
        return ["exc", -(100 + x % N_EXC)]
    return ["ok", fval(x)]


# kinds of callables (c14_impl.make_callable): what the serial loop gives for mode 0
FKINDS = {"fitness": 0, "emcee_wrap": 0, "dynesty_ll": 0, "dynesty_pt": 1000000, "dynesty_other": 4000000, "partial": 2000000,
          "object": 3000000, "plain": 1000000}
AKINDS = ["fitness", "emcee_wrap", "dynesty_ll", "arg_dynesty_pt", "arg_partial", "object"]


def akind_value(kind, x):
    """what calling the callable ARGUMENT on [-1, x, 0] gives"""
    return {"fitness": fval(x), "emcee_wrap": fval(x), "dynesty_ll": fval(x), "arg_dynesty_pt": 3 * x + 1,
            "arg_partial": fval(x) + 5, "object": fval(x) + 3000000}[kind]


def expected_outcome(batch, x, m):
    """what evaluating one input of an smap batch gives (independent of the implementation)"""
    if batch.get("fkind") and m == 0:
        return ["ok", fval(x) + FKINDS[batch["fkind"]]]
    if batch.get("akind") and m == 0:
        return ["ok", 10 * akind_value(batch["akind"], x) + batch["apos"]]
    if batch.get("scalar"):
        return ["ok", fval(x) if x < 100 else 500000 + (x - 100)]
    if m in (1, 2, 3):
        return value_of(x, m)
    if batch.get("fitpos") is not None:
        return ["ok", fval(x) * 100 + 10 + batch["fitpos"]]
    return ["ok", fval(x)]


# ---------------------------------------------------------------------------
# generator
# ---------------------------------------------------------------------------

def interleave_polls(rng, fs, procs, style):
    """fs: list of completion actions; returns the schedule with poll ticks in between"""
    sched = []
    if style == "late-main":            # every worker is done before the main loop looks
        return list(fs)
    if style == "eager-main":           # the main loop sweeps several times between completions
        for a in fs:
            sched.append(a)
            sched += [["P"]] * rng.choice([procs, procs + 1, 2 * procs, 2 * procs + 1])
        return sched
    sched += [["P"]] * rng.choice([0, 0, 1, procs, procs + 1])
    for a in fs:
        sched.append(a)
        sched += [["P"]] * rng.choice([0, 0, 0, 1, 1, 2, procs, 2 * procs + 1])
    return sched


def completion_order(rng, counts, style):
    """a sequence of worker indices with counts[w] occurrences of w"""
    procs = len(counts)
    total = sum(counts)
    inorder = [i % procs for i in range(total)] if all(
        counts[w] == len([i for i in range(total) if i % procs == w]) for w in range(procs)) else None
    flat = [w for w in range(procs) for _ in range(counts[w])]
    if style == "inorder" and inorder is not None:
        return inorder
    if style == "reverse" and inorder is not None:
        return list(reversed(inorder))
    if style == "slow-first":           # worker 0 finishes everything last
        return [w for w in flat if w != 0] + [w for w in flat if w == 0]
    if style == "burst":                # one worker after the other, last worker first
        return list(reversed(flat))
    rng.shuffle(flat)
    return flat


def gen_jobs(rng, size, fail_p, pool):
    xs = rng.sample(pool, size) if rng.random() < 0.8 or size > len(pool) else [rng.choice(pool[:3]) for _ in range(size)]
    return [[x, 1 if rng.random() < fail_p else 0] for x in xs]


def gen_smap(rng, thorough):
    procs = rng.choice([1, 2, 2, 2, 3, 3, 4])
    nb = rng.choice([1, 1, 2, 2, 3])
    batches = []
    for _ in range(nb):
        size = rng.choice([0, 1, 2, 2, 3, 3, 4, 4, 5, 6, 7, 8 if thorough else 6])
        fail_p = rng.choice([0, 0, 0, 0.25, 0.5, 1.0]) if size else 0
        jobs = gen_jobs(rng, size, fail_p, list(range(0, 40)))
        counts = [len([i for i in range(size) if i % procs == w]) for w in range(procs)]
        order = completion_order(rng, counts, rng.choice(["inorder", "reverse", "slow-first", "burst", "random", "random", "random"]))
        sched = interleave_polls(rng, [["F", w] for w in order], procs, rng.choice(["late-main", "eager-main", "mixed", "mixed", "mixed"]))
        if rng.random() < 0.2:           # completions of workers that have nothing to do are no-ops
            sched.insert(rng.randint(0, len(sched)), ["F", rng.randrange(procs)])
        batch = {"jobs": jobs, "sched": sched}
        shape = rng.random()
        if shape < 0.12:                 # plain numbers as arguments (wrapped as (x,) by map): distinct, never failing
            xs = rng.sample(range(1, 60), size)
            batch["jobs"] = [[x, 0] for x in xs]
            batch["scalar"] = True
        elif shape < 0.36:               # the pool's fitness object among the arguments, at position 0, 1 or 2
            batch["fitpos"] = rng.choice([0, 1, 1, 2, 2])
        batches.append(batch)
    return {"kind": "smap", "procs": procs, "batches": batches}


class Cycle:
    """hands out 0, 1, 2, ... so that a run covers every unusual value / exception kind / scalar BY CONSTRUCTION"""

    def __init__(self, rng):
        self.u, self.k, self.s = rng.randrange(N_UNUSUAL), rng.randrange(N_EXC), rng.randrange(N_SCALARS)

    def unusual(self):
        self.u += 1
        return self.u

    def exc(self):
        self.k += 1
        return self.k

    def scalar(self):
        self.s += 1
        return 100 + self.s % N_SCALARS


def sched_for(rng, size, procs):
    counts = [len([i for i in range(size) if i % procs == w]) for w in range(procs)]
    order = completion_order(rng, counts, rng.choice(["reverse", "slow-first", "burst", "random", "random"]))
    return interleave_polls(rng, [["F", w] for w in order], procs, rng.choice(["late-main", "eager-main", "mixed"]))


def gen_smap_vals(rng, cyc):
    """one pool, a HISTORY of three batches: unusual results (falsy, None, numpy, nan ...) mixed with ordinary ones; a
    batch in which user code raises exceptions of unusual kinds (no args, falsy, carrying `number`/`result`); then a clean
    batch of plain scalars of several types on the same pool -- nothing of the failed batch may show up in it"""
    procs = rng.choice([2, 2, 3, 4])
    batches = []
    size = rng.choice([3, 4, 5, 6])
    jobs = [[cyc.unusual(), 2] if rng.random() < 0.7 else [rng.randrange(40), 0] for _ in range(size)]
    jobs[rng.randrange(size)] = [cyc.unusual(), 2]
    batches.append({"jobs": jobs, "sched": sched_for(rng, size, procs)})
    size = rng.choice([2, 3, 4, 5])
    jobs = [[rng.randrange(40), 0] for _ in range(size)]
    for pos in rng.sample(range(size), rng.choice([1, 1, 2])):
        jobs[pos] = [cyc.exc(), 3]
    if rng.random() < 0.3:
        jobs[rng.randrange(size)] = [rng.randrange(40), 1]
    b = {"jobs": jobs, "sched": sched_for(rng, size, procs)}
    if rng.random() < 0.4:
        b["fitpos"] = rng.choice([0, 1, 2])
    batches.append(b)
    size = rng.choice([2, 3, 4])
    xs = [cyc.scalar() for _ in range(rng.choice([1, 2]))]
    xs += rng.sample(range(1, 60), size)
    xs = list(dict.fromkeys(xs))
    rng.shuffle(xs)
    batches.append({"jobs": [[x, 0] for x in xs], "scalar": True, "sched": sched_for(rng, len(xs), procs)})
    if rng.random() < 0.5:
        batches.reverse()
    return {"kind": "smap", "procs": procs, "batches": batches, "shape": "values"}


def gen_smap_kinds(rng, j):
    """one pool, a history of maps with DIFFERENT kinds of callables: as the mapped function (the likelihood in its three
    guises, and callables that are not the likelihood: dynesty-wrapped prior transform, dynesty wrapper of another name,
    partial, callable object, plain function) and as one of the arguments; case j of a run starts the cycle at kind j, so
    every kind occurs in every run"""
    procs = rng.choice([1, 2, 2, 3, 4])
    fk = sorted(FKINDS)
    batches = []
    for t in range(3):
        size = rng.choice([1, 2, 3, 4, 5])
        jobs = [[rng.randrange(40), 1 if rng.random() < 0.1 else 0] for _ in range(size)]
        b = {"jobs": jobs, "sched": sched_for(rng, size, procs)}
        if t == 1:
            b["akind"] = AKINDS[j % len(AKINDS)]
            b["apos"] = rng.choice([0, 1, 2, 3])
        else:
            b["fkind"] = fk[(2 * j + (t // 2) * 3) % len(fk)]
        batches.append(b)
    rng.shuffle(batches)
    return {"kind": "smap", "procs": procs, "batches": batches, "shape": "callables"}


def gen_numbering(rng):
    """a history of job constructions: explicit numbers (0 included, out of order, repeated), jobs without a number and
    SneakyJobs (both draw from the class-level counter)"""
    specs = []
    for _ in range(rng.randint(3, 9)):
        r = rng.random()
        specs.append(None if r < 0.25 else "sneaky" if r < 0.4 else rng.choice([0, 0, 1, 2, 3, 5, 17]))
    specs.insert(rng.randrange(1, len(specs) + 1), 0)       # an explicit 0 that is never the first construction
    if specs[0] == 0:
        specs[0] = None
    return {"kind": "numbering", "specs": specs}


def gen_jobs_seq(rng, cyc):
    """a history of 2-3 run_jobs calls in one process: different worker counts, numberings, failing and unusual jobs;
    jobs without a number are built in between (the class-level counter moves)"""
    calls = []
    for j in range(rng.choice([2, 2, 3])):
        call = gen_jobs_case(rng, False, cyc, force=["perm", "fail", "vals"][j % 3] if rng.random() < 0.8 else None)
        call.pop("kind")
        call["draw"] = rng.choice([0, 1, 3]) if j else rng.choice([1, 2])
        calls.append(call)
    rng.shuffle(calls)
    return {"kind": "jobs_seq", "calls": calls}


def gen_smap_free(rng):
    procs = rng.choice([1, 2, 3, 4])
    batches = []
    for _ in range(rng.choice([1, 2, 3])):
        size = rng.randint(0, 8)
        fail_p = rng.choice([0, 0, 0.3])
        jobs = [[x, m, rng.choice([0, 0, 1, 3, 8, 15])] for x, m in gen_jobs(rng, size, fail_p, list(range(40)))]
        batch = {"jobs": jobs}
        if rng.random() < 0.3:           # results of 1.2 MB each: the workers' feeder threads block on full pipes
            batch["big"] = True
        batches.append(batch)
    return {"kind": "smap_free", "procs": procs, "batches": batches}


def gen_init(rng, thorough, again=False, unusual=False):
    c = gen_init1(rng, thorough, unusual)
    if again:
        c["again"] = gen_init1(rng, thorough, unusual)
        c["again"].pop("kind")
    return c


def gen_init1(rng, thorough, unusual=False):
    n = rng.choice([1, 2, 2, 3, 3, 4])
    total = rng.randint(1, 6)
    vals = rng.sample(range(1, 900), 40)
    if unusual:
        # figures of merit that are falsy or negative: 0 (-> 0.0) among the first points drawn, negatives elsewhere
        total = max(total, 2)
        vals = [-v if rng.random() < 0.5 else v for v in vals]

    stream = []
    valid = 0
    err_p = rng.choice([0, 0, 0, 0.05, 0.15])
    bad_p = rng.choice([0, 0.2, 0.2, 0.4, 0.6])
    while valid < total + 2 and len(stream) < 36:
        r = rng.random()
        if r < err_p:
            stream.append(["err", 1000 + len(stream)])
        elif r < err_p + bad_p:
            stream.append([rng.choice(["fitexc", "fitexc", "nan", "low"]), 0])
        else:
            stream.append(["ok", vals[len(stream)]])
            valid += 1
    if unusual:
        first = [i for i, (kd, _) in enumerate(stream) if kd == "ok"]
        if first:
            stream[first[0] if len(first) < 2 or rng.random() < 0.5 else first[1]] = ["ok", 0]
    scheds = []
    for _ in range(len(stream)):
        order = list(range(n))
        style = rng.choice(["inorder", "reverse", "random", "random"])
        if style == "reverse":
            order.reverse()
        elif style == "random":
            rng.shuffle(order)
        scheds.append(interleave_polls(rng, [["F", w] for w in order], n, rng.choice(["late-main", "eager-main", "mixed", "mixed"])))
    return {"kind": "init", "n": n, "total": total, "stream": stream, "scheds": scheds}


def gen_emcee(rng):
    procs = rng.choice([1, 2, 3, 4])
    nw = rng.choice([2, 4, 6, 8])
    vals = rng.sample(range(1, 900), nw)
    order = list(range(nw))
    rng.shuffle(order)
    counts = [len([i for i in range(nw) if i % procs == w]) for w in range(procs)]
    comp = completion_order(rng, counts, rng.choice(["inorder", "reverse", "slow-first", "random", "random"]))
    sched = interleave_polls(rng, [["F", w] for w in comp], procs, rng.choice(["late-main", "eager-main", "mixed"]))
    return {"kind": "emcee", "procs": procs, "vals": vals, "order": order, "sched": sched}


def gen_jobs_case(rng, thorough, cyc=None, force=None):
    cores = rng.choice([2, 3, 3, 4, 4])
    nw = cores - 1
    size = rng.choice([0, 1, 2, 3, 3, 4, 4, 5, 6, 7, 8])
    if force:
        size = max(size, 3)
    fail_p = rng.choice([0, 0, 0, 0.2, 0.5, 1.0]) if size else 0
    if force in ("perm", "vals"):
        fail_p = 0
    jobs = gen_jobs(rng, size, fail_p, list(range(40)))
    if force == "fail" and cyc:
        jobs[rng.randrange(size)] = [cyc.exc(), 3]
    if force == "vals" and cyc:
        for pos in rng.sample(range(size), 2):
            u = cyc.unusual()
            jobs[pos] = [u + 1 if u % N_UNUSUAL == 4 else u, 2]     # not None: a ResultBuilder slot shows None for "missing"
    takes = []
    style = rng.choice(["round", "one-worker", "random", "random", "random"])
    for i in range(size + rng.choice([0, 0, 1, nw, nw + 2])):
        if style == "round":
            takes.append(i % nw)
        elif style == "one-worker":
            takes.append(nw - 1)
        else:
            takes.append(rng.randrange(nw))
    sched = interleave_polls(rng, [["T", w] for w in takes], nw, rng.choice(["late-main", "eager-main", "mixed", "mixed"]))
    c = {"kind": "jobs", "cores": cores, "jobs": jobs, "sched": sched}
    if size >= 2 and (force == "perm" or rng.random() < 0.3):
        # the k-th job of the queue is NOT job number k: reversed, rotated or shuffled numbers (0 never first)
        nums = list(range(size))
        style = rng.choice(["reversed", "rotated", "shuffled"])
        if style == "reversed":
            nums.reverse()
        elif style == "rotated":
            nums = nums[1:] + nums[:1]
        else:
            while nums[0] == 0:
                rng.shuffle(nums)
        c["nums"] = nums
    return c


def gen_caller(rng, kind):
    """the real GridSearch.fit / Sensitivity.run on cores processes, steered like a jobs case"""
    cores = rng.choice([2, 3, 3, 4, 4, 4])
    nw = cores - 1
    if kind == "grid_fit":
        n, grid = rng.choice([(2, ["a"]), (3, ["a"]), (4, ["a"]), (2, ["a", "b"]), (3, ["b", "a"])])
        total = n ** len(grid)
    else:
        n, grid = rng.choice([2, 3, 4, 4, 5, 6]), None
        total = n
    fail = sorted(rng.sample(range(total), rng.choice([1, 1, 2]))) if rng.random() < 0.4 else []
    extra = rng.choice([0, 1, nw])
    style = rng.random()
    if style < 0.35:
        # descending: worker nw-1 takes job 0, ..., worker 0 takes job nw-1 and every later job; a main loop that looks
        # late then collects nw-1, nw, ..., nw-2, ..., 0 -- a descending run with higher numbers already stored
        takes = [nw - 1 - i if i < nw else 0 for i in range(total + extra)]
        sched = interleave_polls(rng, [["T", w] for w in takes], nw, "late-main")
    else:
        if style < 0.65:                 # crossed: the later worker takes the earlier job
            takes = [nw - 1 - (i % nw) for i in range(total + extra)]
        else:
            takes = [rng.randrange(nw) for _ in range(total + extra)]
        # jobs leave the shared queue in job order; results only arrive out of order when the main loop looks late
        sched = interleave_polls(rng, [["T", w] for w in takes], nw, rng.choice(["late-main", "late-main", "eager-main", "mixed"]))
    c = {"kind": kind, "n": n, "cores": cores, "fail": fail, "sched": sched}
    if grid:
        c["grid"] = grid
    return c


def gen_sneakier(rng, order=None):
    order = order or rng.choice(["single", "sequential", "sequential", "constructed-first"])
    k = 1 if order in ("single", "two-maps", "reenter") else 2
    pools = [{"mul": m, "xs": rng.sample(range(0, 50), rng.randint(1, 5)), "xs2": rng.sample(range(0, 50), rng.randint(1, 4))}
             for m in rng.sample([2, 3, 5, 7, 100], k)]
    return {"kind": "sneakier", "procs": rng.choice([1, 2, 3]), "order": order, "pools": pools}


def gen_jobs_free(rng):
    cores = rng.choice([2, 3, 4])
    size = rng.randint(0, 8)
    fail_p = rng.choice([0, 0, 0.3])
    jobs = [[x, m, rng.choice([0, 0, 2, 5, 12])] for x, m in gen_jobs(rng, size, fail_p, list(range(40)))]
    return {"kind": "jobs_free", "cores": cores, "jobs": jobs}


FIXED_CASES = [
    # the reading-time suspicion: two workers, the second finishes first (former finding, fixed by c80ac95: pinned)
    {"kind": "smap", "procs": 2, "batches": [{"jobs": [[5, 0], [6, 0]], "sched": [["F", 1], ["P"], ["P"], ["F", 0]]}],
     "pin": "sneaky-map-completion-order"},
    # a failing job between two good ones, then a second batch on the same pool
    {"kind": "smap", "procs": 2, "batches": [
        {"jobs": [[1, 0], [2, 1], [3, 0]], "sched": [["F", 0], ["F", 1], ["F", 0]]},
        {"jobs": [[4, 0], [5, 0]], "sched": [["F", 0], ["F", 1]]}]},
    {"kind": "smap", "procs": 1, "batches": [{"jobs": [[5, 0], [6, 0], [7, 1]], "sched": [["F", 0], ["P"], ["F", 0], ["F", 0]]}]},
    {"kind": "smap", "procs": 3, "batches": [{"jobs": [], "sched": [["P"]]}, {"jobs": [[9, 1]], "sched": [["F", 0]]}]},
    {"kind": "init", "n": 2, "total": 3,
     "stream": [["ok", 10], ["ok", 20], ["fitexc", 0], ["ok", 40], ["ok", 50], ["ok", 60]],
     "scheds": [[["F", 1], ["P"], ["P"], ["F", 0]]] * 6, "pin": "sneaky-map-completion-order"},
    {"kind": "jobs", "cores": 3, "jobs": [[1, 0], [2, 0], [3, 1], [4, 0]],
     "sched": [["T", 1], ["T", 0], ["P"], ["T", 1], ["T", 1], ["P"], ["T", 0]]},
    # an exception early: the double count ends the collection before every job has been taken
    {"kind": "jobs", "cores": 2, "jobs": [[1, 1], [2, 0], [3, 0]], "sched": [["T", 0], ["P"], ["P"], ["T", 0], ["P"], ["P"], ["P"], ["T", 0]]},
    # SneakyJob argument handling: fitness object at position 1 / last, plain numbers, two fitness objects
    {"kind": "smap", "procs": 2, "batches": [
        {"jobs": [[5, 0], [6, 0], [7, 1]], "fitpos": 1, "sched": [["F", 1], ["P"], ["F", 0], ["F", 0]]},
        {"jobs": [[3, 0], [4, 0]], "scalar": True, "sched": [["F", 1], ["F", 0]]},
        {"jobs": [[8, 0], [9, 0]], "fitpos": 2, "sched": [["F", 1], ["F", 0]]}]},
    {"kind": "smap_twofit", "procs": 2},
    # the real callers, one failing cell
    {"kind": "grid_fit", "n": 3, "grid": ["a"], "cores": 3, "fail": [1], "sched": [["T", 1], ["T", 0], ["P"], ["T", 1], ["P"], ["P"], ["P"]],
     "pin": "grid-parallel-failing-cell"},
    {"kind": "sens_fit", "n": 3, "cores": 3, "fail": [2], "sched": [["T", 1], ["T", 0], ["P"], ["T", 1], ["P"], ["P"], ["P"]]},
    # 3 workers, the main loop looks late: results arrive as jobs 2, 3, 1, 0 (a descending triple)
    {"kind": "sens_fit", "n": 4, "cores": 4, "fail": [], "sched": [["T", 2], ["T", 1], ["T", 0], ["T", 0], ["P"]]},
    {"kind": "grid_fit", "n": 4, "grid": ["a"], "cores": 4, "fail": [], "sched": [["T", 2], ["T", 1], ["T", 0], ["T", 0], ["P"]]},
    {"kind": "jobs", "cores": 4, "jobs": [[1, 0], [2, 0], [3, 0], [4, 0]], "sched": [["T", 2], ["T", 1], ["T", 0], ["T", 0], ["P"]]},
    # a model query while another thread pickles an instance of the model's class (known finding job-pickling-race)
    {"kind": "pickle_walk", "attrs": 3, "pin": "job-pickling-race"},
    # two SneakierPools constructed before the first is used
    {"kind": "sneakier", "procs": 2, "order": "constructed-first", "pools": [{"mul": 3, "xs": [1, 2, 3]}, {"mul": 100, "xs": [1, 2]}]},
    {"kind": "smap_free", "procs": 3, "batches": [{"jobs": [[5, 0, 3], [6, 0, 0], [7, 0, 1], [8, 0, 0]], "big": True}]},
    # hardening sweep: falsy / None results between ordinary ones; a falsy exception object; numbers out of queue order
    {"kind": "smap", "procs": 2, "shape": "values", "batches": [
        {"jobs": [[0, 2], [5, 0], [4, 2], [3, 2], [1, 2]], "sched": [["F", 1], ["F", 1], ["F", 0], ["F", 0], ["F", 0]]},
        {"jobs": [[5, 3], [6, 0]], "sched": [["F", 1], ["F", 0]]},
        {"jobs": [[7, 0], [8, 0]], "sched": [["F", 0], ["F", 1]]},
        {"jobs": [[100, 0], [104, 0], [3, 0], [101, 0], [105, 0]], "scalar": True, "sched": [["F", 1], ["F", 1], ["F", 0], ["F", 0], ["F", 0]]}]},
    # kinds of callables: the dynesty-wrapped prior transform is NOT the likelihood (as function and as argument)
    {"kind": "smap", "procs": 2, "shape": "callables", "batches": [
        {"jobs": [[5, 0], [6, 0], [7, 0]], "fkind": "dynesty_pt", "sched": [["F", 1], ["F", 0], ["F", 0]]},
        {"jobs": [[5, 0], [6, 0]], "fkind": "dynesty_ll", "sched": [["F", 1], ["F", 0]]},
        {"jobs": [[8, 0], [9, 0]], "akind": "arg_dynesty_pt", "apos": 1, "sched": [["F", 1], ["F", 0]]},
        {"jobs": [[8, 0], [9, 1], [4, 0]], "akind": "dynesty_ll", "apos": 3, "sched": [["F", 0], ["F", 1], ["F", 0]]}]},
    {"kind": "jobs", "cores": 3, "jobs": [[1, 0], [2, 0], [3, 0]], "nums": [2, 0, 1], "sched": [["T", 1], ["T", 0], ["P"], ["T", 1], ["P"]]},
    {"kind": "jobs", "cores": 3, "jobs": [[1, 0], [5, 3], [0, 2]], "sched": [["T", 1], ["T", 0], ["P"], ["T", 1], ["P"]]},
    {"kind": "numbering", "specs": [None, 0, "sneaky", 0, 3, None, 1]},
    {"kind": "jobs_seq", "calls": [
        {"cores": 3, "jobs": [[1, 0], [2, 3], [3, 0]], "sched": [["T", 1], ["T", 0], ["P"], ["T", 1]], "draw": 2},
        {"cores": 2, "jobs": [[4, 0], [5, 0]], "nums": [1, 0], "sched": [["T", 0], ["T", 0]], "draw": 3}]},
]


def gen_cases(ctx):
    rng = ctx.rng
    thorough = ctx.tier == "thorough"
    k = 5 if thorough else 1
    cases = [json.loads(json.dumps(c)) for c in FIXED_CASES]
    cases += [gen_smap(rng, thorough) for _ in range(80 * k)]
    cyc = Cycle(rng)
    k2, k = k, (2 if thorough else 1)       # the sweep's shapes cover their kinds by construction: thorough doubles them only
    cases += [gen_smap_vals(rng, cyc) for _ in range(12 * k)]      # >= 12 unusual values... per run; Cycle covers all of them
    cases += [gen_smap_kinds(rng, j) for j in range(8 * k)]          # 8 function kinds x 2, 6 argument kinds: all in every run
    cases += [gen_jobs_seq(rng, cyc) for _ in range(6 * k)]
    cases += [gen_numbering(rng) for _ in range(5 * k)]
    cases += [gen_sneakier(rng, "two-maps"), gen_sneakier(rng, "reenter")]
    k = k2
    cases += [gen_init(rng, thorough, again=(j % 6 == 5), unusual=(j % 3 == 1)) for j in range(36 * k)]
    cases += [gen_emcee(rng) for _ in range(10 * k)]
    cases += [gen_jobs_case(rng, thorough, cyc, force=[None, None, None, "perm", "vals", "fail"][j % 6]) for j in range(50 * k)]
    cases += [gen_smap_free(rng) for _ in range(6 * k)]
    cases += [gen_jobs_free(rng) for _ in range(5 * k)]
    cases += [gen_caller(rng, "grid_fit") for _ in range(8 * k)]
    cases += [gen_caller(rng, "sens_fit") for _ in range(8 * k)]
    cases += [gen_sneakier(rng) for _ in range(5 * k)]
    cases += [{"kind": "emcee_run", "procs": rng.choice([2, 3, 4]), "walkers": rng.choice([6, 8, 10]), "steps": rng.choice([3, 5]),
               "seed": rng.randrange(10 ** 6)} for _ in range(3 * k)]
    # quick jobs, free-running, many calls: does run_jobs always return?
    cases.append({"kind": "jobs_race", "cores": 3, "jobs": 3, "repeat": 100, "pin": "run-jobs-startup-race"})
    if thorough:
        cases.append({"kind": "jobs_race", "cores": 2, "jobs": 1, "repeat": 300})
        cases.append({"kind": "jobs_race", "cores": 4, "jobs": 6, "repeat": 100})
        cases.append({"kind": "jobs_race", "cores": 3, "jobs": 3, "repeat": 300})
    return cases


# ---------------------------------------------------------------------------
# property oracle (direct statement of C14 on the implementation's outputs)
# ---------------------------------------------------------------------------

def oracle_batch(procs, serial, b, free=False):
    """returns (hard failures, order failure or None) for one pool.map call"""
    hard = []
    oks = [v for k, v in serial if k == "ok"]
    excs = [v for k, v in serial if k == "exc"]
    if sorted(b["yields"], key=repr) != sorted(oks, key=repr):
        hard.append("map yielded %s, the serial results are %s" % (b["yields"], oks))
    if any(e != 1 for e in b["evals"]):
        hard.append("evaluation counts per input %s (each input must be evaluated exactly once)" % b["evals"])
    if any(b["pend"]) or any(b["resq"]):
        hard.append("left behind after the call: pending jobs %s, unconsumed results %s" % (b["pend"], b["resq"]))
    if excs:
        # map keeps collecting and reports the exception of the LAST failing input (C14_map_order: last_exc)
        if not b["raised"] or b["raised"][0] != "WorkError" or b["raised"][1] != excs[-1]:
            hard.append("jobs raised %s (in input order) but map reported %s" % (excs, b["raised"]))
    elif b["raised"]:
        hard.append("no job raised but map reported %s" % (b["raised"],))
    order = None
    if not hard and b["yields"] != oks:
        order = "map yielded %s for serial results %s (results are not matched to inputs by position)" % (b["yields"], oks)
    return hard, order


SNEAKIER_REENTER_CLASS = "sneakier-reentered-after-exit"


def oracle_numbering(specs, r):
    """AbstractJob numbering: an explicit number (0 too) is kept; jobs without one draw consecutive values of the counter;
    explicit numbers leave the counter alone"""
    out = []
    nxt = r["before"]
    for sp, got in zip(specs, r["numbers"]):
        if sp is None or sp == "sneaky":
            if got != nxt:
                out.append(("a job built without a number got %s, the class-level counter stood at %s" % (got, nxt), []))
            nxt += 1
        elif got != sp:
            out.append(("a job built with number=%s carries number %s (counter at %s; specs %s -> %s)" % (sp, got, nxt, specs, r["numbers"]), []))
    if r["after"] != nxt or len(r["numbers"]) != len(specs):
        out.append(("job counter went from %s to %s over the constructions %s" % (r["before"], r["after"], specs), []))
    return out


def oracle(c, r):
    """returns list of (message, classes)"""
    k = c["kind"]
    out = []
    if k in ("smap", "smap_free"):
        for bi, (batch, b) in enumerate(zip(c["batches"], r["batches"])):
            exp = [expected_outcome(batch, x, m) for x, m, *_ in batch["jobs"]]
            if b["serial"] != exp:
                out.append(("batch %d: serial evaluation gives %s, expected %s" % (bi, b["serial"], exp), []))
            hard, order = oracle_batch(c["procs"], b["serial"], b)
            out += [("batch %d: %s" % (bi, h), []) for h in hard]
            if order:
                cls = []
                out.append(("batch %d: %s" % (bi, order), cls))
        return out
    if k == "emcee":
        exp = [c["vals"][i] for i in c["order"]]
        if sorted(r["log_prob"]) != sorted(exp):
            out.append(("emcee log_prob %s is not a rearrangement of the serial values %s" % (r["log_prob"], exp), []))
        elif r["log_prob"] != exp:
            out.append(("emcee compute_log_prob returned %s for walkers whose serial values are %s" % (r["log_prob"], exp),
                        []))
        if any(e != 1 for e in r["evals"]):
            out.append(("evaluation counts %s" % r["evals"], []))
        if any(r["pend"]) or any(r["resq"]):
            out.append(("left behind: %s %s" % (r["pend"], r["resq"]), []))
        return out
    if k == "init" and c.get("again") and "again" in r:
        out = oracle({kk: v for kk, v in c.items() if kk != "again"}, r)
        out += [("second samples_from_model call on the same initializer object: " + m, cl) for m, cl in oracle(dict(c["again"], kind="init"), r["again"])]
        if r["again"].get("pools") != 1:
            out.append(("the second call created %s pools of its own (a fresh SneakyPool per call)" % r["again"].get("pools"), []))
        return out
    if k == "init":
        stream = c["stream"]
        drawn = r["drawn"]
        ev = r["evals"]
        if any(ev[i] != (1 if i < drawn else 0) for i in range(len(stream))):
            out.append(("points drawn %d, evaluation counts %s (each drawn point exactly once)" % (drawn, ev), []))
        if any(r.get("pend", [])) or any(r.get("resq", [])):
            out.append(("left behind in the pool: %s %s" % (r.get("pend"), r.get("resq")), []))
        errs = [v for kd, v in stream[:drawn] if kd == "err"]
        if r["raised"]:
            if r["raised"][0] != "WorkError" or r["raised"][1] not in errs:
                out.append(("samples_from_model raised %s, failing points drawn: %s" % (r["raised"], errs), []))
            return out
        if errs:
            out.append(("a drawn point raised %s but samples_from_model returned normally" % errs, []))
        cls = []
        if len(r["ks"]) != c["total"] or r["uks"] != r["ks"] or len(r["foms"]) != len(r["ks"]):
            out.append(("returned %d points for total_points=%d (units %s, parameters %s)" % (len(r["ks"]), c["total"], r["uks"], r["ks"]), []))
            return out
        bad = [(kk, f) for kk, f in zip(r["ks"], r["foms"]) if stream[kk] != ["ok", f]]
        if bad:
            out.append(("returned (point, figure of merit) pairs %s are not evaluations of those points (stream %s)" % (
                bad, [(i, s) for i, s in enumerate(stream[:drawn])]), cls))
        else:
            serial = [i for i, (kd, _) in enumerate(stream[:drawn]) if kd == "ok"]
            if r["ks"] != serial:
                out.append(("accepted points %s, serial evaluation accepts %s" % (r["ks"], serial), cls))
        return out
    if k == "emcee_run":
        if r["mismatched"] or r["stored"] != c["walkers"] * c["steps"]:
            out.append(("%d of %d stored emcee log probabilities are not the value at their own walker position" % (r["mismatched"], r["stored"]), []))
        return out
    if k == "smap_twofit":
        if not r["raised"] or r["raised"][0] != "AssertionError" or r["yields"] or any(r["evals"]) or any(r["pend"]) or any(r["resq"]):
            out.append(("two fitness arguments: expected AssertionError before anything is queued, got %s" % r, []))
        return out
    if k == "numbering":
        return oracle_numbering(c["specs"], r)
    if k == "jobs_seq":
        for j, (call, rr) in enumerate(zip(c["calls"], r["calls"])):
            out += [("call %d of the history: %s" % (j, m), cl) for m, cl in oracle(dict(call, kind="jobs"), rr)]
            if rr.get("children_left"):
                out.append(("call %d of the history left %d live worker processes behind" % (j, rr["children_left"]), []))
        return out
    if k == "sneakier" and c["order"] in ("two-maps", "reenter"):
        sp = c["pools"][0]
        exp = [["ok", [sp["mul"] * x + 1 for x in xs]] for xs in (sp["xs"], sp["xs2"])]
        if r["results"] != exp:
            cls = [SNEAKIER_REENTER_CLASS] if c["order"] == "reenter" else []
            out.append(("one SneakierPool(fitness = %d*x+1) used twice (%s): maps over %s and %s gave %s, serial evaluation gives %s" % (
                sp["mul"], c["order"], sp["xs"], sp["xs2"], r["results"], exp), cls))
        return out
    if k == "sneakier":
        for sp, res in zip(c["pools"], r["results"]):
            exp = [sp["mul"] * x + 1 for x in sp["xs"]]
            if res != ["ok", exp]:
                cls = [SNEAKIER_CLASS] if c["order"] == "constructed-first" and len(c["pools"]) >= 2 else []
                out.append(("SneakierPool(fitness = %d*x+1).map over %s gave %s, serial evaluation gives %s" % (sp["mul"], sp["xs"], res, exp), cls))
        return out
    if k == "pickle_walk":
        # r["fired"] is false when the walk never looks into the class (the repaired walk): then nothing can interleave
        if r["raised"] or r["concurrent"] != r["alone"]:
            out.append(("a model query answered %s alone but %s while another thread pickled an instance of the model's class "
                        "(the job queue's feeder thread does that while Sensitivity._make_jobs builds the next job)" % (
                            r["alone"], r["raised"] or r["concurrent"]), []))
        return out
    if k in ("grid_fit", "sens_fit"):
        ser, par = r["serial"], r["parallel"]
        total = c["n"] ** len(c["grid"]) if k == "grid_fit" else c["n"]
        if any(e > 1 for e in par["evals"]):
            out.append(("a cell was evaluated more than once: %s" % par["evals"], []))
        # serial reference itself: first failing cell, or every cell in place
        if c["fail"]:
            if ser["raised"] != ["CellError", c["fail"][0]]:
                out.append(("number_of_cores=1 reported %s, first failing cell is %d" % (ser["raised"], c["fail"][0]), []))
            if not par["raised"]:
                out.append(("cells %s fail but the parallel run returned normally" % c["fail"], []))
            elif par["raised"][0] != "CellError" or par["raised"][1] not in c["fail"]:
                out.append(("cells %s fail: number_of_cores=1 raises %s, number_of_cores=%d raises %s (the failing fit's own "
                            "exception is not what the caller gets)" % (c["fail"], ser["raised"], c["cores"], par["raised"]), []))
            return out
        if ser["raised"] or par["raised"]:
            out.append(("no cell fails but an exception was reported: serial %s parallel %s" % (ser["raised"], par["raised"]), []))
            return out
        if any(e != 1 for e in par["evals"]):
            out.append(("evaluation counts per cell %s" % par["evals"], []))
        if k == "grid_fit":
            d = len(c["grid"])
            digits = [[(i // c["n"] ** (d - 1 - j)) % c["n"] for j in range(d)] for i in range(total)]
            for name, res in (("number_of_cores=1", ser), ("number_of_cores=%d" % c["cores"], par)):
                if res["cells"] != digits:
                    out.append(("%s: result cell k is not the fit of cell k: %s" % (name, res["cells"]), []))
                if sorted(res["csv"]) != [[i] + digits[i] for i in range(total)]:
                    out.append(("%s: results.csv rows %s" % (name, res["csv"]), []))
        else:
            for name, res in (("number_of_cores=1", ser), ("number_of_cores=%d" % c["cores"], par)):
                if res["lls"] != list(range(total)) or res["csv"] != list(range(total)):
                    out.append(("%s: perturbed fits %s, results.csv index %s (expected job order)" % (name, res["lls"], res["csv"]), []))
        return out
    if k == "jobs_race":
        if r["wrong"]:
            out.append(("%d of %d free-running run_jobs calls returned wrong results" % (r["wrong"], r["calls"]), []))
        if r.get("stuck"):
            out.append(("%d of %d free-running run_jobs calls returned but left a worker process that was still alive 60 s later "
                        "(blocked in job_queue.get(): it never received a job or its StopCommand)" % (r["stuck"], r["calls"]), []))
        if r["hangs"]:
            out.append(("%d of %d free-running run_jobs calls on %d quick jobs never returned (every worker found the shared "
                        "job queue still empty and exited; the main loop polls forever)" % (r["hangs"], r["calls"], c["jobs"]), []))
        return out
    if k in ("jobs", "jobs_free"):
        serial = r["serial"]
        nums = c.get("nums") or list(range(len(c["jobs"])))
        exp = []
        for i, (x, m, *_) in enumerate(c["jobs"]):
            kd, v = value_of(x, m)
            exp.append(["exc", v] if kd == "exc" else ["ok", nums[i], v])
        if serial != exp:
            out.append(("serial evaluation gives %s, expected %s" % (serial, exp), []))
        if "numbering" in r:
            out += oracle_numbering(nums, r["numbering"])
        bynum = sorted([s_ for s_ in serial if s_[0] == "ok"], key=lambda s_: s_[1])
        items = r["items"]
        nums = [it[1] for it in items if it[0] == "ok"]
        if len(set(nums)) != len(nums):
            out.append(("a job number was delivered twice: %s" % nums, []))
        for it in items:
            if it[0] == "ok" and it not in serial:
                out.append(("delivered result %s is not the serial result of job %s" % (it, it[1]), []))
        excs = [s[1] for s in serial if s[0] == "exc"]
        if any(e > 1 for e in r["evals"]):
            out.append(("a job was evaluated more than once: %s" % r["evals"], []))
        if not excs:
            if r["raised"]:
                out.append(("no job raised but run_jobs reported %s" % (r["raised"],), []))
            if sorted(map(json.dumps, items)) != sorted(map(json.dumps, serial)):
                out.append(("run_jobs delivered %s, serial results %s" % (items, serial), []))
            if r["summaries"] != [s[2] for s in bynum]:
                out.append(("ResultBuilder slots %s, serial results by job number %s" % (r["summaries"], [s[2] for s in bynum]), []))
            if r["sorted"] != [[s[1], s[2]] for s in bynum]:
                out.append(("sorted results %s, serial results by job number %s" % (r["sorted"], bynum), []))
            if any(e != 1 for e in r["evals"]):
                out.append(("evaluation counts %s" % r["evals"], []))
        else:
            if not r["raised"] or r["raised"][0] != "AssertionError" or r["raised"][1] not in excs:
                out.append(("jobs raised %s but run_jobs reported %s" % (excs, r["raised"]), []))
            for kk, s in enumerate(r["summaries"]):
                if s is not None and ["ok", kk, s] not in serial:
                    out.append(("ResultBuilder slot %d holds %s" % (kk, s), []))
        return out
    return [("unknown kind", [])]


# ---------------------------------------------------------------------------
# Coq printers
# ---------------------------------------------------------------------------

def c_out(kind, v):
    return "(Ok %s)" % cZ(v) if kind == "ok" else "(Exc %s)" % cZ(v)


def c_sched(s):
    return clist(["(F %d)" % a[1] if a[0] == "F" else "(T %d)" % a[1] if a[0] == "T" else ("JP" if a[0] == "JP" else "P") for a in s])


def c_jsched(s):
    return clist(["(T %d)" % a[1] if a[0] == "T" else "JP" for a in s])


def c_nats(l):
    return clist([cnat(x) for x in l])


def zz(v):
    """a reported value as Z; anything that is not one of the expected codes becomes a value no model state holds"""
    return cZ(v if isinstance(v, int) and not isinstance(v, bool) else -999999)


def c_obs(b):
    raised = None
    if b["raised"]:
        raised = b["raised"][1] if b["raised"][0] == "WorkError" and isinstance(b["raised"][1], int) else -1
    return "(BO %s %s %s %s %s true)" % (clist([zz(y) for y in b["yields"]]), copt(raised, cZ), c_nats(b["pend"]),
                                         c_nats(b["resq"]), c_nats(b["evals"]))


def point_outcome(kd, v):
    if kd == "ok":
        return "(Ok (Some %s))" % cZ(v)
    if kd == "err":
        return "(Exc %s)" % cZ(v)
    return "(Ok None)"


def c_numbers(specs, r):
    sp = clist(["None" if x is None or x == "sneaky" else "(Some %s)" % cnat(x) for x in specs])
    if r["before"] < 0 or r["after"] < 0 or any(not isinstance(n, int) or n < 0 for n in r["numbers"]):
        return "CNumbers 0 [] [1] 0"
    return "CNumbers %s %s %s %s" % (cnat(r["before"]), sp, c_nats(r["numbers"]), cnat(r["after"]))


def coq_case(c, r):
    k = c["kind"]
    fx = cbool(MAP_FIXED)
    if k == "smap":
        bs = clist([cpair(clist([c_out(*expected_outcome(b, x, m)) for x, m in b["jobs"]]), c_sched(b["sched"]))
                    for b in c["batches"]])
        return "CSmap %s %s %s %s" % (fx, cnat(c["procs"]), bs, clist([c_obs(b) for b in r["batches"]]))
    if k == "emcee":
        outs = clist([c_out("ok", c["vals"][i]) for i in c["order"]])
        b = {"yields": r["log_prob"], "raised": None, "pend": r["pend"], "resq": r["resq"],
             "evals": [r["evals"][i] for i in c["order"]]}
        return "CSmap %s %s %s %s" % (fx, cnat(c["procs"]), clist([cpair(outs, c_sched(c["sched"]))]), clist([c_obs(b)]))
    if k == "init" and c.get("again") and "again" in r:
        return [coq_case({kk: v for kk, v in c.items() if kk != "again"}, r), coq_case(dict(c["again"], kind="init"), r["again"])]
    if k == "init":
        stream = clist([cpair(cZ(i), point_outcome(kd, v)) for i, (kd, v) in enumerate(c["stream"])])
        scheds = clist([c_sched(s) for s in c["scheds"]])
        if r["raised"]:
            exp = "(IRaised %s)" % cZ(r["raised"][1]) if r["raised"][0] == "WorkError" and isinstance(r["raised"][1], int) else "IStuck"
        else:
            exp = "(IOk %s)" % clist([cpair(cZ(kk), cZ(f)) for kk, f in zip(r["ks"], r["foms"])])
        return "CInit %s %s %s %s %s %s" % (fx, cnat(c["n"]), cnat(c["total"]), stream, scheds, exp)
    if k in ("grid_fit", "sens_fit"):
        par = r["parallel"]
        total = c["n"] ** len(c["grid"]) if k == "grid_fit" else c["n"]
        outs = clist([c_out("exc", i) if i in c["fail"] else c_out("ok", i) for i in range(total)])
        if not par["raised"]:
            raised = "None"
        elif par["raised"][0] == "CellError" and isinstance(par["raised"][1], int):
            raised = "(Some (Some %s))" % cZ(par["raised"][1])
        else:
            raised = "(Some None)"
        if k == "grid_fit":
            stored = [row[0] for row in par["csv"]]
            d = len(c["grid"])
            final = [None if cell is None else sum(v * c["n"] ** (d - 1 - j) for j, v in enumerate(cell)) for cell in par.get("cells", [])]
        else:
            stored = par["csv"]
            final = par.get("lls", [])
        return "CCaller %s %s %s %s %s %s %s" % (cbool(k == "sens_fit"), cnat(c["cores"] - 1), outs, c_jsched(c["sched"]), raised,
                                                c_nats(stored), clist([copt(v, cZ) for v in final]))
    if k == "numbering":
        return c_numbers(c["specs"], r)
    if k == "jobs_seq":
        terms = []
        for call, rr in zip(c["calls"], r["calls"]):
            one = coq_case(dict(call, kind="jobs"), rr)
            terms += [one] if isinstance(one, str) else one
            terms.append(c_numbers([None] * len(rr["drawn"]), {"before": rr["numbering"]["before"] - len(rr["drawn"]),
                                                                  "numbers": rr["drawn"], "after": rr["numbering"]["before"]}))
        return terms
    if k == "sneakier":
        ops, res = [], []
        if c["order"] in ("two-maps", "reenter"):
            sp = c["pools"][0]
            ops = ["(SConstruct 0 %s)" % cZ(sp["mul"]), "(SEnter 0)", "(SMap %s)" % clist([cZ(x) for x in sp["xs"]])]
            ops += (["SExit", "(SEnter 0)"] if c["order"] == "reenter" else []) + ["(SMap %s)" % clist([cZ(x) for x in sp["xs2"]]), "SExit"]
        elif c["order"] == "constructed-first":
            ops = ["(SConstruct %d %s)" % (i, cZ(sp["mul"])) for i, sp in enumerate(c["pools"])]
            for i, sp in enumerate(c["pools"]):
                ops += ["(SEnter %d)" % i, "(SMap %s)" % clist([cZ(x) for x in sp["xs"]]), "SExit"]
        else:
            for i, sp in enumerate(c["pools"]):
                ops += ["(SConstruct %d %s)" % (i, cZ(sp["mul"])), "(SEnter %d)" % i, "(SMap %s)" % clist([cZ(x) for x in sp["xs"]]), "SExit"]
        for x in r["results"]:
            res.append(copt(x[1] if x[0] == "ok" else None, lambda l: clist([cZ(v) for v in l])))
        return "CSneakier %s %s" % (clist(ops), clist(res))
    if k == "jobs":
        nums = c.get("nums") or list(range(len(c["jobs"])))
        outs = clist([c_out(*value_of(x, m)) for x, m in c["jobs"]])
        items = clist([cpair("(Some %s)" % cnat(it[1]), zz(it[2])) if it[0] == "ok" else cpair("None", zz(it[1])) for it in r["items"]])
        raised = None
        if r["raised"]:
            raised = r["raised"][1] if r["raised"][0] == "AssertionError" and isinstance(r["raised"][1], int) else -1
        if any(it[0] == "ok" and not isinstance(it[2], int) for it in r["items"]) or any(isinstance(s_, str) for s_ in r["summaries"]):
            return "CNumbers 0 [] [1] 0"        # a value came back changed (the oracle says which): no model state matches
        terms = ["CJobsN %s %s %s %s %s %s %s %s %s" % (
            cnat(c["cores"] - 1), c_nats(nums), outs, c_jsched(c["sched"]), items, copt(raised, cZ),
            clist([copt(s, cZ) for s in r["summaries"]]), clist([cpair(cnat(a), cZ(b)) for a, b in r["sorted"]]),
            c_nats(r["evals"]))]
        if "numbering" in r:
            terms.append(c_numbers(nums, r["numbering"]))
        return terms
        return "CJobs %s %s %s %s %s %s %s %s" % (
            cnat(c["cores"] - 1), outs, c_jsched(c["sched"]), items, copt(raised, cZ),
            clist([copt(s, cZ) for s in r["summaries"]]), clist([cpair(cnat(a), cZ(b)) for a, b in r["sorted"]]),
            c_nats(r["evals"]))
    return None


def nontrivial(c):
    k = c["kind"]
    if k in ("smap", "smap_free"):
        return c["procs"] >= 2 and any(len(b["jobs"]) >= 2 for b in c["batches"])
    if k == "emcee":
        return c["procs"] >= 2
    if k == "init":
        return c["n"] >= 2 and c["total"] >= 2
    if k in ("jobs", "jobs_free"):
        return c["cores"] >= 3 and len(c["jobs"]) >= 2
    if k == "jobs_race":
        return True
    if k in ("grid_fit", "sens_fit"):
        return c["cores"] >= 3
    if k == "sneakier":
        return c["procs"] >= 2
    if k in ("emcee_run", "pickle_walk", "numbering"):
        return True
    if k == "jobs_seq":
        return any(x["cores"] >= 3 and len(x["jobs"]) >= 2 for x in c["calls"])
    return False


def describe(c):
    k = c["kind"]
    if k in ("smap", "smap_free"):
        return {"kind": k, "procs": c["procs"], "batch_sizes": [len(b["jobs"]) for b in c["batches"]],
                "failing": [sum(1 for j in b["jobs"] if j[1] == 1) for b in c["batches"]]}
    if k == "init":
        return {"kind": k, "n": c["n"], "total": c["total"], "stream": len(c["stream"])}
    if k == "emcee":
        return {"kind": k, "procs": c["procs"], "walkers": len(c["vals"])}
    if k in ("jobs_race", "smap_twofit", "emcee_run", "pickle_walk", "numbering"):
        return dict(c)
    if k == "jobs_seq":
        return {"kind": k, "cores": max(x["cores"] for x in c["calls"]), "calls": [[x["cores"], len(x["jobs"]), bool(x.get("nums"))] for x in c["calls"]]}
    if k in ("grid_fit", "sens_fit"):
        return {"kind": k, "cores": c["cores"], "n": c["n"], "grid": c.get("grid"), "failing_cells": c["fail"]}
    if k == "sneakier":
        return {"kind": k, "procs": c["procs"], "order": c["order"], "pools": len(c["pools"])}
    return {"kind": k, "cores": c["cores"], "jobs": len(c["jobs"]), "failing": sum(1 for j in c["jobs"] if j[1] == 1)}


def normal_form(c):
    """the abstract program up to what cannot matter: with the ordered blocking map a P is a no-op (fstep P = fadvance,
    idempotent), so smap/init/emcee programs that differ only in their P's are the same program"""
    if not MAP_FIXED:
        return c
    def strip(s):
        return [a for a in s if a[0] != "P"]
    if c["kind"] == "smap":
        return dict(c, batches=[dict(b, sched=strip(b["sched"])) for b in c["batches"]])
    if c["kind"] == "init":
        return dict(c, scheds=[strip(s) for s in c["scheds"]])
    if c["kind"] == "emcee":
        return dict(c, sched=strip(c["sched"]))
    return c


def shards(cases, n):
    """split into n lists of indices (round robin); every stress case gets a driver of its own"""
    out = [[] for _ in range(n)]
    alone = []
    for i, c in enumerate(cases):
        if c["kind"] == "jobs_race":
            alone.append([i])
        else:
            out[i % n].append(i)
    return alone + [s for s in out if s]


def run(ctx):
    ctx.rule = ("cases are abstract programs: (smap) 1-3 batches of 0-8 jobs on one SneakyPool of 1-4 processes with a schedule of "
                "worker completions F w and turns of the main process P per batch, arguments as tuples, plain numbers, or tuples that "
                "hold the pool's fitness object at position 0/1/2; (init) samples_from_model with n_cores 1-4 over a scripted stream "
                "of points (value / resample / exception), one schedule per batch; (emcee) compute_log_prob through pool.map; (jobs) "
                "Process.run_jobs with 1-3 workers and a schedule of job takes T w and polls; (grid_fit / sens_fit) the real "
                "GridSearch.fit / Sensitivity.run on 2-4 cores with steered workers against number_of_cores=1, failing cells "
                "included; (*_free, emcee_run, jobs_race, sneakier) the same entry points and SneakierPool free-running under the OS "
                "scheduler (sleeps, 1.2 MB results), oracle only. A case is non-trivial when at least two workers and two jobs are "
                "involved; distinct = distinct abstract program, where programs of the ordered blocking map that differ only in "
                "their P actions (no-ops there) count once. Hardening sweep (every seed, by construction; distributions in the "
                "histograms): (values) 12 histories of three maps on one pool -- results that are falsy / None / numpy scalars / 0-d "
                "and 1-element arrays / nan / -0.0 (20 kinds, all covered), user exceptions of 8 kinds (no args, falsy object, "
                "carrying `number`/`result`, ZeroDivisionError ...) followed by a clean batch, plain scalar arguments of 12 kinds "
                "(0, 0.0, -0.0, False, None, numpy scalars); (jobs) every 6th case with job numbers that are not the queue order, "
                "with unusual results, with an unusual exception; (jobs_seq) histories of 2-3 run_jobs calls in one process with "
                "unnumbered jobs built in between; (numbering) histories of job constructions with an explicit 0 after the "
                "class-level counter has moved; (init) every 3rd case with figures of merit 0 and negative, every 6th case ONE "
                "initializer object used for two calls with another fitness / n_cores / total; (sneakier) one pool with two maps in "
                "one with-block, one pool entered twice")
    ctx.trusted = [
        "Coq 8.16.1 kernel incl. vm_compute",
        "correspondence harness c14.py / impl/c14_impl.py: schedule steering by per-worker semaphore gates (inside the evaluated "
        "functions for SneakyPool, in front of the shared job queue for run_jobs) and by proxies around the parent-side result "
        "queues: a blocking get() of the code under test advances the schedule until that worker has delivered, a get(timeout) "
        "expires at the next P, every queue.empty() call of run_jobs' collection loop is one poll tick; the real multiprocessing "
        "queues, worker processes, job classes, GridSearch, Sensitivity and ResultBuilder of /repo are used unchanged",
        "modelled not verified: multiprocessing.Queue is FIFO per queue and loses nothing; fork start method; pickling of jobs/results",
    ]
    ctx.assumptions = [
        "schedules are sequentially consistent interleavings of atomic worker steps (take/evaluate/put) and turns of the main "
        "process; steered runs execute one worker step at a time (true concurrency only in the free-running cases); the delay of "
        "the parent's queue feeder thread is modelled for run_jobs (action V); the steered correspondence runs with visible jobs",
        "out of scope (named, not modelled, not generated): a worker process that dies (BaseException, kill) or an unpicklable result "
        "-- the parent's blocking get() then waits for ever; a caller that abandons the generator of SneakyPool.map / run_jobs "
        "before it is exhausted (left-over results are handed to the next map: Witness stale_item_is_attributed_to_the_next_call; "
        "the only in-tree caller of map, the initializer's zip, exhausts it); a function that RETURNS an Exception instance is "
        "treated as if it had raised it; MPI pools; the real Emcee search (its fit fails in this environment with IndexError in "
        "emcee.autocorr for any number of cores) -- emcee is driven through EnsembleSampler.sample with the pool instead",
        "job building in the main thread concurrent with the feeder thread pickling earlier jobs is not part of the Coq model; "
        "the one interference found (former finding job-pickling-race, fixed by e882fb2) is pinned by the pickle_walk case, "
        "which forces that interleaving; the real-caller cases run without any pre-pickling",
        "which exception a map with several failing inputs raises: the LAST failing input's (model, theorem and oracle agree); "
        "serial evaluation would stop at the first",
    ]
    ctx.assumptions.append(
        "hardening sweep, outside the quantifier (not generated): public attributes of the fitness object changed between two maps "
        "of one SneakyPool (the workers hold the copy forked at construction: by design, every in-tree caller builds the pool per "
        "fit); a second GridSearch.fit / Sensitivity.run on the same object (resume of completed fits: C06/C16); arguments that are "
        "strings or 0-d arrays (SneakyJob hands the function list(args), serial evaluation would see the original container); "
        "priors / ids (class 4) do not occur in the anchored code -- the analogue, job NUMBER vs queue POSITION, is generated")
    ctx.notes["map_model"] = "fixed" if MAP_FIXED else "current (completion order)"
    import time as _t
    _t0 = _t.time()
    built = ctx.build()
    ctx.notes['t_build'] = round(_t.time() - _t0, 1)
    cases = gen_cases(ctx)
    if ctx.replay:
        rp = json.load(open(ctx.replay))
        if rp.get("case"):
            cases = [rp["case"]]
    nsh = min(common.NCPU, 16, max(1, len(cases) // 4))
    parts = shards(cases, nsh)
    # bounded time: every driver has a budget for all its cases together (per-case limits inside); a driver that does not
    # come back by itself is killed BUDGET + 60 s after its start and its cases are reported as not completed
    budget = 600 if ctx.tier == "thorough" else 180
    outs = common.run_impl_parallel("c14_impl", [{"cases": [cases[i] for i in p], "budget": budget} for p in parts],
                                    timeout=budget + 60, workers=len(parts))
    ctx.notes['t_impl'] = round(_t.time() - _t0, 1)
    results = [None] * len(cases)
    for p, o in zip(parts, outs):
        if "__error__" in o:
            ctx.obligation("impl-driver", "harness", False, "a driver crashed or did not return within its budget: " + o["__error__"][-600:])
            for i in p:
                results[i] = {"exc": "NotRun", "msg": "driver killed"}
            continue
        for i, r in zip(p, o["results"]):
            results[i] = r
    notrun = [i for i, r in enumerate(results) if r is None or r.get("exc") == "NotRun"]
    if notrun:
        ctx.obligation("impl-driver:budget", "harness", False,
                       "%d cases were not run because an earlier case used up the time budget of its driver" % len(notrun))
    coq_cases, coq_idx = [], []
    fails = {}
    for i, (c, r) in enumerate(zip(cases, results)):
        ctx.count_case({kk: v for kk, v in normal_form(c).items() if kk != "pin"}, nontrivial(c), c["kind"])
        ctx.oracle["cases"] += 1
        d = describe(c)
        ctx.hist("workers", d["procs"] if "procs" in d else d["cores"] - 1 if "cores" in d else d.get("n", 1))
        if c["kind"] == "jobs_race" and "ok" in r:
            ctx.notes.setdefault("jobs_race", []).append({"case": d, "hangs": r["ok"]["hangs"], "calls": r["ok"]["calls"],
                                                          "calls_leaving_a_worker_blocked_in_get": r["ok"].get("stuck")})
        for call in ([c] if c["kind"] == "jobs" else c["calls"] if c["kind"] == "jobs_seq" else []):
            ctx.hist("job_numbering", "queue order" if not call.get("nums") else "0 first" if call["nums"][0] == 0 else "permuted")
            for x, m in call["jobs"]:
                if m == 2:
                    ctx.hist("unusual_result(run_jobs)", x % N_UNUSUAL)
                if m == 3:
                    ctx.hist("exception_kind(run_jobs)", x % N_EXC)
        if c["kind"] == "init":
            ctx.hist("initializer_history", "one object, two calls (n %d -> %d)" % (c["n"], c["again"]["n"]) if c.get("again") else "single call")
            if any(kd == "ok" and v <= 0 for kd, v in c["stream"]):
                ctx.hist("initializer_values", "zero" if ["ok", 0] in c["stream"] else "negative")
        if c["kind"] == "jobs_seq":
            ctx.hist("run_jobs_history", "%d calls, workers %s" % (len(c["calls"]), [x["cores"] - 1 for x in c["calls"]]))
        if c["kind"] == "numbering":
            ctx.hist("numbering_history", "explicit-0-after-%d-draws" % len([x for x in c["specs"][:c["specs"].index(0)] if x in (None, "sneaky")]))
        if c["kind"] == "sneakier":
            ctx.hist("sneakier_history", c["order"])
        if c["kind"] == "smap":
            for bi, b in enumerate(c["batches"]):
                for x, m in b["jobs"]:
                    if m == 2:
                        ctx.hist("unusual_result(map)", x % N_UNUSUAL)
                    if m == 3:
                        ctx.hist("exception_kind(map)", x % N_EXC)
                    if b.get("scalar") and x >= 100:
                        ctx.hist("scalar_argument_kind", x - 100)
                if b.get("fkind"):
                    ctx.hist("mapped_callable_kind", b["fkind"])
                if b.get("akind"):
                    ctx.hist("callable_argument_kind", "%s@%d" % (b["akind"], b["apos"]))
                if bi and any(j[1] in (1, 3) for j in c["batches"][bi - 1]["jobs"]) and not any(j[1] in (1, 3) for j in b["jobs"]):
                    ctx.hist("map_history", "clean batch after a failed one")
        if c["kind"] in ("smap", "smap_free"):
            for b in c["batches"]:
                ctx.hist("batch_size", len(b["jobs"]))
                ctx.hist("failing_jobs", sum(1 for j in b["jobs"] if j[1] == 1))
        if r is None or r.get("exc") == "NotRun":
            fails[i] = True
            continue
        if "exc" in r:
            ctx.oracle["failures"] += 1
            # a free-running run_jobs call that never returns is the start-up race of Process.run (known finding);
            # the label describes the case (kind), it is only attached to this failure mode
            cls = []
            ctx.failure("oracle", "implementation did not complete: %s: %s" % (r["exc"], r.get("msg")), c, classes=cls, impl=r)
            fails[i] = True
            continue
        msgs = oracle(c, r["ok"])
        hard = False
        for msg, classes in msgs:
            ctx.oracle["failures"] += 1
            if ctx.failure("oracle", msg, c, classes=classes, impl=r["ok"]):
                hard = True
        fails[i] = bool(msgs)
        cc = coq_case(c, r["ok"])
        for term in ([cc] if isinstance(cc, str) else cc or []):
            coq_cases.append(term)
            coq_idx.append(i)
        if i % 29 == 0:
            ctx.sample({"case": d}, limit=10)
    # former findings, repaired in /repo: their pinned cases must pass now (a fixed entry suppresses nothing)
    pins = {}
    for i, c in enumerate(cases):
        if c.get("pin"):
            pins.setdefault(c["pin"], []).append(i)
    for sig in ("sneaky-map-completion-order", "run-jobs-startup-race", "grid-parallel-failing-cell", "job-pickling-race"):
        idx = pins.get(sig, [])
        if not idx and ctx.replay:
            continue
        bad = [i for i in idx if fails.get(i, True)]
        ctx.obligation("regression:" + sig, "regression", bool(idx) and not bad,
                       "%d pinned case(s) of the repaired finding pass" % len(idx) if idx and not bad else
                       "pinned cases %s of the repaired finding fail again" % [describe(cases[i]) for i in bad] if idx else "no pinned case ran")
    if os.path.exists(os.path.join(common.COQ, "C14", "Model.vo")):
        hdr = ctx.header(["Model"])
        bad, log = ctx.eval_cases(hdr, "case", "check_case", coq_cases, shard=40)
        ctx.notes['t_coq'] = round(_t.time() - _t0, 1)
        if bad and os.environ.get("C14_DEBUG"):
            with open(os.environ["C14_DEBUG"], "w") as f:
                json.dump([{"case": cases[coq_idx[b]], "impl": results[coq_idx[b]], "coq": coq_cases[b]} for b in bad], f, indent=1)
        if bad:
            for b in bad[:5]:
                i = coq_idx[b]
                ctx.failure("correspondence", "model and implementation disagree on a %s case" % cases[i]["kind"],
                            cases[i], impl=results[i].get("ok"), broken={"kind": "correspondence", "name": "C14.check_case"},
                            found_input=fails.get(i, False))
    else:
        ctx.obligation("correspondence:cases", "correspondence", False, "Model.vo not built")


MANIFEST = {
    "text": "Coq 8.16 transition-system models of SneakyPool.map (ordered blocking collection), Process.run_jobs (sentinel worker "
            "loop) and the initializer's batching, with theorems for every schedule (list of worker completions / job takes and "
            "turns of the main process): map returns exactly the serial results by position, each job evaluated exactly once, no "
            "item left in any queue after a call returns or raises, for every sequence of batches; map and run_jobs terminate "
            "once every job has been evaluated / taken; run_jobs delivers a sub-multiset of the jobs, every result once when no "
            "job fails, an exception of one of its jobs otherwise; results keyed by job number (ResultBuilder / sorted) reproduce "
            "serial order; the initializer returns the valid points of a stream prefix with their own values for any number of "
            "cores. vm_compute correspondence of the model with the real pools and with the real GridSearch.fit / Sensitivity.run "
            "under deterministically steered schedules, plus a direct property oracle (also free-running: emcee sampling, 1.2 MB "
            "results, run_jobs stress, SneakierPool). The behaviour before the two repairs is kept as refuted statements. "
            "Hardening sweep: run_jobs on jobs queued in any order of their numbers gives ResultBuilder / sorted results in number "
            "order (C14_jobs_keyed_any_numbering); explicit job numbers do not depend on the class-level job counter "
            "(C14_numbering_history_free, slip `number or next` refuted); SneakierPool's class-global FunctionCache as a state "
            "machine with an explicit cache policy: install-at-enter right for every history, the code's policy right for "
            "in-tree uses only and refuted for two pools / a re-entered pool; generator: unusual results (20 kinds), user "
            "exception kinds (8), scalar argument kinds (12), histories of maps / run_jobs calls / initializer calls / job "
            "constructions, all in every quick run.",
    "note": "Trusted: Coq kernel + vm_compute, the steering harness (semaphore gates, proxies around the parent-side queues; code "
            "under test unmodified), FIFO/no-loss semantics of multiprocessing.Queue. Schedules are atomic interleavings; worker "
            "death, abandoned generators and MPI pools are out of scope (stated in the evidence). No known finding is open; "
            "fixed in /repo and pinned by regression obligations: sneakier-two-pools-constructed and sneakier-reentered-after-exit (03fc8df; the correspondence runs the "
            "install-at-enter policy, C14_sneakier_install_at_enter), sneaky-map-completion-order "
            "(c80ac95), run-jobs-startup-race (67a753d), grid-parallel-failing-cell (74ff428), job-pickling-race (e882fb2).",
    "technique": "machine-checked proof in Coq (schedule-quantified transition systems) + vm_compute correspondence under steered schedules",
}
