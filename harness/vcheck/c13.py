"""C13 -- model answers depend only on current composition (DESIGN.md section 5, C13).

Abstract programs: histories of new / query / freeze / unfreeze / set / append / del / copy /
failing-call operations over a heap of Model / Collection / TuplePrior objects (shared children,
several roots).  Three interpreters see every history:
  * the real objects (harness/impl/c13_impl.py),
  * the Gallina model (coq/C13/Model.v, `check_case`, compared inside Coq by vm_compute),
  * the reference `Mirror` below: the *composition only* (no caches, no recursion cache) and
    pure queries on it -- the direct statement of the property (the oracle).
"""
import json
import os

from . import common

CLASSES = [["a", "b"], ["a", "b", "c"], ["pos", "w"], ["x"]]
# constructor signatures a history may give its four component classes (the first entry is the table above); with
# `class_names` several classes of one history carry the same __module__ / __qualname__ / __name__ (as classes returned
# by a class factory do) and with `bases` one class derives from another and overrides its constructor
CLASS_POOL = [
    [["a", "b"], ["b", "a"], ["a"], ["a", "b", "c"], ["a", "c"], ["b"]],
    [["a", "b", "c"], ["a", "b"], ["c", "a", "b"], ["a", "b", "x"], ["b"], ["a", "c"]],
    [["pos", "w"], ["w", "pos"], ["pos", "w", "a"], ["pos"], ["a", "pos"]],
    [["x"], ["x", "a"], ["a", "b"], ["b", "x", "a"], ["a", "b", "c"]],
]
MODEL_EXTRA = ["e", "f", "g"]
COLL_KEYS = ["m", "n", "k", "q", "r", "s"]
NPRIORS = 14
SETITEM_TRANSFERS = False  # /repo since 6df133a: no id transfer to an object handed in by the caller (Model.v: setitem_transfers)
# /repo since 6ba0708, b49160e, 29fc8b9 (proposed_fixes/C13-delattr-guard, -tuple-prior-frozen, -cache-modification-count);
# same meaning as the constants of coq/C13/Model.v
DELATTR_GUARDED = True    # Model.v: delattr_guarded
TUPLES_FROZEN = True      # Model.v: tuples_frozen
TRESTORE = True            # /repo since 916e580: restoring state re-applies the owner's flag to its tuple priors (Model.v: tuple_flag_restored)
CACHE_COUNTS = True       # Model.v: cache_counts_modifications (needs the other two)
DERIVE_THAWS = False       # /repo since b8214a7: prior passing unfreezes its copy, not self (Model.v: derive_thaws)


# ---------------------------------------------------------------------------
# reference semantics: composition + pure queries
# ---------------------------------------------------------------------------
class MObj:
    def __init__(self, kind, cls, attrs, nitems, frozen=False):
        self.kind, self.cls, self.attrs, self.nitems, self.frozen = kind, cls, [list(a) for a in attrs], nitems, frozen

    def get(self, name):
        for k, v in self.attrs:
            if k == name:
                return v
        return None

    def set(self, name, v):
        for a in self.attrs:
            if a[0] == name:
                a[1] = v
                return
        self.attrs.append([name, v])

    def delete(self, name):
        self.attrs = [a for a in self.attrs if a[0] != name]


class Mirror:
    def __init__(self, case):
        self.classes = case["classes"]
        self.names = case.get("class_names") or ["K%d" % i for i in range(len(self.classes))]
        self.bases = case.get("bases") or [None] * len(self.classes)
        self.limits = {p: (lo, hi) for p, lo, hi in case["priors"]}
        self.objs = []
        self.stale = {}        # frozen object -> labels of what changed below it since its cache could be filled
        self.lost = {}         # frozen object -> children deleted from it while frozen
        self.uncertain = set() # objects whose implementation flag may differ (freeze through a stale direct cache)
        self.rewritten = set() # priors whose id Collection.__setitem__ overwrote
        self.poisoned = set()
        self.thawed_by_derive = set()
        self.scrambled = set() # frozen objects whose caller edited a list a cached function returned, no model modified since

    def is_pm(self, v):
        return v[0] == "r" and v[1] < len(self.objs) and self.objs[v[1]].kind != "tuple"

    # -- classes ----------------------------------------------------------------
    def aliased(self, cls):
        """is `module.name` of this class some OTHER class (an earlier one of the same name)?"""
        return self.names.index(self.names[cls]) != cls

    def by_name_ok(self, o):
        """can o be stored in a form that names classes by their import path (database form)?"""
        return not any(self.objs[t].kind == "model" and self.aliased(self.objs[t].cls) for t in self.reach(o))

    def has_subclass(self, cls):
        return any(b == cls for b in self.bases)

    # -- reachability ---------------------------------------------------------
    def reach(self, o, acc=None):
        acc = set() if acc is None else acc
        if o in acc:
            return acc
        acc.add(o)
        for _, v in self.objs[o].attrs:
            if v[0] == "r":
                self.reach(v[1], acc)
        return acc

    def frozen_ancestors(self, t):
        """frozen objects (other than t itself) from which t is reachable"""
        return [i for i, ob in enumerate(self.objs) if ob.frozen and i != t and t in self.reach(i)]

    def depth(self, o, vis=()):
        d = 0
        for _, v in self.objs[o].attrs:
            if v[0] == "r" and v[1] != o and v[1] not in vis:
                d = max(d, self.depth(v[1], vis + (o,)))
        return d + 1

    def loops(self, o):
        """does o reach a self-referential object?"""
        return any(any(v[0] == "r" and v[1] == t for _, v in self.objs[t].attrs) for t in self.reach(o))

    def relevant(self, o):
        """finding labels that can explain a wrong answer of a query on o (see oracle)"""
        rs = self.reach(o)
        out = set()
        for f in rs:
            if self.objs[f].frozen:
                out |= self.stale.get(f, set())
        if rs & self.poisoned:
            out.add("failing-walk")
        if self.rewritten and any(l[0] == "p" and l[1] in self.rewritten
                                  for t in rs for _, l in self.objs[t].attrs):
            out.add("setitem-existing-key")
        if rs & self.scrambled:
            out.add("returned-list-edited-by-caller")
        return sorted(out)

    # -- pure queries -----------------------------------------------------------
    def walk(self, v, sel, vis=()):
        """None = the placeholder of the recursion guard (object already being walked)"""
        t, x = v
        if t == "p":
            return [([], v)] if sel != "tuple" else []
        if t == "c":
            return [([], v)] if sel in ("info", "param") else []
        if x in vis:
            return None
        ob = self.objs[x]
        if sel == "tuple" and ob.kind == "tuple":
            return [([], v)]
        out = []
        for k, cv in ob.attrs:
            sub = self.walk(cv, sel, vis + (x,))
            if sub is None:          # iterating the placeholder raises TypeError, swallowed: results so far
                break
            for p, l in sub:
                out.append(([k] + p, l))
        return out

    def model_tuples(self, o, cls, izd):
        """model_tuples_with_type(cls, include_zero_dimension=izd): (attribute name, Model) found with ignore_children=False"""
        out = []

        def rec(v, vis, name):
            if v[0] != "r":
                return True
            if v[1] in vis:
                return False
            ob = self.objs[v[1]]
            if ob.kind == "model":
                out.append((name, v[1]))
            for k, cv in ob.attrs:
                if not rec(cv, vis + (v[1],), k):
                    break
            return True
        rec(["r", o], (), "")
        return [[[name], ["r", c]] for name, c in out
                if (cls is None or self.objs[c].cls == cls) and (izd or self.count(c) > 0)]

    def models(self, o, cls, izd):
        """models_with_type(cls, include_zero_dimension=izd)"""
        return [[[], l] for _, l in self.model_tuples(o, cls, izd)]

    def raw(self, o, q):
        """the value one frozen_cache function returns, in its own order"""
        what = q[1]
        if what == "pit":
            return [[p, l] for p, l in self.walk(["r", o], q[2])]
        if what == "attr":
            return [[[p[-1]] if p else [""], l] for p, l in self.walk(["r", o], "prior")]
        if what == "unique":
            return [[p, l] for p, l in self.unique(o)]
        if what == "direct":
            want = q[2]
            out = []
            for k, v in self.objs[o].attrs:
                if (want == "prior" and v[0] == "p") or (want == "float" and v[0] == "c") or \
                        (want == "tuple" and v[0] == "r" and self.objs[v[1]].kind == "tuple") or (want == "pm" and self.is_pm(v)):
                    out.append([[k], v])
            return out
        if what == "mtt":
            return self.model_tuples(o, q[2], q[3])
        raise ValueError(q)

    def unique(self, o):
        d = {}
        for p, l in self.walk(["r", o], "prior"):
            d[l[1]] = ([p[-1]], l)     # first position, last value
        return list(d.values())

    def count(self, o):
        return len(self.unique(o))

    def paths(self, o):
        return sorted(self.walk(["r", o], "prior"), key=lambda t: t[1][1])

    def ordered(self, o):
        return sorted(self.unique(o), key=lambda t: t[1][1])

    class Raise(Exception):
        pass

    def inst_for(self, o, args, depth=0):
        if depth > 40:
            raise Mirror.Raise("RecursionError")
        ob = self.objs[o]
        if ob.kind == "tuple":
            return {"raw": 1}
        if ob.kind == "coll":
            fs = []
            for k, v in ob.attrs:
                if v[0] == "p":
                    if v[1] not in args:
                        raise Mirror.Raise("KeyError")
                    fs.append([k, {"v": args[v[1]]}])
                elif v[0] == "c":
                    fs.append([k, {"v": v[1]}])
                elif self.is_pm(v):
                    fs.append([k, self.inst_for(v[1], args, depth + 1)])
                else:
                    fs.append([k, {"raw": 1}])
            return {"o": fs}
        ctor = self.classes[ob.cls]
        given = {}
        for k, v in ob.attrs:                       # tuple priors
            if v[0] == "r" and self.objs[v[1]].kind == "tuple":
                mem = sorted(self.objs[v[1]].attrs, key=lambda a: a[0])
                vals = []
                for mk, mv in mem:
                    if mv[0] == "p":
                        if mv[1] not in args:
                            raise Mirror.Raise("KeyError")
                        vals.append(args[mv[1]])
                    elif mv[0] == "c":
                        vals.append(mv[1])
                given[k] = {"t": vals}
        for k, v in ob.attrs:                       # child prior models
            if self.is_pm(v):
                given[k] = self.inst_for(v[1], args, depth + 1)
        for k, v in ob.attrs:                       # direct priors
            if v[0] == "p":
                if v[1] not in args:
                    raise Mirror.Raise("KeyError")
                given[k] = {"v": args[v[1]]}
        if any(k not in ctor for k in given):
            raise Mirror.Raise("TypeError")
        fields = []
        for c in ctor:
            if c in given:
                fields.append([c, given[c]])
            else:
                v = ob.get(c)
                fields.append([c, {"v": 0} if v is None else {"v": v[1]} if v[0] == "c" else {"raw": 1}])
        for k, v in ob.attrs:
            if k not in ctor and v[0] == "c":
                fields.append([k, {"v": v[1]}])
        return {"o": fields}

    def instance(self, o, vec):
        if len(vec) != self.count(o):
            raise Mirror.Raise("AssertionError")
        pids = [l[1] for _, l in self.ordered(o)]
        args = dict(zip(pids, vec))
        for p, v in args.items():
            lo, hi = self.limits[p]
            if not (lo <= v <= hi):
                raise Mirror.Raise("PriorLimitException")
        return self.inst_for(o, args)

    def unit(self, o, quarters):
        if self.count(o) != len(quarters):
            raise Mirror.Raise("AssertionError")
        args = {}
        for (_, l), q in zip(self.ordered(o), quarters):
            lo, hi = self.limits[l[1]]
            args[l[1]] = lo + q * (hi - lo) // 4
        return self.inst_for(o, args)

    def allpaths(self, o):
        groups = {}
        for p, l in self.paths(o):
            groups.setdefault(l[1], []).append(p)
        return [groups[k] for k in sorted(groups)]

    def resolve(self, o, path):
        for name in path:
            v = self.objs[o].get(name)
            o = v[1]
        return o

    def info(self, o):
        a = [[p, l] for p, l in self.walk(["r", o], "info")]
        b = []
        for p, _ in self.walk(["r", o], "param"):
            for i in range(len(p)):
                c = self.resolve(o, p[:i])
                ob = self.objs[c]
                if ob.kind == "tuple":
                    continue
                b.append([p[:i], ob.cls if ob.kind == "model" else None, self.count(c)])
        return {"a": a, "n": self.count(o), "b": b}

    def query(self, o, q):
        try:
            k = q[0]
            if k == "count":
                return {"ok": self.count(o)}
            if k == "paths":
                return {"ok": [[p, l] for p, l in self.paths(o)]}
            if k == "ordered":
                return {"ok": [[p, l] for p, l in self.ordered(o)]}
            if k == "instance":
                return {"ok": self.instance(o, q[1])}
            if k == "info":
                return {"ok": self.info(o)}
            if k == "models":
                return {"ok": self.models(o, q[1], q[2])}
            if k == "unit":
                return {"ok": self.unit(o, q[1])}
            if k == "allpaths":
                return {"ok": self.allpaths(o)}
            if k == "raw":
                return {"ok": self.raw(o, q)}
        except Mirror.Raise as e:
            return {"exc": str(e)}
        raise ValueError(q)

    # -- state changes ----------------------------------------------------------
    def freeze(self, o):
        if self.objs[o].frozen and self.lost.get(o):
            # the implementation walks its stale cached child list here: it also freezes the lost children
            for c in self.lost[o]:
                self.uncertain |= self.reach(c)
        for _, v in self.objs[o].attrs:
            if self.is_pm(v) and v[1] != o:
                self.freeze(v[1])
        self.set_tuples(o, True)
        self.objs[o].frozen = True

    def unfreeze(self, o):
        self.objs[o].frozen = False
        self.stale.pop(o, None)        # its cache is gone
        self.lost.pop(o, None)
        for _, v in self.objs[o].attrs:
            if self.is_pm(v) and v[1] != o:
                self.unfreeze(v[1])
        self.set_tuples(o, False)

    def set_tuples(self, o, flag):
        if TUPLES_FROZEN:
            for _, v in self.objs[o].attrs:
                if v[0] == "r" and self.objs[v[1]].kind == "tuple":
                    self.objs[v[1]].frozen = flag

    def refuses_label(self, v):
        """Model.__setattr__ labels the assigned value: a frozen Model / Collection (and, since b49160e, TuplePrior) refuses"""
        if v[0] != "r" or v[1] >= len(self.objs):
            return False
        ob = self.objs[v[1]]
        return ob.frozen and (ob.kind != "tuple" or TUPLES_FROZEN)

    def guarded(self, ob, deleting=False):
        """does an assert_not_frozen wrapper sit in front of this setattr / delattr?"""
        if ob.kind == "tuple":
            return TUPLES_FROZEN
        return DELATTR_GUARDED if deleting else True

    def derive_thaw(self, o, depth=0):
        """what mapper_from_prior_arguments does to the frozen flags of the pinned code"""
        if depth > 40:
            return
        ob = self.objs[o]
        if ob.kind == "model":
            if ob.frozen or any(self.objs[t].frozen for t in self.reach(o) if self.objs[t].kind != "tuple"):
                self.thawed_by_derive |= {t for t in self.reach(o) if self.objs[t].kind != "tuple"}
            self.unfreeze(o)
        for _, v in ob.attrs:
            if self.is_pm(v):
                self.derive_thaw(v[1], depth + 1)

    def derive_would_thaw(self, o, vis=()):
        ob = self.objs[o]
        if o in vis or ob.kind == "tuple":
            return False
        if ob.kind == "model" and any(self.objs[t].frozen for t in self.reach(o) if self.objs[t].kind != "tuple"):
            return True
        return any(self.is_pm(v) and self.derive_would_thaw(v[1], vis + (o,)) for _, v in ob.attrs)

    def set_target(self, o, name):
        """effective target of setattr (Model redirects tuple member names)"""
        ob = self.objs[o]
        if ob.kind == "model" and "_" in name and name not in self.classes[ob.cls]:
            v = ob.get(name.rsplit("_", 1)[0])        # members of tuple argument "name" are name_0, name_1 ...
            if v is not None and v[0] == "r" and self.objs[v[1]].kind == "tuple":
                return v[1]
        return o

    def copy(self, o, memo=None):
        memo = {} if memo is None else memo
        if o in memo:
            return memo[o]
        src = self.objs[o]
        new = MObj(src.kind, src.cls, [], src.nitems, src.frozen)
        self.objs.append(new)
        memo[o] = len(self.objs) - 1
        idx = memo[o]
        for k, v in src.attrs:
            new.attrs.append([k, ["r", self.copy(v[1], memo)] if v[0] == "r" else list(v)])
        self.retuple(idx)
        return idx

    def retuple(self, idx):
        """AbstractModel.__setstate__: the owner's flag is re-applied to its tuple priors"""
        ob = self.objs[idx]
        if TUPLES_FROZEN and TRESTORE and ob.kind != "tuple":
            for _, v in ob.attrs:
                if v[0] == "r" and self.objs[v[1]].kind == "tuple":
                    self.objs[v[1]].frozen = ob.frozen

    def dbcopy(self, o, depth=0):
        """database form: no memo (shared components are duplicated), no frozen flag"""
        if depth > 40:
            raise Mirror.Raise("RecursionError")
        src = self.objs[o]
        # item_number is not stored in the database form: it is rebuilt as highest positional key + 1 (acffd7c),
        # so that append after a reload never overwrites an item
        nitems = max([int(k) + 1 for k, _ in src.attrs if k.isdigit()], default=0) if src.kind == "coll" else src.nitems
        new = MObj(src.kind, src.cls, [], nitems, False)
        self.objs.append(new)
        idx = len(self.objs) - 1
        for k, v in src.attrs:
            new.attrs.append([k, ["r", self.dbcopy(v[1], depth + 1)] if v[0] == "r" else list(v)])
        return idx

    def apply(self, op):
        """Returns (expected outcome or None when unconstrained, labels of this op)."""
        k = op[0]
        if k == "scramble":
            # reference semantics: the returned list belongs to the caller, nothing happens to the model.  The code hands
            # out the list object stored in the frozen cache (only unique_prior_tuples / prior_tuples_ordered_by_id are
            # rebuilt by cast_collection), which stays in use until some model of the process is modified
            if self.objs[op[1]].frozen and op[2][1] != "unique":
                self.scrambled.add(op[1])
                return {"ok": None}, ["returned-list-edited-by-caller"]
            return {"ok": None}, []
        exp, labels = self.apply_(op)
        if k not in ("query", "failwalk") and not (exp is not None and "exc" in exp):
            self.scrambled.clear()          # an accepted modification / construction / copy: every frozen cache is dropped
        return exp, labels

    def apply_(self, op):
        k = op[0]
        if k == "new":
            _, kind, cls, attrs, nitems = op
            if kind == "model" and any(self.refuses_label(v) for _, v in attrs):
                return {"exc": "AssertionError"}, []
            self.objs.append(MObj(kind, cls, attrs, nitems))
            return {"ok": None}, []
        o = op[1]
        ob = self.objs[o]
        if k == "query":
            return self.query(o, op[2]), []
        if k == "freeze":
            self.freeze(o)
            return {"ok": None}, []
        if k == "unfreeze":
            self.unfreeze(o)
            return {"ok": None}, []
        if k == "failwalk":
            return {"exc": "TypeError"}, []           # harmless since 5afd9f1 (the corpus history pins it)
        if k == "derive":
            labels = ["derive-thaws-frozen"] if DERIVE_THAWS and self.derive_would_thaw(o) else []
            if DERIVE_THAWS:
                self.derive_thaw(o)
            if self.loops(o):          # self-referential composition: no reference semantics for prior passing
                self.uncertain |= self.reach(o)
                return None, labels
            return {"ok": None}, labels
        if k == "copy":
            self.copy_base = len(self.objs)
            self.copy(o)
            return {"ok": None}, []
        if k == "restore":
            self.copy_base = len(self.objs)
            if op[2] == "shallow":
                self.objs.append(MObj(ob.kind, ob.cls, [list(a) for a in ob.attrs], ob.nitems, ob.frozen))
                self.retuple(len(self.objs) - 1)
            else:
                self.dbcopy(o)
            return {"ok": None}, []
        setitem_labels = []
        if k == "setitem":                       # Collection.__setitem__; reference semantics: plain assignment
            old = ob.get(str(op[2]))
            if SETITEM_TRANSFERS and not ob.frozen and old is not None and old[0] != "c":
                if self.is_pm(op[3]) and self.objs[op[3][1]].frozen:
                    return {"exc": "AssertionError"}, []        # the id transfer is refused by the frozen value
                if op[3][0] == "p":
                    setitem_labels = ["setitem-existing-key"]
                    self.rewritten.add(op[3][1])
            k, op = "set", ["set", o, str(op[2]), op[3]]
        if k in ("set", "append"):
            if ob.frozen and self.guarded(ob):
                return {"exc": "AssertionError"}, ["rejected"]
            v = op[3] if k == "set" else op[2]
            if k == "set" and ob.kind == "model" and self.refuses_label(v):
                return {"exc": "AssertionError"}, []
            t = self.set_target(o, op[2]) if k == "set" else o
            if t != o and self.objs[t].frozen and self.guarded(self.objs[t]):
                return {"exc": "AssertionError"}, ["rejected"]          # the redirect hits the frozen TuplePrior
            labels = self.mod_labels(t) + setitem_labels
            if k == "set":
                self.objs[t].set(op[2], v)
            else:
                ob.set(str(ob.nitems), v)
                ob.nitems += 1
            return {"ok": None}, labels
        if k == "del":
            if ob.frozen and self.guarded(ob, deleting=True):
                return {"exc": "AssertionError"}, ["rejected"]
            if ob.get(op[2]) is None:
                return {"exc": "AttributeError"}, []
            labels = self.mod_labels(o, deleting=True)
            if "delattr-on-frozen" in labels and self.is_pm(ob.get(op[2])):
                self.lost.setdefault(o, set()).add(ob.get(op[2])[1])
            ob.delete(op[2])
            return {"ok": None}, labels
        raise ValueError(op)

    def mod_labels(self, t, deleting=False):
        tob = self.objs[t]
        labels = []
        if CACHE_COUNTS:            # every accepted modification drops every cache: nothing can be stale
            return labels
        if deleting and tob.kind != "tuple" and tob.frozen:
            labels.append("delattr-on-frozen")
            self.stale.setdefault(t, set()).add("delattr-on-frozen")
        anc = self.frozen_ancestors(t)
        if anc:
            lab = "tuple-member-under-frozen" if tob.kind == "tuple" else "modified-under-frozen-ancestor"
            labels.append(lab)
            for f in anc:
                self.stale.setdefault(f, set()).add(lab)
        return labels


# ---------------------------------------------------------------------------
# generator
# ---------------------------------------------------------------------------
class Gen:
    def __init__(self, rng, dirty, max_ops, failwalk=False, ids=False, shape=None, alias=False):
        self.rng, self.dirty, self.max_ops, self.failwalk, self.ids = rng, dirty, max_ops, failwalk, ids
        self.alias = alias
        shape = shape or {"classes": CLASSES, "class_names": ["K0", "K1", "K2", "K3"], "bases": [None] * 4}
        self.classes = shape["classes"]
        pri = []
        for p in range(NPRIORS):
            lo = rng.choice([0, 0, 0, 1, 2])
            hi = lo + rng.choice([4, 4, 8, 12, 20])      # multiples of 4: units q/4 give integers
            pri.append([p, lo, hi])
        self.case = {"classes": self.classes, "class_names": shape["class_names"], "bases": shape["bases"], "priors": pri, "ops": []}
        self.m = Mirror(self.case)
        self.next_prior = 0
        # prior ids are NOT handed out in the order in which attributes are filled: id order differs from traversal order
        self.order = list(range(NPRIORS))
        if rng.random() < 0.8:
            rng.shuffle(self.order)

    def emit(self, op):
        self.case["ops"].append(op)
        self.m.apply(op)

    def prior(self):
        r = self.rng
        if self.next_prior < NPRIORS and (self.next_prior == 0 or r.random() < 0.75):
            self.next_prior += 1
            return ["p", self.order[self.next_prior - 1]]
        return ["p", self.order[r.randrange(max(1, self.next_prior))]]

    def leafval(self):
        return self.prior() if self.rng.random() < 0.7 else ["c", self.rng.randint(1, 9)]

    def pms(self):
        return [i for i, o in enumerate(self.m.objs) if o.kind != "tuple"]

    def new_tuple(self):
        n = self.rng.choice([2, 2, 3])
        self.emit(["new", "tuple", None, [["pos_%d" % i, self.leafval()] for i in range(n)], 0])
        return len(self.m.objs) - 1

    def child_value(self, depth, avoid_frozen):
        """a value for a component slot: new object, existing (shared) object, or a leaf"""
        r = self.rng
        x = r.random()
        if depth > 0 and x < 0.35:
            return ["r", self.new_object(depth - 1)]
        if x < 0.45:
            cands = [i for i in self.pms() if self.m.depth(i) <= depth + 1
                     and not (avoid_frozen and self.m.objs[i].frozen)]
            if cands:
                return ["r", r.choice(cands)]
        return self.leafval()

    def new_model(self, cls, depth):
        r = self.rng
        attrs = []
        for name in self.classes[cls]:
            if name == "pos":
                attrs.append([name, ["r", self.new_tuple()]])
            else:
                attrs.append([name, self.child_value(depth, avoid_frozen=r.random() < 0.9)])
        if r.random() < 0.2:
            attrs.append([r.choice(MODEL_EXTRA), ["c", r.randint(1, 9)] if r.random() < 0.7 else self.leafval()])
        self.emit(["new", "model", cls, attrs, 0])
        return len(self.m.objs) - 1

    def rival_class(self):
        """a class whose name some composed model's class also carries, with another constructor (None: no such class)"""
        used = {ob.cls for ob in self.m.objs if ob.kind == "model"}
        names = self.m.names
        cands = [c for c in range(len(self.classes)) if c not in used and any(
            names[u] == names[c] and self.classes[u] != self.classes[c] for u in used)]
        cands += [c for c in range(len(self.classes)) if c not in used and any(
            self.m.bases[c] == u or self.m.bases[u] == c for u in used)]
        return self.rng.choice(cands) if cands else None

    def new_object(self, depth):
        r = self.rng
        if r.random() < 0.6:
            self.new_model(r.choice([0, 0, 1, 2, 3]), depth)
        else:
            n = r.randint(1, 3)
            if r.random() < 0.3:
                attrs = [[str(i), self.child_value(depth, False)] for i in range(n)]
                self.emit(["new", "coll", None, attrs, n])
            else:
                keys = r.sample(COLL_KEYS, n)
                attrs = [[k, self.child_value(depth, False)] for k in keys]
                self.emit(["new", "coll", None, attrs, 0])
        return len(self.m.objs) - 1

    def vector(self, o):
        r = self.rng
        pids = [l[1] for _, l in self.m.ordered(o)]
        vec = []
        for p in pids:
            lo, hi = self.m.limits[p]
            vec.append(r.randint(lo, hi) if r.random() < 0.93 else r.choice([lo - 1, hi + 1]))
        x = r.random()
        if x < 0.08:
            vec = vec[:-1] if vec else [1]
        elif x < 0.14:
            vec = vec + [1]
        return vec

    def query(self, o):
        k = self.rng.choice(["count", "count", "paths", "ordered", "instance", "instance", "info", "models", "unit", "allpaths",
                             "raw", "raw", "raw"])
        if k == "raw":
            return ["query", o, self.raw_query()]
        if k in ("instance", "unit") and self.m.loops(o) and self.rng.random() < 0.8:
            k = "count"
        if k == "unit":
            n = self.m.count(o)
            qs = [self.rng.randint(0, 4) for _ in range(n)]
            if self.rng.random() < 0.1:
                qs = qs[:-1] if qs and self.rng.random() < 0.5 else qs + [2]
            return ["query", o, [k, qs]]
        if k == "models":
            # a class with subclasses is not used as the filter (the model compares classes by identity)
            return ["query", o, [k, self.rng.choice([None, None] + [c for c in range(len(self.classes)) if not self.m.has_subclass(c)]),
                                 self.rng.random() < 0.4]]
        return ["query", o, [k, self.vector(o)] if k == "instance" else [k]]

    def raw_query(self):
        r = self.rng
        what = r.choice(["pit", "pit", "pit", "attr", "unique", "direct", "mtt"])
        if what == "pit":
            return ["raw", "pit", r.choice(["prior", "prior", "prior", "tuple", "param"])]
        if what == "direct":
            return ["raw", "direct", r.choice(["prior", "float", "tuple", "pm"])]
        if what == "mtt":
            return ["raw", "mtt", r.choice([None, None] + [c for c in range(len(self.classes)) if not self.m.has_subclass(c)]),
                    r.random() < 0.4]
        return ["raw", what]

    def allowed_mod(self, t):
        """clean histories never modify anything that sits under a frozen object"""
        if self.dirty:
            return True
        tob = self.m.objs[t]
        if self.m.frozen_ancestors(t):
            return False
        return True

    def random_op(self):
        r, m = self.rng, self.m
        pms = self.pms()
        x = r.random()
        if self.alias and r.random() < 0.15:
            o = r.choice([i for i in pms if m.objs[i].frozen] or pms)
            rq = self.raw_query()
            self.emit(["scramble", o, rq])
            return ["query", o, rq] if r.random() < 0.5 else self.query(o)
        if x < 0.40:
            return self.query(r.choice(pms))
        if x < 0.52:
            return ["freeze", r.choice(pms)]
        if x < 0.61:
            cands = pms if self.dirty else [i for i in pms if not m.frozen_ancestors(i)]
            return ["unfreeze", r.choice(cands)] if cands else None
        if x < 0.78:                                  # setattr
            o = r.choice(range(len(m.objs)))
            ob = m.objs[o]
            if ob.kind == "tuple":
                if not self.allowed_mod(o):
                    return None
                return ["set", o, "pos_%d" % r.randint(0, 3), self.leafval()]
            if ob.kind == "model" and "pos" in self.classes[ob.cls] and r.random() < 0.5:
                name = r.choice(["pos_%d" % r.randint(0, 2)] * 4 + ["pos_0_1", "w_1"])
                t = m.set_target(o, name)
                if not ob.frozen and not self.allowed_mod(t):
                    return None
                return ["set", o, name, self.leafval()]
            if not ob.frozen and not self.allowed_mod(o):
                return None
            names = (self.classes[ob.cls] + MODEL_EXTRA) if ob.kind == "model" else COLL_KEYS
            name = r.choice([n for n in names if n != "pos"] or names)
            if ob.kind == "coll" and r.random() < (0.7 if self.ids else 0.4):
                if self.ids and ob.attrs and r.random() < 0.7:
                    name = r.choice(ob.attrs)[0]            # existing key: the id of the old value is transferred
                old = ob.get(name)
                x = r.random()
                if x < 0.25:
                    cands = [i for i in pms if o not in m.reach(i) and m.depth(i) + self.height_above(o) <= 5]
                    v = ["r", r.choice(cands)] if cands else self.leafval()
                else:
                    v = self.leafval()
                    if self.ids and self.next_prior > 1 and r.random() < 0.6:
                        v = ["p", self.order[r.randrange(self.next_prior)]]      # a prior other models already hold
                return ["setitem", o, name, v]
            if r.random() < 0.03 and ob.kind != "tuple":
                return ["set", o, name, ["r", o]]              # self-reference: exercises the recursion guard
            if r.random() < 0.3:
                cands = [i for i in pms if o not in m.reach(i) and m.depth(i) + self.height_above(o) <= 5]
                if cands:
                    return ["set", o, name, ["r", r.choice(cands)]]
            return ["set", o, name, self.leafval()]
        if x < 0.83:                                  # append
            colls = [i for i in pms if m.objs[i].kind == "coll"]
            if not colls:
                return None
            o = r.choice(colls)
            if not m.objs[o].frozen and not self.allowed_mod(o):
                return None
            return ["append", o, self.leafval()]
        if x < 0.87:                                  # delattr
            o = r.choice(range(len(m.objs)))
            ob = m.objs[o]
            if not ob.attrs:
                return None
            if not self.dirty and (self.m.frozen_ancestors(o) or (ob.kind != "tuple" and ob.frozen)):
                return None
            name = r.choice(ob.attrs)[0] if r.random() < 0.9 else "zz"
            digits = [k for k, _ in ob.attrs if k.isdigit()]
            if len(digits) >= 2 and r.random() < 0.5:
                name = r.choice(digits[:-1])           # a middle positional item: item_number must survive a reload
            return ["del", o, name]
        if x < 0.90:
            if len(m.objs) >= 40:
                return None
            # prefer owners of tuple priors: their frozen flag must follow the owner through every restore
            owners = [i for i in pms if any(m.objs[t].kind == "tuple" for t in m.reach(i))]
            o = r.choice(owners) if owners and r.random() < 0.6 else r.choice(pms)
            y = r.random()
            if y < 0.35:
                return ["copy", o]
            if y < 0.6:
                return ["copy", o, "pickle"]
            if y < 0.8 or m.loops(o) or not m.by_name_ok(o):      # the database form names a class by its import path
                return ["restore", o, "shallow"]
            return ["restore", o, "database"]
        if x < 0.93:
            o = r.choice(pms)
            if (not self.dirty and m.derive_would_thaw(o)) or m.loops(o):
                return None
            return ["derive", o]
        if x < 0.96:
            if len(m.objs) < 40:
                rival = self.rival_class()
                if rival is not None and r.random() < 0.6:
                    o = self.new_model(rival, r.randint(0, 1))     # a model of another class of the same name, mid-history
                    if self.m.objs[o].kind == "model" and self.m.objs[o].cls == rival:     # (not refused: no frozen value)
                        self.emit(self.query(o))
                else:
                    self.new_object(r.randint(0, 1))
            return None
        if self.failwalk:
            return ["failwalk", r.choice(pms)]
        return None

    def height_above(self, o):
        """longest chain of containers above o (bounded search)"""
        best = 0
        for i, ob in enumerate(self.m.objs):
            if i != o and any(v[0] == "r" and v[1] == o for _, v in ob.attrs):
                best = max(best, 1 + self.height_above(i))
        return best

    def build(self):
        r = self.rng
        for _ in range(r.randint(1, 3)):
            self.new_object(r.randint(0, 2))
        # several models alive at once whose classes share a name (or a parent) and differ in their constructor
        for _ in range(2):
            rival = self.rival_class()
            if rival is not None and r.random() < 0.7:
                self.new_model(rival, r.randint(0, 1))
        # make sure a root collection over several live models exists in most cases
        if r.random() < 0.7 and len(self.pms()) >= 2:
            kids = r.sample(self.pms(), min(len(self.pms()), r.randint(1, 3)))
            kids = [k for k in kids if self.m.depth(k) <= 3]
            if kids:
                self.emit(["new", "coll", None, [[COLL_KEYS[i], ["r", k]] for i, k in enumerate(kids)], 0])
        guard = 0
        while len(self.case["ops"]) < self.max_ops and guard < 400:
            guard += 1
            op = self.random_op()
            if op is not None:
                self.emit(op)
        # always finish with queries on every root so that late staleness is observed
        roots = [i for i in self.pms() if self.height_above(i) == 0][:4]
        for o in roots:
            self.emit(["query", o, ["count"]])
            self.emit(self.query(o))
        return self.case


def scenario_cases():
    """Hand-written histories: one per mechanism (always run first)."""
    P = lambda i: ["p", i]
    pri = [[p, 0, 8] for p in range(NPRIORS)]
    base = lambda ops, classes=CLASSES, names=None, bases=None: {
        "classes": classes, "class_names": names or ["K%d" % i for i in range(len(classes))],
        "bases": bases or [None] * len(classes), "priors": pri, "ops": ops}
    leafm = lambda a, b: ["new", "model", 0, [["a", P(a)], ["b", P(b)]], 0]
    qs = lambda o: [["query", o, ["count"]], ["query", o, ["paths"]], ["query", o, ["ordered"]], ["query", o, ["info"]],
                    ["query", o, ["models", None, False]], ["query", o, ["models", 0, True]]]
    out = []
    # freeze / query / unfreeze / modify / query
    out.append(base([leafm(0, 1), ["new", "coll", None, [["m", ["r", 0]], ["k", ["c", 3]]], 0], ["freeze", 1]] + qs(1) +
                    [["set", 0, "e", P(2)], ["set", 1, "n", P(3)], ["append", 1, P(4)], ["unfreeze", 1],
                     ["set", 0, "e", P(2)], ["append", 1, P(4)]] + qs(1) + [["query", 1, ["instance", [1, 2, 3, 4]]],
                     ["freeze", 1]] + qs(1) + [["query", 1, ["instance", [1, 2, 3]]], ["query", 1, ["instance", [1, 2, 3, 11]]]]))
    # failing call poisons the recursion cache
    out.append(base([leafm(0, 1), leafm(2, 3), leafm(4, 5),
                     ["new", "coll", None, [["m", ["r", 0]], ["n", ["r", 1]], ["k", ["r", 2]]], 0],
                     ["query", 3, ["count"]], ["failwalk", 1], ["query", 1, ["count"]], ["query", 3, ["count"]],
                     ["query", 3, ["paths"]], ["query", 3, ["instance", [1, 2]]], ["query", 3, ["info"]]]))
    # poisoned while frozen: cached answers survive, new ones do not
    out.append(base([leafm(0, 1), ["new", "coll", None, [["m", ["r", 0]]], 0], ["freeze", 1], ["query", 1, ["count"]],
                     ["failwalk", 0], ["query", 1, ["count"]], ["query", 1, ["paths"]], ["query", 0, ["count"]],
                     ["unfreeze", 1], ["query", 1, ["count"]]]))
    # child shared by two parents, unfrozen through the other parent
    out.append(base([leafm(0, 1), ["new", "coll", None, [["m", ["r", 0]]], 0], ["new", "coll", None, [["m", ["r", 0]], ["n", P(2)]], 0],
                     ["freeze", 1], ["freeze", 2], ["query", 1, ["count"]], ["unfreeze", 2], ["set", 0, "e", P(3)],
                     ["query", 1, ["count"]], ["query", 1, ["paths"]], ["query", 2, ["count"]], ["copy", 1], ["query", 3, ["count"]]]))
    # child unfrozen directly under a frozen parent
    out.append(base([leafm(0, 1), ["new", "coll", None, [["m", ["r", 0]]], 0], ["freeze", 1], ["query", 1, ["count"]],
                     ["unfreeze", 0], ["set", 0, "a", ["c", 4]], ["query", 1, ["count"]], ["query", 1, ["instance", [5]]],
                     ["query", 1, ["instance", [5, 6]]]]))
    # tuple prior bypass
    out.append(base([["new", "tuple", None, [["pos_0", P(0)], ["pos_1", ["c", 2]]], 0],
                     ["new", "model", 2, [["pos", ["r", 0]], ["w", P(1)]], 0], ["query", 1, ["count"]], ["query", 1, ["instance", [3, 4]]],
                     ["set", 1, "pos_1", P(2)], ["query", 1, ["instance", [3, 4, 5]]], ["freeze", 1], ["query", 1, ["count"]],
                     ["set", 1, "pos_0", ["c", 1]], ["set", 0, "pos_0", ["c", 1]], ["query", 1, ["count"]], ["query", 1, ["paths"]],
                     ["query", 1, ["info"]]]))
    # delattr on a frozen model
    out.append(base([leafm(0, 1), ["freeze", 0], ["query", 0, ["count"]], ["del", 0, "a"], ["query", 0, ["count"]],
                     ["query", 0, ["instance", [1]]], ["query", 0, ["instance", [1, 2]]], ["unfreeze", 0], ["query", 0, ["count"]],
                     ["query", 0, ["instance", [1]]]]))
    # copies: frozen flag kept, cache dropped, later changes of the original invisible
    out.append(base([leafm(0, 1), ["new", "coll", None, [["0", ["r", 0]], ["1", ["r", 0]]], 2], ["freeze", 1], ["query", 1, ["count"]],
                     ["copy", 1], ["query", 2, ["count"]], ["query", 2, ["paths"]], ["unfreeze", 1], ["append", 1, P(5)],
                     ["query", 1, ["count"]], ["query", 2, ["count"]], ["append", 2, P(6)], ["unfreeze", 2], ["append", 2, P(6)],
                     ["query", 2, ["info"]], ["query", 1, ["info"]]]))
    # assigning a frozen model to an unfrozen Model / building a Model around it
    out.append(base([leafm(0, 1), ["freeze", 0], ["new", "model", 3, [["x", ["r", 0]]], 0], leafm(2, 3), ["set", 1, "a", ["r", 0]],
                     ["new", "coll", None, [["m", ["r", 0]]], 0], ["query", 2, ["count"]], ["query", 1, ["count"]]]))
    # include_zero_dimension only differs in a kwarg of the cache key: frozen root over a constant-only model
    out.append(base([["new", "model", 0, [["a", ["c", 1]], ["b", ["c", 2]]], 0], leafm(0, 1),
                     ["new", "coll", None, [["m", ["r", 0]], ["n", ["r", 1]]], 0], ["freeze", 2],
                     ["query", 2, ["models", None, False]], ["query", 2, ["models", None, True]], ["query", 2, ["models", 0, False]],
                     ["query", 2, ["models", 0, True]], ["query", 2, ["unit", [0, 4]]], ["query", 2, ["allpaths"]]]))
    # item assignment over an existing key: ids of shared priors are rewritten
    out.append(base([["new", "coll", None, [["m", P(0)], ["n", P(3)], ["k", P(1)]], 0], ["query", 0, ["count"]], leafm(4, 5), leafm(6, 7),
                     ["new", "coll", None, [["m", ["r", 1]], ["n", ["r", 2]]], 0], ["setitem", 3, "m", P(3)], ["setitem", 3, "n", P(0)],
                     ["query", 0, ["ordered"]], ["query", 0, ["count"]], ["query", 0, ["allpaths"]], ["query", 0, ["unit", [1, 2, 3]]],
                     ["copy", 0], ["query", 4, ["ordered"]], ["setitem", 3, "q", P(8)], ["setitem", 3, "q", ["c", 3]],
                     ["freeze", 1], ["setitem", 3, "q", ["r", 1]], ["new", "coll", None, [["k", P(9)]], 0], ["setitem", 5, "k", ["r", 1]],
                     ["query", 3, ["count"]]]))
    # prior passing on a frozen collection
    out.append(base([leafm(0, 1), ["new", "coll", None, [["m", ["r", 0]], ["k", P(2)]], 0], ["freeze", 1], ["query", 1, ["count"]],
                     ["derive", 1], ["set", 0, "e", P(3)], ["query", 1, ["count"]], ["query", 1, ["unit", [0, 1, 2]]],
                     ["derive", 0], ["unfreeze", 1], ["derive", 1], ["query", 1, ["count"]]]))
    # restoring a model with tuple priors: the tuple's flag follows its owner (916e580)
    tm = [["new", "tuple", None, [["pos_0", P(0)], ["pos_1", ["c", 2]]], 0], ["new", "model", 2, [["pos", ["r", 0]], ["w", P(1)]], 0],
          ["new", "coll", None, [["m", ["r", 1]], ["k", P(2)]], 0]]
    out.append(base(tm + [["freeze", 2], ["query", 2, ["count"]], ["copy", 2], ["copy", 2, "pickle"], ["restore", 2, "shallow"],
                          ["restore", 2, "database"], ["query", 10, ["count"]], ["set", 11, "pos_1", P(3)], ["set", 12, "pos_1", P(3)],
                          ["query", 10, ["count"]], ["query", 10, ["instance", [1, 2, 3, 4]]], ["set", 5, "pos_1", P(3)], ["unfreeze", 3],
                          ["set", 5, "pos_1", P(3)], ["query", 3, ["count"]], ["freeze", 10], ["set", 12, "pos_0", ["c", 1]],
                          ["restore", 10, "database"], ["query", 13, ["info"]], ["unfreeze", 2], ["restore", 1, "shallow"],
                          ["freeze", 1], ["set", 0, "pos_1", P(4)], ["query", 16, ["count"]], ["query", 6, ["count"]],
                          ["set", 8, "pos_0", ["c", 1]], ["unfreeze", 6], ["set", 8, "pos_0", ["c", 1]], ["query", 6, ["paths"]]]))
    out.append(base(tm + [["restore", 2, "database"], ["copy", 2], ["restore", 1, "shallow"], ["set", 0, "pos_1", P(3)],
                          ["query", 2, ["count"]], ["query", 3, ["count"]], ["query", 6, ["count"]], ["query", 9, ["count"]]]))
    # delete a middle positional item, rebuild from the database form, append: nothing is overwritten (acffd7c)
    out.append(base([["new", "coll", None, [["0", P(0)], ["1", P(1)], ["2", P(2)]], 3], ["del", 0, "1"], ["restore", 0, "database"],
                     ["append", 1, P(3)], ["query", 1, ["paths"]], ["query", 1, ["count"]], ["append", 0, P(4)], ["query", 0, ["paths"]],
                     ["del", 1, "3"], ["del", 1, "2"], ["restore", 1, "database"], ["append", 2, P(5)], ["query", 2, ["paths"]]]))
    # self-reference: the recursion guard truncates the walk at the loop
    out.append(base([["new", "coll", None, [["m", P(0)]], 0], ["set", 0, "q", ["r", 0]], ["set", 0, "n", P(1)], ["query", 0, ["count"]],
                     ["query", 0, ["paths"]], ["query", 0, ["info"]], ["freeze", 0], ["query", 0, ["count"]], ["copy", 0],
                     ["query", 1, ["count"]], ["query", 0, ["models", None, True]], ["unfreeze", 0], ["del", 0, "q"], ["query", 0, ["count"]]]))
    # several models alive at once whose classes are distinct objects of ONE name (a class factory) with different
    # constructors: what each reports depends on its own class only, whichever was composed first, also on frozen
    # copies and after freeze / unfreeze cycles
    narrow = lambda a, b: ["new", "model", 0, [["a", P(a)], ["b", P(b)]], 0]
    wide = lambda a, b, c: ["new", "model", 1, [["a", P(a)], ["b", P(b)], ["c", c]], 0]
    ask = lambda o, vec: [["query", o, ["count"]], ["query", o, ["paths"]], ["query", o, ["instance", vec]], ["query", o, ["info"]],
                          ["query", o, ["unit", [1] * len(vec)]], ["query", o, ["models", None, True]]]
    for names, bases in ((["P", "P", "Q", "P"], None), (["P", "Q", "R", "S"], [None, 0, None, None]), (["P", "P", "P", "P"], [None, 0, None, 1])):
        for first in (0, 1):
            two = [narrow(0, 1), wide(2, 3, ["c", 5])] if first == 0 else [wide(2, 3, ["c", 5]), narrow(0, 1)]
            n, w = (0, 1) if first == 0 else (1, 0)
            out.append(base(two + ask(n, [1, 2]) + ask(w, [3, 4]) +
                            [["new", "coll", None, [["m", ["r", 0]], ["n", ["r", 1]]], 0]] + ask(2, [1, 2, 3, 4]) +
                            [["freeze", 2]] + ask(2, [1, 2, 3, 4]) + [["copy", 2], ["copy", 2, "pickle"], ["restore", w, "shallow"]] +
                            ask(3, [1, 2, 3, 4]) + ask(6, [4, 3, 2, 1]) + [["unfreeze", 2], ["set", w, "c", P(4)], ["set", n, "e", ["c", 7]]] +
                            ask(w, [3, 4, 5]) + ask(n, [1, 2]) + ask(2, [1, 2, 3, 4, 5]) +
                            [["new", "model", 3, [["x", P(6)]], 0], ["derive", 2]] + ask(10, [2]) + ask(w, [3, 4, 5]),
                            classes=[["a", "b"], ["a", "b", "c"], ["pos", "w"], ["x"]], names=names, bases=bases))
    # same name, same arguments in another order / a subset of the arguments / disjoint arguments
    for table in ([["a", "b"], ["b", "a"], ["pos", "w"], ["a"]], [["a", "b", "c"], ["c"], ["w", "pos"], ["b", "x", "a"]]):
        for order in ((0, 1, 3), (3, 1, 0), (1, 3, 0)):
            ops, objs = [], {}
            for c in order:
                ops.append(["new", "model", c, [[nm, P(len(ops) * 3 + j)] for j, nm in enumerate(table[c])], 0])
                objs[c] = len(ops) - 1
            for c in order:
                vec = list(range(1, len(table[c]) + 1))
                ops += ask(objs[c], vec) + [["freeze", objs[c]]] + ask(objs[c], vec)
            out.append(base(ops, classes=table, names=["P", "P", "P", "P"]))
    # every answer after every other query: prior ids out of traversal order, a shared prior, a tuple prior; all queries
    # (incl. the raw return value of each frozen_cache function) unfrozen, frozen (filling the caches), again in reverse
    # and rotated orders (answered from the caches after every other query has run), on a child, on a copy, after unfreeze
    def allq(o, vec, units):
        return [["query", o, q] for q in (
            ["count"], ["raw", "pit", "prior"], ["paths"], ["raw", "pit", "prior"], ["ordered"], ["info"], ["allpaths"],
            ["raw", "pit", "prior"], ["models", None, True], ["models", 0, False], ["unit", units], ["instance", vec],
            ["raw", "pit", "tuple"], ["raw", "pit", "param"], ["raw", "attr"], ["raw", "unique"], ["raw", "direct", "prior"],
            ["raw", "direct", "float"], ["raw", "direct", "tuple"], ["raw", "direct", "pm"], ["raw", "mtt", None, True],
            ["raw", "mtt", 1, False], ["raw", "pit", "prior"])]
    build = [["new", "tuple", None, [["pos_0", P(5)], ["pos_1", ["c", 2]]], 0], ["new", "model", 2, [["pos", ["r", 0]], ["w", P(1)]], 0],
             ["new", "model", 0, [["a", P(4)], ["b", P(0)]], 0], ["new", "model", 1, [["a", P(3)], ["b", P(0)], ["c", ["c", 7]]], 0],
             ["new", "coll", None, [["m", ["r", 2]], ["n", ["r", 1]], ["k", ["r", 3]], ["q", P(2)]], 0]]
    A = allq(4, [1, 2, 3, 4, 5, 6], [0, 1, 2, 3, 4, 2])
    # the caller edits the lists it was handed by a frozen model (reverse, drop one entry) and asks again
    raws = [q[2] for q in A if q[2][0] == "raw"]
    ops = build + [["freeze", 4]]
    for rq in raws[1:]:
        ops += [["query", 4, rq], ["scramble", 4, rq], ["query", 4, rq]]
    ops += A + [["scramble", 2, ["raw", "direct", "prior"]], ["query", 4, ["instance", [1, 2, 3, 4, 5, 6]]], ["query", 2, ["instance", [1, 2]]],
                ["new", "model", 3, [["x", P(7)]], 0]] + A + [["unfreeze", 4], ["scramble", 4, ["raw", "pit", "prior"]]] + A
    out.append(base(ops))
    out.append(base(build + A + [["freeze", 4]] + A + A[::-1] + A[7:] + A[:7] + allq(2, [1, 2], [1, 3]) + allq(3, [1, 2], [4, 0]) +
                    [["copy", 4]] + allq(5, [1, 2, 3, 4, 5, 6], [4, 3, 2, 1, 0, 2]) + A[::-1] + [["unfreeze", 4]] + A))
    return out


def class_shape(rng):
    """class table of a generated history: constructor signatures, names, parents"""
    x = rng.random()
    if x < 0.25:
        return {"classes": CLASSES, "class_names": ["K0", "K1", "K2", "K3"], "bases": [None] * 4}
    classes = [pool[0] if rng.random() < 0.45 else rng.choice(pool) for pool in CLASS_POOL]
    y = rng.random()
    names = ["P"] * 4 if y < 0.4 else [rng.choice(["P", "P", "Q"]) for _ in range(4)] if y < 0.85 else ["K0", "K1", "K2", "K3"]
    bases = [None] * 4
    if rng.random() < 0.3:
        for c in rng.sample([1, 2, 3], rng.choice([1, 1, 2])):
            bases[c] = rng.randrange(c)
    return {"classes": classes, "class_names": names, "bases": bases}


def case_key(c):
    key = {"classes": c["classes"], "priors": c["priors"], "ops": c["ops"]}
    if c.get("class_names") is not None:
        key["class_names"] = c["class_names"]
    if c.get("bases") is not None:
        key["bases"] = c["bases"]
    return key


def gen_cases(ctx):
    thorough = ctx.tier == "thorough"
    n = 6000 if thorough else 420
    cases = [dict(c, origin="scenario") for c in scenario_cases()]
    cdir = os.path.join(common.VERIF, "corpus", "C13")
    if os.path.isdir(cdir):
        for f in sorted(os.listdir(cdir)):
            if f.endswith(".json"):
                c = json.load(open(os.path.join(cdir, f)))
                cases.append(dict(c.get("case", c), origin="corpus", name=f, signature=c.get("signature")))
    for i in range(n):
        x = ctx.rng.random()
        mode = "clean" if x < 0.52 else "stale" if x < 0.75 else "ids" if x < 0.87 else "poison" if x < 0.95 else "alias"
        g = Gen(ctx.rng, mode in ("stale", "poison"), ctx.rng.choice([12, 20, 30, 40] + ([60] if thorough else [])),
                failwalk=(mode == "poison"), ids=(mode == "ids"), shape=class_shape(ctx.rng), alias=(mode == "alias"))
        c = g.build()
        c["origin"] = mode
        cases.append(c)
    return cases


# ---------------------------------------------------------------------------
# oracle
# ---------------------------------------------------------------------------
def norm_answer(q, a):
    if q[0] == "info" and isinstance(a, dict):
        return {"a": a["a"], "n": a["n"], "b": a["b"]}
    return a


def oracle(case, res, limit=6):
    """Direct statement of C13 on the implementation's outcomes.  Returns the list of (message, classes, op index)
    of the operations that violate it (at most `limit`; the replay stops at the first non-query mismatch because
    the compositions then differ).  `classes` come from the reference replay of the history BEFORE the failing
    operation and only as far as they concern the object addressed: a frozen object carries a label while something
    below it has changed since it was frozen (cleared when it is unfrozen, i.e. when its cache is dropped); a query
    on o gets the labels of the frozen objects it reaches, plus `setitem-existing-key` when it holds a prior whose
    id a Collection.__setitem__ overwrote."""
    m = Mirror(case)
    seen = set()
    out = []

    def fail(msg, classes, i):
        out.append((msg, sorted(classes), i))
        return len(out) >= limit

    for i, (op, r) in enumerate(zip(case["ops"], res["outs"])):
        k = op[0]
        flags_before = [ob.frozen for ob in m.objs]
        pre_relevant = m.relevant(op[1]) if k in ("query", "derive") else []
        target = op[1] if k in ("set", "setitem", "append", "del") else None
        if k in ("set", "setitem"):
            target = m.set_target(op[1], op[2])
        target_uncertain = target is not None and (target in m.uncertain or op[1] in m.uncertain)
        if k in ("freeze", "unfreeze"):      # the traversal passes a frozen object whose cached child list is stale
            target_uncertain = any(m.lost.get(f) for f in m.reach(op[1]))
        exp, labels = m.apply(op)
        got = {"exc": r["exc"]} if "exc" in r else {"ok": r.get("ok")}
        if k in ("query", "new") and r.get("ctor") is not None and (k == "query" or (exp is not None and "ok" in exp)):
            ob = m.objs[op[1]] if k == "query" else m.objs[-1]
            if ob.kind != "model" or r["ctor"] != m.classes[ob.cls]:
                if fail("constructor_argument_names of %s is %s but its class takes %s" % (
                        "object %d" % op[1] if k == "query" else "the new model", r["ctor"],
                        m.classes[ob.cls] if ob.kind == "model" else None), [], i):
                    break
        if k == "query":
            classes = pre_relevant
            if "ok" in got:
                if op[2][0] == "info" and not got["ok"].get("render_ok"):
                    if fail("info text is not the rendering of the lists it was built from", [], i):
                        break
                got = {"ok": norm_answer(op[2], got["ok"])}
            if got != exp:
                if fail("%s of object %d is %s but the current composition gives %s" % (
                        op[2][0], op[1], json.dumps(got)[:300], json.dumps(exp)[:300]), classes, i):
                    break
            ws = r.get("with_shadow")
            if ws is not None:
                if "ok" in ws:
                    ws = {"ok": norm_answer(op[2], ws["ok"])}
                if ws != got:
                    if fail("%s of object %d is %s in the plain history but %s when unrelated deep copies were made and thawed "
                            "between the operations" % (op[2][0], op[1], json.dumps(got)[:300], json.dumps(ws)[:300]), classes, i):
                        break
            sh = r.get("shadow", {})
            sh = {"ok": norm_answer(op[2], sh["ok"])} if "ok" in sh else sh
            if sh != exp:
                # a deep copy has no cache: only the rewritten ids can travel with it
                if fail("%s on an unfrozen deep copy of object %d is %s but the composition gives %s" % (
                        op[2][0], op[1], json.dumps(sh)[:300], json.dumps(exp)[:300]),
                        [c for c in classes if c == "setitem-existing-key"], i):
                    break
        elif k == "failwalk":
            if "exc" not in got:
                fail("the failing call did not fail", [], i)
                break
        elif k == "derive" and exp is None:
            pass
        elif k == "derive":
            if got != exp:
                fail("derive on object %d: outcome %s, expected %s" % (op[1], got, exp), pre_relevant, i)
                break
            if r.get("flags") is not None and r["flags"] != flags_before:
                changed = [t for t, (a, b) in enumerate(zip(r["flags"], flags_before)) if a != b]
                if fail("mapper_from_prior_arguments changed the frozen flag of objects %s" % changed,
                        [l for l in labels if l == "derive-thaws-frozen"] +
                        (["delattr-on-frozen"] if set(changed) & m.uncertain else []), i):
                    break
            if r.get("flags") is not None and r["flags"] != [ob.frozen for ob in m.objs] and not (set(range(len(m.objs))) & m.uncertain):
                fail("frozen flags after derive differ from the reference", [], i)
                break
        else:
            # frozen flags of the implementation can differ from the reference only for objects that a freeze
            # reached through the stale child list of a frozen object that lost an attribute (m.uncertain)
            classes = ["delattr-on-frozen"] if target_uncertain else []
            if ("exc" in exp) != ("exc" in got) or ("exc" in exp and exp["exc"] != got["exc"]):
                what = "a frozen object accepted a modification" if "rejected" in labels and "exc" not in got else \
                    "%s on object %d: outcome %s, expected %s" % (k, op[1] if k != "new" else -1, got, exp)
                fail(what, classes, i)
                break
            if k == "new" and "ok" in got and r.get("attrs") != m.objs[-1].attrs:
                fail("constructed object has attributes %s, expected %s" % (r.get("attrs"), m.objs[-1].attrs),
                     ["setitem-existing-key"] if any(v[0] == "p" and v[1] in m.rewritten for _, v in m.objs[-1].attrs) else [], i)
                break
            if k in ("copy", "restore"):
                new = r.get("new", [])
                mine = m.objs[len(m.objs) - len(new):]
                if len(new) != len(m.objs) - m.copy_base:
                    fail("copy has %d objects, expected %d" % (len(new), len(m.objs) - m.copy_base), [], i)
                    break
                stop = False
                for a, b in zip(new, mine):
                    if a["kind"] != b.kind or a["attrs"] != b.attrs:
                        stop = fail("copy differs from the original composition",
                                    ["setitem-existing-key"] if "setitem-existing-key" in m.relevant(op[1]) else [], i)
                        break
                    if not a["cache_empty"]:
                        stop = fail("copy carries a cache", [], i)
                        break
                    if a["frozen"] != b.frozen:
                        stop = fail("restored object %s: frozen flag %s, the reference (tuple prior = its owner, database form unfrozen) says %s"
                                    % (b.kind, a["frozen"], b.frozen),
                                    ["delattr-on-frozen"] if m.reach(op[1]) & m.uncertain else [], i)
                        break
                if stop:
                    break
                if r.get("flags") is not None and not m.uncertain and r["flags"] != [ob.frozen for ob in m.objs]:
                    fail("frozen flags after %s differ from the reference: %s vs %s" % (k, r["flags"], [ob.frozen for ob in m.objs]), [], i)
                    break
        seen.update(l for l in labels if l != "rejected")
    else:
        comp = [ob.attrs for ob in m.objs]
        if res["comp"] != comp:
            fail("final composition differs from the reference composition",
                 ["setitem-existing-key"] if m.rewritten else [], len(case["ops"]))
        flags = [(a, b.frozen) for t, (a, b) in enumerate(zip(res["frozen"], m.objs)) if t not in m.uncertain]
        if any(a != b for a, b in flags):
            fail("final frozen flags %s differ from the reference %s" % (res["frozen"], [ob.frozen for ob in m.objs]), [], len(case["ops"]))
        if res.get("stale_recursion_entries"):
            fail("recursion cache not empty at the end of the history", [], len(case["ops"]))
    return out


def case_labels(case):
    m = Mirror(case)
    seen = set()
    for op in case["ops"]:
        seen.update(l for l in m.apply(op)[1] if l != "rejected")
    return seen


def nontrivial(case):
    """a query that comes after a freeze and after a later history-relevant operation"""
    froze = changed = False
    for op in case["ops"]:
        k = op[0]
        if k == "freeze":
            froze = True
        elif froze and k in ("set", "setitem", "append", "del", "unfreeze", "copy", "restore", "failwalk", "derive", "scramble"):
            changed = True
        elif k == "query" and froze and changed:
            return True
    return False


def rival_pairs(case):
    """pairs of classes BOTH composed in the history that share a name (or are parent and child) and differ in
    their constructor -- the shape in which a per-class answer could leak from one class to another"""
    m = Mirror(case)
    used = []
    for op in case["ops"]:
        if op[0] == "new" and op[1] == "model" and op[2] not in used:
            used.append(op[2])
    return [(u, v) for i, u in enumerate(used) for v in used[i + 1:]
            if m.classes[u] != m.classes[v] and (m.names[u] == m.names[v] or m.bases[u] == v or m.bases[v] == u)]


def class_table_kind(case):
    m = Mirror(case)
    kind = "default-table" if case["classes"] == CLASSES else "varied-table"
    if len(set(m.names)) < len(m.names):
        kind += "+shared-names"
    if any(b is not None for b in m.bases):
        kind += "+subclass"
    return kind + ("+rivals-composed" if rival_pairs(case) else "")


# ---------------------------------------------------------------------------
# Coq printing
# ---------------------------------------------------------------------------
def cs(s):
    return common.cstr(s)


def cval(v):
    t, x = v
    return "VPrior %d" % x if t == "p" else "VConst (%d)%%Z" % x if t == "c" else "VRef %d" % x


def cleaf(l):
    t, x = l
    if t == "p" and x >= 0:
        return "LPrior %d" % x
    if t == "c":
        return "LConst (%d)%%Z" % x
    if t == "r":
        return "LObj %d" % x
    return "LObj 4999"


def clist(xs):
    return "[" + "; ".join(xs) + "]"


def cpath(p):
    return clist([cs(x) for x in p])


def citems(l):
    return clist(["(%s, %s)" % (cpath(p), cleaf(x)) for p, x in l])


def cinst(i):
    if "v" in i:
        return "IVal (%d)%%Z" % i["v"]
    if "t" in i:
        return "ITup %s" % clist(["(%d)%%Z" % x for x in i["t"]])
    if "o" in i:
        return "IObj %s" % clist(["(%s, %s)" % (cs(k), cinst(v)) for k, v in i["o"]])
    return "IRaw"


EXN = {"RecursionError": "EOther", "TypeError": "ETypeError", "AssertionError": "EAssertion", "PriorLimitException": "ELimit",
       "KeyError": "EKeyError", "AttributeError": "EAttribute"}


def coutcome(op, r):
    if "exc" in r:
        return "Exn %s" % EXN.get(r["exc"], "EOther")
    if op[0] != "query":
        return "Ok AUnit"
    a, k = r["ok"], op[2][0]
    if k == "count":
        return "Ok (ANat %d)" % a
    if k in ("paths", "ordered", "models", "raw"):
        return "Ok (AItems %s)" % citems(a)
    if k in ("instance", "unit"):
        return "Ok (AInst (%s))" % cinst(a)
    if k == "allpaths":
        return "Ok (AGroups %s)" % clist([clist([cpath(p) for p in g]) for g in a])
    ents = clist(["(%s, %s, %d%%nat)" % (cpath(p), "None" if c is None else "Some %d%%nat" % c, n) for p, c, n in a["b"]])
    return "Ok (AInfo %s %d %s)" % (citems(a["a"]), a["n"], ents)


def craw(q):
    what = q[1]
    if what == "pit":
        return {"prior": "(KPit SPrior 0)", "tuple": "(KPit STuple 0)", "param": "(KPit SParam 2)"}[q[2]]
    if what == "attr":
        return "(KAttr SPrior 0)"
    if what == "unique":
        return "KUnique"
    if what == "direct":
        return "(KDirect %s)" % {"prior": "DPrior", "float": "DFloat", "tuple": "DTuple", "pm": "DPriorModel"}[q[2]]
    if what == "mtt":
        return "(KMtt %s %s)" % ("None" if q[2] is None else "(Some %d)" % q[2], "true" if q[3] else "false")
    raise ValueError(q)


def cop(op):
    k = op[0]
    if k == "new":
        _, kind, cls, attrs, nitems = op
        kd = "(KModel %d)" % cls if kind == "model" else "KColl" if kind == "coll" else "KTuple"
        return "ONew %s %s %d" % (kd, clist(["(%s, %s)" % (cs(n), cval(v)) for n, v in attrs]), nitems)
    if k == "query":
        q = op[2]
        qq = {"count": "QCount", "paths": "QPaths", "ordered": "QOrdered", "info": "QInfo"}.get(q[0])
        if q[0] == "instance":
            qq = "(QInstance %s)" % clist(["(%d)%%Z" % x for x in q[1]])
        if q[0] == "unit":
            qq = "(QUnit %s)" % clist(["(%d)%%Z" % x for x in q[1]])
        if q[0] == "allpaths":
            qq = "QAllPaths"
        if q[0] == "raw":
            qq = "(QRaw %s)" % craw(q)
        if q[0] == "models":
            qq = "(QModels %s %s)" % ("None" if q[1] is None else "(Some %d)" % q[1], "true" if q[2] else "false")
        return "OQuery %d %s" % (op[1], qq)
    if k == "freeze":
        return "OFreeze %d" % op[1]
    if k == "unfreeze":
        return "OUnfreeze %d" % op[1]
    if k == "set":
        return "OSet %d %s (%s)" % (op[1], cs(op[2]), cval(op[3]))
    if k == "setitem":
        return "OSetItem %d %s (%s)" % (op[1], cs(str(op[2])), cval(op[3]))
    if k == "derive":
        return "ODerive %d" % op[1]
    if k == "append":
        return "OAppend %d (%s)" % (op[1], cval(op[2]))
    if k == "del":
        return "ODel %d %s" % (op[1], cs(op[2]))
    if k == "copy":
        return "OCopy %d" % op[1]
    if k == "restore":
        return "ORestore %d %s" % (op[1], "RShallow" if op[2] == "shallow" else "RDatabase")
    if k == "failwalk":
        return "OFailWalk %d" % op[1]
    raise ValueError(op)


def has_scramble(case):
    """histories in which the CALLER edits a returned list have no counterpart in the model (lists are values there)"""
    return any(op[0] == "scramble" for op in case["ops"])


def coq_case(case, res):
    cl = clist([clist([cs(n) for n in names]) for names in case["classes"]])
    pr = clist(["(%d%%nat, ((%d)%%Z, (%d)%%Z))" % (p, lo, hi) for p, lo, hi in case["priors"]])
    ops = clist([cop(op) for op in case["ops"]])
    outs = clist([coutcome(op, r) for op, r in zip(case["ops"], res["outs"])])
    fz = clist(["true" if b else "false" for b in res["frozen"]])
    return "Case %s %s\n   %s\n   %s\n   %s" % (cl, pr, ops, outs, fz)


def coq_ccase(case, res):
    """the lookups of the process-wide constructor-argument memo made by the history, in order, with what the model
    reported (ClassArgs.v): one per composed Model (its class) and one per query addressed to a Model"""
    m = Mirror(case)
    h = []
    for op, r in zip(case["ops"], res["outs"]):
        cls = None
        if op[0] == "new" and op[1] == "model":
            cls = op[2]
        elif op[0] == "query" and op[1] < len(m.objs) and m.objs[op[1]].kind == "model":
            cls = m.objs[op[1]].cls
        try:
            m.apply(op)
        except Exception:  # noqa  (the reference cannot follow: the oracle has reported the history)
            break
        if cls is not None:
            obs = r.get("ctor")
            h.append("(%d, %s)" % (cls, "None" if obs is None else "Some %s" % clist([cs(x) for x in obs])))
    cl = clist([clist([cs(n) for n in names]) for names in case["classes"]])
    return "CCase %s %s" % (cl, clist(h))


HEADER = """From Coq Require Import ZArith List String Bool.
Import ListNotations.
From PAFC13 Require Import Model.
Open Scope string_scope. Open Scope list_scope."""


# ---------------------------------------------------------------------------
# run
# ---------------------------------------------------------------------------
def run(ctx):
    ctx.rule = ("a case is an operation history (new / query[count, paths, ordered ids, instance for a vector, instance for a unit "
                "vector, all_paths, info, models_with_type] / freeze / unfreeze / setattr (incl. self-reference) / Collection.__setitem__ "
                "(new and existing keys) / append / delattr / deepcopy and pickle round trip / prior passing (mapper_from_prior_arguments) / "
                "failing walk call / the exact return value of each of the seven frozen_cache functions (query raw) / a caller editing a "
                "returned list (scramble)) over a heap of Model, Collection and TuplePrior objects with shared children and several roots; "
                "the four component classes of a history get their constructor signatures from a pool, may share one __name__/__qualname__/"
                "__module__ (distinct class objects, as from a class factory) and may derive from each other; prior ids are handed out in "
                "an order different from the traversal order; the compared replay contains the history and nothing else (the shadow deep "
                "copies run in a second replay, because copying / thawing advances the modification counter); modes: "
                "'alias' (the caller reverses / shortens lists a frozen model returned; oracle only, known finding "
                "returned-list-edited-by-caller until proposed_fixes/C13-frozen-cache-returns-copy is applied), "
                "'clean' (nothing is attempted below a frozen object), 'stale' (modifications, deletions, tuple members and thawed "
                "components below frozen ancestors), 'ids' (item assignment of shared priors over existing keys), 'poison' (failing "
                "calls); since 29fc8b9 no mode has a finding label and every history is checked against the full theorem; a case is "
                "non-trivial when some query comes after a freeze and after a later set/setitem/append/del/unfreeze/copy/derive/failing call; "
                "distinct = distinct abstract history")
    ctx.trusted = [
        "Coq 8.16.1 kernel incl. vm_compute",
        "correspondence harness harness/vcheck/c13.py + harness/impl/c13_impl.py (abstraction of live objects to (kind, public __dict__) "
        "and of answers to paths / current prior ids / instance trees / the lists model.info is rendered from; the driver fixes "
        "Prior.id = index and ModelObject.id = 1000 + object number so that id transfers are comparable)",
        "modelled, not verified: CPython dict order, attribute lookup, copy.deepcopy / pickle, id(); TextFormatter/find_groups rendering of "
        "model.info is checked to be a function of the compared lists by re-rendering in the driver",
    ]
    ctx.assumptions = [
        "classes are abstract identities (index of the class table): two classes of one name are two classes; the process-wide "
        "constructor-argument memo is modelled separately (ClassArgs.v) and compared through constructor_argument_names observed at "
        "every composed Model and every query on a Model; class names are private to a history (suffix), so reuse of names or of "
        "id(cls) ACROSS histories of one driver process is exercised but not replayable; the database form names classes by import "
        "path and is not generated for models of a class whose name an earlier class of the history carries; a class with subclasses "
        "is not used as the models_with_type filter",
        "the walk is modelled with fuel 12 (object graphs deeper than 12 are outside the model; generated graphs have depth <= 6; "
        "C13_freeze_reaches_descendants carries the success of freeze as a hypothesis); only direct self-references are generated as cycles",
        "Python object identity is an abstract object id; reuse of id() values after garbage collection is not modelled "
        "(the driver keeps every object alive and clears the recursion cache between histories)",
        "all seven frozen_cache functions are exercised; uniform priors with integer limits whose width is a multiple of 4 and units k/4 "
        "(exact arithmetic); assertions, Collection.remove, take_attributes, __add__, list/dict/int valued attributes are not generated",
        "the reference (Mirror) treats prior ids as immutable, frozen flags as untouched by prior passing, TuplePriors as frozen with "
        "their owner and deletions as guarded; the six places where the code once did otherwise are repaired and pinned in corpus/C13",
    ]
    built = ctx.build()
    cases = gen_cases(ctx)
    if ctx.replay:
        rp = json.load(open(ctx.replay))
        if rp.get("case"):
            cases = [rp["case"]]
    payload = [case_key(c) for c in cases]
    chunks = [payload[i::common.NCPU] for i in range(common.NCPU)]
    chunks = [(i, ch) for i, ch in enumerate(chunks) if ch]
    outs = common.run_impl_parallel("c13_impl", [{"cases": ch} for _, ch in chunks], timeout=1500)
    results = [None] * len(cases)
    for (i, ch), o in zip(chunks, outs):
        if "__error__" in o:
            ctx.obligation("impl-driver", "harness", False, o["__error__"][-800:])
            return
        for j, r in enumerate(o["results"]):
            results[i + j * common.NCPU] = r
    coq_cases, coq_idx, ccases = [], [], []
    regress = []
    for i, (c, r) in enumerate(zip(cases, results)):
        key = case_key(c)
        ctx.count_case(key, nontrivial(c), c.get("origin"))
        ctx.hist("class-table", class_table_kind(c))
        ctx.hist("ops", (len(c["ops"]) // 10) * 10)
        for op in c["ops"]:
            ctx.hist("op", op[0] if op[0] != "query" else "query:" + op[2][0])
        ctx.oracle["cases"] += 1
        if "driver_error" in r:
            if c.get("origin") == "corpus":
                regress.append("%s: driver error" % c.get("name"))
            ctx.oracle["failures"] += 1
            ctx.failure("oracle", "driver error: " + r["driver_error"][-400:], key)
            continue
        for rec in r["outs"]:
            ctx.hist("outcome", rec.get("exc", "ok"))
        ctx.hist("objects", min(len(r["frozen"]) // 5 * 5, 40))
        for msg, classes, at in oracle(c, r):
            if c.get("origin") == "corpus":
                regress.append("%s: op %d: %s" % (c.get("name", "corpus"), at, msg[:160]))
            ctx.oracle["failures"] += 1
            ctx.hist("oracle-failure-class", ",".join(classes) or "none")
            ctx.failure("oracle", "op %d: %s" % (at, msg), key, classes=classes,
                        impl={"outs": [{k: v for k, v in rec.items() if k != "shadow"} for rec in r["outs"][max(0, at - 3):at + 1]]})
        if has_scramble(c):
            ctx.hist("oracle-only", "caller-edits-returned-list")
            continue
        coq_cases.append(coq_case(c, r))
        ccases.append(coq_ccase(c, r))
        coq_idx.append(i)
        if i % 53 == 0:
            ctx.sample({"ops": c["ops"][:14], "origin": c.get("origin")}, limit=6)
    if not ctx.replay:
        # one obligation per repaired finding: its pinned history must answer like the reference
        pinned = {}
        for c in cases:
            if c.get("origin") == "corpus":
                pinned.setdefault(c.get("signature") or c.get("name"), []).append(c.get("name"))
        for sig in sorted(pinned):
            bad_here = [m for m in regress if m.split(":")[0] in pinned[sig]]
            ctx.obligation("regression:" + sig, "regression", not bad_here,
                           "; ".join(bad_here) if bad_here else "pinned history %s answers like the reference" % ", ".join(pinned[sig]))
        ctx.obligation("regression:all-pinned", "regression", len(pinned) >= 8, "%d pinned former findings" % len(pinned))
    if os.path.exists(os.path.join(common.COQ, "C13", "Model.vo")):
        bad, log = ctx.eval_cases(HEADER, "case", "check_case", coq_cases, shard=40 if ctx.tier == "quick" else 120)
        for b in (bad or [])[:5]:
            i = coq_idx[b]
            key = case_key(cases[i])
            ctx.failure("correspondence", "model and implementation disagree on a history (origin %s)" % cases[i].get("origin"),
                        key, impl={"outs": [{k: v for k, v in rec.items() if k not in ("shadow",)} for rec in results[i]["outs"]],
                                   "frozen": results[i]["frozen"]},
                        broken={"kind": "correspondence", "name": "C13.check_case"},
                        found_input=bool(oracle(cases[i], results[i])))
        # hypothesis of C13_coherent_partial, decided inside Coq (guardedb, sound by C13_guard_checkable) on every
        # history without a finding label; on those the model must also answer every query like the fresh composition
        if os.path.exists(os.path.join(common.COQ, "C13", "Proofs3.vo")):
            free = [j for j, i in enumerate(coq_idx) if not case_labels(cases[i])]
            badg, log = ctx.eval_cases(HEADER + "\nFrom PAFC13 Require Import Proofs3.", "case", "check_guard",
                                       [coq_cases[j] for j in free], tag="guard", shard=40 if ctx.tier == "quick" else 120)
            ctx.notes["histories_satisfying_theorem_guard"] = len(free) - len(badg or [])
            ctx.notes["histories_with_finding_labels"] = len(coq_idx) - len(free)
            for b in (badg or [])[:3]:
                i = coq_idx[free[b]]
                ctx.failure("correspondence", "a history without finding labels does not satisfy the guard of C13_coherent_partial "
                            "(or the model's answers differ from the fresh composition)",
                            case_key(cases[i]),
                            broken={"kind": "correspondence", "name": "C13.check_guard"}, found_input=False)
        if os.path.exists(os.path.join(common.COQ, "C13", "ClassArgs.vo")):
            badc, log = ctx.eval_cases(HEADER + "\nFrom PAFC13 Require Import ClassArgs.", "ccase", "check_ccase", ccases,
                                       tag="classargs", shard=150 if ctx.tier == "quick" else 600)
            for b in (badc or [])[:3]:
                i = coq_idx[b]
                ctx.failure("correspondence", "constructor_argument_names reported along the history differ from the memo keyed by the class "
                            "(ClassArgs.class_args_run)", case_key(cases[i]),
                            impl={"ctor": [rec.get("ctor") for rec in results[i]["outs"]]},
                            broken={"kind": "correspondence", "name": "C13.check_ccase"},
                            found_input=bool(oracle(cases[i], results[i])))
        else:
            ctx.obligation("correspondence:classargs", "correspondence", False, "ClassArgs.vo not built")
    else:
        ctx.obligation("correspondence:cases", "correspondence", False, "Model.vo not built")


MANIFEST = {
    "text": "Coq 8.16 theorems over an executable heap model of Model/Collection/TuplePrior objects with frozen_cache (incl. the "
            "modification counter), assert_not_frozen on setattr/delattr/append/setitem/remove, recursive freeze/unfreeze reaching "
            "tuple priors, deepcopy, prior passing, item assignment and the process-wide recursion cache: for the code as it is, "
            "every query of EVERY history -- including the raw return value, in its own order, of each of the seven frozen_cache "
            "functions (QRaw) -- equals the uncached query on the current composition (C13_coherent_full, no guard); the process-wide "
            "constructor-argument memo keyed by the class object has no history effects, a key is sound iff it separates classes with "
            "different constructors, and a name-keyed memo leaks as soon as two composed classes share the name (C13_class_args_*); freeze "
            "reaches every Model/Collection/TuplePrior descendant, which then reject assignment and deletion; setattr / setitem are "
            "local; prior passing is a query; the six former defects are kept as legacy refutations and pinned as regression "
            "histories; plus vm_compute correspondence of the model with the running code on generated histories and a direct "
            "oracle against a cache-free reference",
    "note": "Trusted: Coq kernel + vm_compute, the abstraction in harness/vcheck/c13.py and harness/impl/c13_impl.py. Object identity is "
            "abstract (id() reuse not modelled), walk fuel 12, info is compared through the lists it is rendered from. Cached results are "
            "values in the model (no aliasing): a caller that edits a list returned by a frozen model changes its later answers in the code "
            "as it is (known finding returned-list-edited-by-caller, repair proposed: frozen_cache returns a copy); those histories are "
            "oracle-only. Class tables vary per history (shared names, subclasses, permuted / sub- / superset constructor signatures).",
    "technique": "machine-checked proof in Coq (state-machine model, invariant) + vm_compute correspondence",
}
