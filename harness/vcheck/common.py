"""Shared plumbing for every property check (see DESIGN.md section 1).

A property module `cXX.py` exposes `run(ctx)`; everything else lives here:
building the Coq development, auditing it, collecting `Print Assumptions`,
running implementation drivers under /venv/bin/python with PYTHONPATH=/repo,
evaluating generated case files inside Coq (vm_compute), classifying failures
against known_findings.json, and writing evidence / replay files.
"""
import fcntl
import hashlib
import json
import math
import os
import random
import re
import shutil
import subprocess
import sys
import tempfile
import time

VERIF = os.path.dirname(os.path.dirname(os.path.dirname(os.path.abspath(__file__))))
REPO = os.environ.get("VERIF_REPO", "/repo")
COQ = os.path.join(VERIF, "coq")
PY = "/venv/bin/python"
GUARD = "RHAYES777_PYAUTOFIT_VERIF"
NCPU = min(16, os.cpu_count() or 4)

ALLOWED_AXIOMS = {
    # standard-library axioms only (named in DESIGN.md section 4)
    "ClassicalDedekindReals.sig_forall_dec",
    "ClassicalDedekindReals.sig_not_dec",
    "FunctionalExtensionality.functional_extensionality_dep",
    "Classical_Prop.classic",
    "Eqdep.Eq_rect_eq.eq_rect_eq",
    "ProofIrrelevance.proof_irrelevance",
    "JMeq.JMeq_eq",
    # binary64 specification axioms of Coq.Floats.FloatAxioms (the kernel's primitive comparison / negation / abs
    # are SFeqb / SFltb / SFleb / SFopp / SFabs / SF64mul on Prim2SF): used by coq/Common/Float64Order.v
    "FloatAxioms.eqb_spec",
    "FloatAxioms.ltb_spec",
    "FloatAxioms.leb_spec",
    "FloatAxioms.opp_spec",
    "FloatAxioms.abs_spec",
    "FloatAxioms.mul_spec",
}
FORBIDDEN = re.compile(
    r"\b(Admitted|admit|Axiom|Axioms|Parameter|Parameters|Conjecture|Conjectures|"
    r"Admit\s+Obligations|bypass_check|give_up)\b|Unset\s+Guard|Unset\s+Positivity|"
    r"Unset\s+Universe|type-in-type|impredicative-set|native_compute"
)


def impl_env(extra=None):
    env = dict(os.environ)
    # switches of the library that would change the behaviour under test must not leak in
    for k in ("PYAUTOFIT_TEST_MODE", "USE_JAX", "PYAUTO_WORKSPACE_SMALL_DATASETS"):
        env.pop(k, None)
    env.update(
        PYTHONPATH=REPO + os.pathsep + os.path.join(VERIF, "harness"),
        PYTHONHASHSEED="0",
        PYTHONDONTWRITEBYTECODE="1",
        NUMBA_DISABLE_JIT="1",
        OMP_NUM_THREADS="1",
        OPENBLAS_NUM_THREADS="1",
        MKL_NUM_THREADS="1",
    )
    env[GUARD] = "1"
    env["VERIF_DIR"] = VERIF
    env["VERIF_REPO"] = REPO
    if extra:
        env.update(extra)
    return env


def sh(cmd, timeout=600, cwd=None, env=None, input=None):
    """Run a command, never raising; returns (rc, stdout+stderr)."""
    try:
        p = subprocess.run(
            cmd, cwd=cwd, env=env, input=input, timeout=timeout,
            stdout=subprocess.PIPE, stderr=subprocess.STDOUT, text=True,
            shell=isinstance(cmd, str),
        )
        out = "\n".join(l for l in p.stdout.splitlines() if "conda.cli.condarc" not in l)
        return p.returncode, out
    except subprocess.TimeoutExpired as e:
        out = e.stdout if isinstance(e.stdout, str) else (e.stdout or b"").decode("utf8", "replace")
        return 124, (out or "") + "\nTIMEOUT after %ss" % timeout


# --------------------------------------------------------------------------
# Coq literal printers
# --------------------------------------------------------------------------

def cfloat(x):
    """Python float -> Coq PrimFloat literal (bit exact)."""
    x = float(x)
    if math.isnan(x):
        return "nan"
    if math.isinf(x):
        return "infinity" if x > 0 else "neg_infinity"
    h = x.hex()
    if h.startswith("-"):
        return "(-%s)%%float" % h[1:]
    return "%s%%float" % h


def cZ(n):
    n = int(n)
    return "(%d)%%Z" % n


def cN(n):
    return "%d%%N" % int(n)


def cnat(n):
    n = int(n)
    assert 0 <= n < 5000, "nat literal too large: %r" % n
    return "%d%%nat" % n


def cQ(x):
    """Exact rational of a Python float or Fraction or int -> Coq Q literal."""
    from fractions import Fraction
    f = Fraction(x)
    return "(Qmake (%d) %d)" % (f.numerator, f.denominator)


def cstr(s):
    assert all(32 <= ord(c) < 127 for c in s), "non-ascii string %r" % s
    return '"%s"%%string' % s.replace('"', '""')


def cbool(b):
    return "true" if b else "false"


def clist(items):
    return "[" + "; ".join(items) + "]"


def copt(x, f=lambda v: v):
    return "None" if x is None else "(Some %s)" % f(x)


def cpair(a, b):
    return "(%s, %s)" % (a, b)


# --------------------------------------------------------------------------
# Build, audit, assumptions
# --------------------------------------------------------------------------

class Lock:
    def __init__(self, name):
        self.path = os.path.join(COQ, ".lock-" + name)

    def __enter__(self):
        os.makedirs(COQ, exist_ok=True)
        self.f = open(self.path, "w")
        fcntl.flock(self.f, fcntl.LOCK_EX)

    def __exit__(self, *a):
        fcntl.flock(self.f, fcntl.LOCK_UN)
        self.f.close()


# properties whose Coq development imports another property's directory
DEPS = {"C03": ["C01"], "C12": ["C01"], "C08": ["C01"]}


def coq_flags(prop=None):
    flags = ["-Q", os.path.join(COQ, "Common"), "PAFCommon"]
    if prop:
        for d in DEPS.get(prop, []):
            flags += ["-Q", os.path.join(COQ, d), "PAF" + d]
        flags += ["-Q", os.path.join(COQ, prop), "PAF" + prop]
    return flags


def make_dir(name, timeout=1500):
    """Full .vo build of one Coq directory via coq_makefile (under a lock)."""
    d = os.path.join(COQ, name)
    files = sorted(f for f in os.listdir(d) if f.endswith(".v"))
    proj = ["-Q ../Common PAFCommon"]
    for dep in DEPS.get(name, []):
        proj.append("-Q ../%s PAF%s" % (dep, dep))
    if name != "Common":
        proj.append("-Q . PAF" + name)
    proj += files
    with Lock(name):
        with open(os.path.join(d, "_CoqProject"), "w") as f:
            f.write("\n".join(proj) + "\n")
        rc, out = sh("coq_makefile -f _CoqProject -o Makefile.coq", cwd=d, timeout=120)
        if rc != 0:
            return False, out
        rc, out = sh("timeout %d make -k -f Makefile.coq -j%d" % (timeout, NCPU), cwd=d, timeout=timeout + 30)
    return rc == 0, out


def first_error(log):
    """Extract 'File ..., line ...: Error' blocks from a coq build log."""
    m = re.search(r'File "([^"]+)", line (\d+), characters [^\n]*\nError:?\s*([^\n]*(?:\n(?!make|File)[^\n]*){0,6})', log)
    if m:
        return {"file": m.group(1), "line": int(m.group(2)), "error": m.group(3).strip()[:600]}
    return {"file": None, "line": None, "error": log[-800:]}


def enclosing_statement(vfile, line):
    """Name of the Lemma/Theorem/Definition enclosing a line of a .v file."""
    try:
        src = open(vfile).read().splitlines()
    except OSError:
        return None
    for i in range(min(line, len(src)) - 1, -1, -1):
        m = re.match(r"\s*(?:Local\s+|Global\s+)?(Theorem|Lemma|Corollary|Example|Definition|Fixpoint|Fact|Remark|Proposition)\s+([A-Za-z0-9_']+)", src[i])
        if m:
            return m.group(2)
    return None


def audit_sources(dirs):
    """grep the development for forbidden constructs. Returns list of hits."""
    hits = []
    for name in dirs:
        d = os.path.join(COQ, name)
        for f in sorted(os.listdir(d)):
            if not f.endswith(".v"):
                continue
            text = open(os.path.join(d, f)).read()
            # strip comments (non-nested good enough: we nest rarely) and strings
            stripped = strip_coq_comments(text)
            for m in FORBIDDEN.finditer(stripped):
                hits.append("%s/%s: %s" % (name, f, m.group(0)))
            # Variable/Hypothesis outside a section
            depth = 0
            for ln in stripped.splitlines():
                s = ln.strip()
                if re.match(r"Section\s+\w+", s):
                    depth += 1
                elif re.match(r"End\s+\w+", s) and depth > 0:
                    depth -= 1
                elif depth == 0 and re.match(r"(Variable|Variables|Hypothesis|Hypotheses|Context)\b", s):
                    hits.append("%s/%s: top-level %s" % (name, f, s[:40]))
    return hits


def strip_coq_comments(text):
    out = []
    depth = 0
    i = 0
    instr = False
    while i < len(text):
        c = text[i]
        if depth == 0 and c == '"':
            instr = not instr
            out.append(c)
            i += 1
            continue
        if not instr and text.startswith("(*", i):
            depth += 1
            i += 2
            continue
        if not instr and depth > 0 and text.startswith("*)", i):
            depth -= 1
            i += 2
            continue
        if depth == 0:
            out.append(c if not instr else " ")
        elif c == "\n":
            out.append("\n")
        i += 1
    return "".join(out)


def theorem_names(prop):
    """Statements of Props.v: [(name, statement text)]."""
    path = os.path.join(COQ, prop, "Props.v")
    text = strip_coq_comments(open(path).read())
    res = []
    for m in re.finditer(r"(?:Theorem|Corollary)\s+([A-Za-z0-9_']+)\s*(.*?)\.\s*\n?\s*Proof\.", text, re.S):
        res.append((m.group(1), " ".join(m.group(2).split())))
    return res


def props_shape_ok(prop):
    """Props.v may contain only Require/Import, Theorem ... Proof. exact ... Qed., Print Assumptions."""
    path = os.path.join(COQ, prop, "Props.v")
    text = strip_coq_comments(open(path).read())
    bad = []
    # sentences
    body = re.sub(r"(?:Theorem|Corollary)\s+[A-Za-z0-9_']+.*?\.\s*Proof\.\s*(?:exact\s+[^.]*(?:\.[A-Za-z_][^.\s]*)*\.|apply\s+[^.]*\.)\s*Qed\.", " ", text, flags=re.S)
    for sent in re.split(r"\.\s", body):
        s = sent.strip()
        if not s:
            continue
        if re.match(r"(From|Require|Import|Export|Print Assumptions|Open Scope|Local Open Scope|Set|Unset|Section|End|Local Notation|Notation)\b", s):
            continue
        bad.append(s[:80])
    return bad


def collect_assumptions(prop, names, rundir):
    """Print Assumptions of each theorem via Redirect. Returns {name: [axioms]} or error."""
    os.makedirs(rundir, exist_ok=True)
    lines = ["From PAF%s Require Import Props." % prop]
    for n in names:
        lines.append('Redirect "%s/asm_%s" Print Assumptions %s.' % (rundir, n, n))
    vf = os.path.join(rundir, "Audit%s.v" % prop)
    with open(vf, "w") as f:
        f.write("\n".join(lines) + "\n")
    rc, out = sh(["timeout", "600", "coqc"] + coq_flags(prop) + [vf], timeout=640)
    if rc != 0:
        return None, out
    res = {}
    for n in names:
        p = os.path.join(rundir, "asm_%s.out" % n)
        txt = open(p).read() if os.path.exists(p) else "MISSING"
        if "Closed under the global context" in txt:
            res[n] = []
        else:
            # `name : type` on one line, or (long types, e.g. FloatAxioms.leb_spec) the name alone followed by an
            # indented `: type` line
            axs = [m.group(1) for m in re.finditer(r"^([A-Za-z_][A-Za-z0-9_.']*)(?:[ \t]+|[ \t]*\n[ \t]+):(?=\s|$)", txt, flags=re.M)]
            res[n] = axs if axs else ["UNPARSED:" + txt[:200]]
    return res, out


def _kernel_prims():
    names = set()
    root = "/usr/lib/ocaml/coq/theories"
    for rel in ("Floats/PrimFloat.v", "Numbers/Cyclic/Int63/PrimInt63.v", "Array/PArray.v"):
        try:
            for ln in open(os.path.join(root, rel)):
                m = re.match(r"Primitive\s+([A-Za-z0-9_']+)", ln)
                if m:
                    names.add(m.group(1))
        except OSError:
            pass
    return names


KERNEL_PRIM_NAMES = _kernel_prims()


def axiom_ok(a):
    if a in ALLOWED_AXIOMS:
        return True
    if a.split(".")[-1] in KERNEL_PRIM_NAMES and (
            "." not in a or a.split(".")[0] in ("PrimFloat", "PrimInt63", "Uint63", "PArray")):
        return True
    short = a.split(".")[-1]
    return any(x.split(".")[-1] == short and (a.endswith(x) or x.endswith(a)) for x in ALLOWED_AXIOMS)


# --------------------------------------------------------------------------
# Case evaluation inside Coq
# --------------------------------------------------------------------------

def coq_eval_cases(prop, header, case_type, check_fn, cases, rundir, tag="cases", shard=300, timeout=900):
    """
    cases: list of Coq terms of type `case_type`. `check_fn : case_type -> bool`.
    Returns (bad_indices, logs) where bad_indices are indices with check_fn = false;
    on a Coq error returns (None, log).
    """
    os.makedirs(rundir, exist_ok=True)
    shards = [cases[i:i + shard] for i in range(0, len(cases), shard)] or [[]]
    files = []
    for si, sh_cases in enumerate(shards):
        vf = os.path.join(rundir, "%s_%s_%d.v" % (tag, prop, si))
        with open(vf, "w") as f:
            f.write(header + "\n")
            f.write("Definition the_cases : list (%s) :=\n [\n  " % case_type)
            f.write(";\n  ".join(sh_cases))
            f.write("\n ].\n")
            f.write(
                "Definition bad_idx := "
                "(fix go (i : N) (l : list (%s)) : list N := match l with nil => nil "
                "| c :: r => if %s c then go (N.succ i) r else i :: go (N.succ i) r end) 0%%N the_cases.\n"
                % (case_type, check_fn)
            )
            f.write('Redirect "%s/%s_%s_%d" Eval vm_compute in bad_idx.\n' % (rundir, tag, prop, si))
        files.append(vf)
    procs = []
    logs = []
    bad = []
    # run up to NCPU coqc in parallel
    pending = list(enumerate(files))
    running = []
    ok = True
    while pending or running:
        while pending and len(running) < NCPU:
            si, vf = pending.pop(0)
            p = subprocess.Popen(
                ["bash", "-c", "ulimit -s unlimited 2>/dev/null; exec timeout %d coqc %s %s" % (
                    timeout, " ".join(coq_flags(prop)), vf)],
                stdout=subprocess.PIPE, stderr=subprocess.STDOUT, text=True)
            running.append((si, vf, p))
        si, vf, p = running.pop(0)
        out, _ = p.communicate()
        if p.returncode != 0:
            ok = False
            logs.append("shard %d: rc=%d\n%s" % (si, p.returncode, out[-3000:]))
            continue
        outp = os.path.join(rundir, "%s_%s_%d.out" % (tag, prop, si))
        txt = open(outp).read()
        m = re.search(r"=\s*(.*?)\s*:\s*list N", txt, re.S)
        if not m:
            ok = False
            logs.append("shard %d: unparsed %s" % (si, txt[:500]))
            continue
        for num in re.findall(r"(\d+)%N", m.group(1)):
            bad.append(si * shard + int(num))
    if not ok:
        return None, "\n".join(logs)
    return sorted(bad), ""


def coq_show(prop, header, term, rundir, tag="show", timeout=300):
    """Evaluate one term with vm_compute and return Coq's printed value (for replays)."""
    os.makedirs(rundir, exist_ok=True)
    vf = os.path.join(rundir, "%s_%s.v" % (tag, prop))
    with open(vf, "w") as f:
        f.write(header + "\n")
        f.write('Redirect "%s/%s_%s" Eval vm_compute in (%s).\n' % (rundir, tag, prop, term))
    rc, out = sh(["timeout", str(timeout), "coqc"] + coq_flags(prop) + [vf], timeout=timeout + 20)
    if rc != 0:
        return "COQ-ERROR: " + out[-1500:]
    return open(os.path.join(rundir, "%s_%s.out" % (tag, prop))).read().strip()


# --------------------------------------------------------------------------
# Implementation drivers
# --------------------------------------------------------------------------

def run_impl(script, payload, timeout=900, extra_env=None, rundir=None):
    """Run harness/impl/<script>.py with a JSON payload; returns parsed JSON output.
    On failure returns {"__error__": text}."""
    tmp = tempfile.mkdtemp(prefix="vimpl_", dir=rundir or None)
    try:
        inp = os.path.join(tmp, "in.json")
        outp = os.path.join(tmp, "out.json")
        scratch = os.path.join(tmp, "scratch")
        os.makedirs(scratch)
        with open(inp, "w") as f:
            json.dump(payload, f)
        env = impl_env(extra_env)
        env["VERIF_SCRATCH"] = scratch
        rc, out = sh([PY, "-W", "ignore", os.path.join(VERIF, "harness", "impl", script + ".py"), inp, outp],
                     timeout=timeout, env=env, cwd=scratch)
        if rc != 0 or not os.path.exists(outp):
            return {"__error__": "rc=%s\n%s" % (rc, out[-4000:])}
        with open(outp) as f:
            return json.load(f)
    finally:
        shutil.rmtree(tmp, ignore_errors=True)


def run_impl_parallel(script, payloads, timeout=900, extra_env=None, workers=None):
    """Run several payloads in parallel processes, keeping order."""
    from concurrent.futures import ThreadPoolExecutor
    with ThreadPoolExecutor(max_workers=workers or NCPU) as ex:
        return list(ex.map(lambda p: run_impl(script, p, timeout, extra_env), payloads))


# --------------------------------------------------------------------------
# Context: evidence, findings, violations
# --------------------------------------------------------------------------

def load_known(prop=None):
    """Known findings live in known_findings/<id>.json (one file per property, committed,
    never written at run time)."""
    d = os.path.join(VERIF, "known_findings")
    out = []
    if not os.path.isdir(d):
        return out
    for f in sorted(os.listdir(d)):
        if f.endswith(".json") and (prop is None or f == prop + ".json"):
            out += json.load(open(os.path.join(d, f))).get("findings", [])
    return out


class Ctx:
    def __init__(self, prop, tier, seed, replay=None):
        self.prop = prop
        self.tier = tier
        self.seed = seed
        self.replay = replay
        self.t0 = time.time()
        self.rng = random.Random(seed * 1000003 + int(prop[1:]))
        self.rundir = tempfile.mkdtemp(prefix="run_%s_" % prop, dir=self._runroot())
        self.obligations = []      # (name, kind, ok, detail)
        self.theorems = {}
        self.translated = {}
        self.samples = []
        self.case_keys = set()
        self.nontrivial_keys = set()
        self.evaluations = 0
        self.distribution = {}
        self.corr = {"cases": 0, "shards": 0, "disagreements": 0}
        self.oracle = {"cases": 0, "failures": 0, "known": 0}
        self.violations = []       # dicts
        self.known_hits = {}       # signature -> count/what
        self.rule = ""
        self.assumptions = []
        self.trusted = []
        self.notes = {}
        self.known = [k for k in load_known(prop) if k.get("property") == prop]

    @staticmethod
    def _runroot():
        d = os.path.join(COQ, "run")
        os.makedirs(d, exist_ok=True)
        return d

    def cleanup(self):
        shutil.rmtree(self.rundir, ignore_errors=True)

    # ---- bookkeeping -------------------------------------------------
    def count_case(self, key_obj, nontrivial, kind=None):
        self.evaluations += 1
        k = hashlib.sha1(json.dumps(key_obj, sort_keys=True, default=str).encode()).hexdigest()
        self.case_keys.add(k)
        if nontrivial:
            self.nontrivial_keys.add(k)
        if kind is not None:
            self.hist("kind", kind)

    def hist(self, name, value):
        d = self.distribution.setdefault(name, {})
        d[str(value)] = d.get(str(value), 0) + 1

    def sample(self, obj, limit=6):
        if len(self.samples) < limit:
            self.samples.append(obj)

    def obligation(self, name, kind, ok, detail=""):
        self.obligations.append({"name": name, "kind": kind, "ok": bool(ok), "detail": detail})

    # ---- findings ----------------------------------------------------
    def match_known(self, classes):
        """classes: iterable of class labels computed from the *case*. Returns finding or None."""
        for k in self.known:
            if k.get("status") != "known":
                continue
            if k.get("match", {}).get("class") in classes:
                return k
        return None

    def failure(self, kind, what, case, classes=(), impl=None, model=None, broken=None, found_input=True):
        """Register a failing case. kind: oracle|correspondence|theorem|translator|audit."""
        k = self.match_known(classes) if found_input else None
        if k is not None:
            sig = k["signature"]
            h = self.known_hits.setdefault(sig, {"what": k["what"], "count": 0, "example": case})
            h["count"] += 1
            self.oracle["known"] += 1
            return False
        self.violations.append({
            "kind": kind, "what": what, "case": case, "classes": list(classes),
            "impl": impl, "model": model, "broken": broken, "found_input": found_input,
        })
        return True

    # ---- coq stages ----------------------------------------------------
    def build(self, extra_dirs=()):
        """Build Common + prop dir; audit; collect assumptions. Returns True if all proof obligations hold."""
        ok_all = True
        dirs = ["Common"] + [d for d in DEPS.get(self.prop, []) if d not in extra_dirs] + list(extra_dirs) + [self.prop]
        for d in dirs:
            ok, log = make_dir(d)
            if not ok:
                err = first_error(log)
                name = enclosing_statement(err["file"], err["line"]) if err["file"] else None
                self.obligation("build:" + d, "build", False, json.dumps(err)[:900])
                self.broken_build = {"dir": d, "error": err, "statement": name}
                return False
            self.obligation("build:" + d, "build", True)
        hits = audit_sources(dirs)
        self.obligation("audit:no-axioms-admits", "audit", not hits, "; ".join(hits))
        if hits:
            ok_all = False
            self.broken_build = {"dir": self.prop, "error": {"error": "forbidden construct: " + "; ".join(hits)}, "statement": None}
        bad = props_shape_ok(self.prop)
        self.obligation("audit:Props.v-shape", "audit", not bad, "; ".join(bad))
        if bad:
            ok_all = False
            self.broken_build = {"dir": self.prop, "error": {"error": "Props.v contains more than statements: " + "; ".join(bad)}, "statement": None}
        thms = theorem_names(self.prop)
        names = [n for n, _ in thms]
        asm, log = collect_assumptions(self.prop, names, self.rundir)
        if asm is None:
            self.obligation("assumptions", "audit", False, log[-600:])
            self.broken_build = {"dir": self.prop, "error": {"error": log[-600:]}, "statement": None}
            return False
        for n, st in thms:
            axs = asm.get(n, ["MISSING"])
            good = all(axiom_ok(a) for a in axs)
            self.theorems[n] = {"statement": st[:400], "assumptions": axs or ["Closed under the global context"]}
            self.obligation("theorem:" + n, "theorem", good, "" if good else "unexpected assumptions %s" % axs)
            if not good:
                ok_all = False
                self.broken_build = {"dir": self.prop, "error": {"error": "theorem %s depends on %s" % (n, axs)}, "statement": n}
        if self.tier == "thorough" and ok_all and os.environ.get("VERIF_NO_COQCHK") != "1":
            ok_all = self.coqchk() and ok_all
        return ok_all

    def coqchk(self):
        """Independent re-check of Props.vo and everything it depends on (thorough tier)."""
        d = os.path.join(COQ, self.prop)
        rc, out = sh(["timeout", "2400", "coqchk", "-silent", "-o"] + coq_flags(self.prop) + ["PAF%s.Props" % self.prop],
                     timeout=2460, cwd=d)
        if rc != 0:
            self.obligation("coqchk", "audit", False, out[-600:])
            self.broken_build = {"dir": self.prop, "error": {"error": "coqchk failed: " + out[-400:]}, "statement": None}
            return False
        bad = []
        section = None
        axioms = []
        for ln in out.splitlines():
            t = ln.strip()
            m = re.match(r"\* (Axioms|Constants/Inductives relying on type-in-type|Constants/Inductives relying on unsafe \(co\)fixpoints|Inductives whose positivity is assumed)\s*:\s*(.*)", t)
            if m:
                section = m.group(1)
                if m.group(2) and m.group(2) != "<none>":
                    (axioms if section == "Axioms" else bad).append(m.group(2))
                continue
            if t and section and not t.startswith("*") and not t.startswith("CONTEXT"):
                (axioms if section == "Axioms" else bad).append(t)
        foreign = [a for a in axioms if not a.startswith("Coq.")]
        ok = not bad and not foreign
        self.obligation("coqchk", "audit", ok,
                        ("%d stdlib axioms/primitives in the loaded libraries" % len(axioms)) if ok else "foreign axioms %s, flags %s" % (foreign[:5], bad[:5]))
        self.notes["coqchk_axioms"] = sorted(set(a for a in axioms if "Prim" not in a and "Uint63" not in a))[:40]
        if not ok:
            self.broken_build = {"dir": self.prop, "error": {"error": "coqchk: foreign axioms %s, flags %s" % (foreign[:5], bad[:5])}, "statement": None}
        return ok

    def header(self, modules=("Model",)):
        lines = [
            "From Coq Require Import ZArith NArith QArith List String Bool.",
            "From Coq Require Import Floats.PrimFloat.",
            "Import ListNotations.",
        ]
        for m in modules:
            if m.startswith("Common."):
                lines.append("From PAFCommon Require Import %s." % m.split(".", 1)[1])
            else:
                lines.append("From PAF%s Require Import %s." % (self.prop, m))
        lines.append("Open Scope string_scope. Open Scope list_scope.")
        return "\n".join(lines)

    def eval_cases(self, header, case_type, check_fn, cases, tag="cases", shard=300):
        bad, log = coq_eval_cases(self.prop, header, case_type, check_fn, cases, self.rundir, tag=tag, shard=shard)
        nshards = (len(cases) + shard - 1) // shard
        self.corr["cases"] += len(cases)
        self.corr["shards"] += nshards
        if bad is None:
            self.obligation("correspondence:" + tag, "correspondence", False, log[-900:])
            return None, log
        self.corr["disagreements"] += len(bad)
        self.obligation("correspondence:" + tag, "correspondence", True if not bad else False,
                        "%d/%d cases disagree" % (len(bad), len(cases)) if bad else "%d cases agree" % len(cases))
        return bad, ""

    def show(self, header, term, tag="show"):
        return coq_show(self.prop, header, term, self.rundir, tag=tag)

    # ---- finish ----------------------------------------------------------
    def finish(self):
        os.makedirs(os.path.join(VERIF, "evidence"), exist_ok=True)
        os.makedirs(os.path.join(VERIF, "replays"), exist_ok=True)
        # a failed obligation without any recorded violation is itself a violation
        failed = [o for o in self.obligations if not o["ok"]]
        if failed and not self.violations:
            for o in failed:
                self.violations.append({
                    "kind": o["kind"], "what": "obligation %s no longer checks: %s" % (o["name"], o["detail"][:300]),
                    "case": None, "classes": [], "impl": None, "model": None,
                    "broken": {"kind": o["kind"], "name": o["name"], "detail": o["detail"]},
                    "found_input": False,
                })
        lines = []
        for sig, h in sorted(self.known_hits.items()):
            lines.append("KNOWN-FINDING: property=%s %s [%s] (%d cases this run)" % (self.prop, h["what"], sig, h["count"]))
        # known findings are reported even when this run's sample did not hit them
        for k in self.known:
            if k.get("status") == "known" and k["signature"] not in self.known_hits:
                lines.append("KNOWN-FINDING: property=%s %s [%s] (listed; not sampled this run)" % (self.prop, k["what"], k["signature"]))
        rc = 0
        for i, v in enumerate(self.violations[:5]):
            path = os.path.join(VERIF, "replays", "%s-%s-%d-%d.json" % (self.prop, self.tier, self.seed, i))
            with open(path, "w") as f:
                json.dump({
                    "property": self.prop, "tier": self.tier, "seed": self.seed,
                    "kind": v["kind"], "what": v["what"], "case": v["case"], "classes": v["classes"],
                    "impl": v["impl"], "model": v["model"], "broken": v["broken"],
                    "cmd": "./check %s --replay %s" % (self.prop, path),
                }, f, indent=1, default=str)
            tail = "" if v["found_input"] else " no-failing-input-found"
            lines.append("VIOLATION property=%s replay=%s%s" % (self.prop, path, tail))
            rc = 1
        n_ob = len(self.obligations)
        n_ok = sum(1 for o in self.obligations if o["ok"])
        ev = {
            "property_id": self.prop,
            "tier": self.tier,
            "seed": self.seed,
            "level": "proof",
            "coverage": {
                "obligations": n_ob,
                "discharged": n_ok,
                "checker_cmd": "coq_makefile+make (coqc 8.16.1 full .vo build) of coq/Common and coq/%s; Print Assumptions per theorem of Props.v; vm_compute correspondence shards" % self.prop,
                "trusted_base": self.trusted or ["Coq 8.16.1 kernel incl. vm_compute"],
                "evaluations": self.evaluations,
                "distinct_nontrivial": len(self.nontrivial_keys),
                "distinct": len(self.case_keys),
                "rule": self.rule,
                "samples": self.samples or ["(no generated cases this run)"],
                "theorems": self.theorems,
                "translated": self.translated,
                "obligation_list": self.obligations,
                "correspondence": self.corr,
                "oracle": self.oracle,
                "distribution": self.distribution,
                "known_findings_hit": {k: v["count"] for k, v in self.known_hits.items()},
                "notes": self.notes,
            },
            "assumptions": self.assumptions,
            "wall_s": round(time.time() - self.t0, 2),
            "violations": len(self.violations),
        }
        with open(os.path.join(VERIF, "evidence", "%s.json" % self.prop), "w") as f:
            json.dump(ev, f, indent=1, default=str)
        for ln in lines:
            print(ln)
        print("%s %s: obligations %d/%d, cases %d (distinct non-trivial %d), violations %d, known-finding hits %d, %.1fs" % (
            self.prop, self.tier, n_ok, n_ob, self.evaluations, len(self.nontrivial_keys),
            len(self.violations), sum(h["count"] for h in self.known_hits.values()), time.time() - self.t0))
        self.cleanup()
        return rc
