"""C12 -- prior passing keeps every inferred value on its own parameter (DESIGN.md section 5, C12)."""
import ast
import json
import os
from . import common
from . import modelgen as MG
from . import pyexpr2coq as T
from .common import cfloat, cnat, cstr, clist, cpair, cbool, copt

ABSTRACT = "autofit/mapper/prior_model/abstract.py"
WIDTH = "autofit/mapper/prior/width_modifier.py"
PRIOR = "autofit/mapper/prior/abstract.py"
GAUSS = "autofit/mapper/prior/gaussian.py"
LOGU = "autofit/mapper/prior/log_uniform.py"
NORMAL = "autofit/messages/normal.py"


# ---------------------------------------------------------------------------
# translator: leaf formulas of prior passing (regenerated from /repo on every run)
# ---------------------------------------------------------------------------
class Tr12(T.Tr):
    """Local extension: `floats[i]` (name index) is a scalar argument; `np.array(x)` of a scalar is x."""

    def tr_Subscript(self, n):
        d = T._dotted(n.value)
        if d is not None and isinstance(n.slice, ast.Name):
            return self.var("%s.%s" % (d, n.slice.id))
        return super().tr_Subscript(n)

    def tr_Call(self, n):
        if T._dotted(n.func) == "np.array" and len(n.args) == 1 and not n.keywords:
            return self.tr(n.args[0])
        return super().tr_Call(n)


def _kw(call, name):
    for k in call.keywords:
        if k.arg == name:
            return k.value
    raise T.TranslationError("call has no keyword %s" % name)


def _width(fn, k):
    """mapper_from_prior_means: the three assignments `width = a | r * mean | width_modifier(mean)`, and the shape of
    the construction `sigma = width; GaussianPrior(mean, sigma, *limits); new_prior.id = prior.id`."""
    ws = T.assigns(fn, "width")
    if len(ws) != 3:
        raise T.TranslationError("mapper_from_prior_means no longer has three assignments to width")
    third = ws[2].value
    if not (isinstance(third, ast.Call) and T._dotted(third.func) == "width_modifier" and len(third.args) == 1
            and T._dotted(third.args[0]) == "mean"):
        raise T.TranslationError("third width is not width_modifier(mean)")
    sig = T.assigns(fn, "sigma")
    if len(sig) != 1 or T._dotted(sig[0].value) != "width":
        raise T.TranslationError("sigma is not assigned from width")
    g = T.calls(fn, "GaussianPrior")
    if len(g) != 1 or len(g[0].args) != 3 or [T._dotted(a) for a in g[0].args[:2]] != ["mean", "sigma"] \
            or not isinstance(g[0].args[2], ast.Starred) or T._dotted(g[0].args[2].value) != "limits":
        raise T.TranslationError("new prior is not GaussianPrior(mean, sigma, *limits)")
    ids = T.assigns(fn, "new_prior.id")
    if len(ids) != 1 or T._dotted(ids[0].value) != "prior.id":
        raise T.TranslationError("new prior does not keep prior.id")
    return ws[k]


def _digit_rule(fn):
    """mapper_from_prior_means: `if name.isdigit(): path = self.path_for_prior(..); if len(path) > 1: name = path[-2]`."""
    for node in T.nodes(fn, ast.If):
        t = node.test
        if isinstance(t, ast.Call) and T._dotted(t.func) == "name.isdigit" and not t.args:
            inner = [n for n in ast.walk(node) if isinstance(n, ast.If) and n is not node]
            if len(inner) != 1 or node.orelse or inner[0].orelse:
                break
            body = inner[0].body
            if not (len(body) == 1 and isinstance(body[0], ast.Assign) and T._dotted(body[0].targets[0]) == "name"
                    and ast.unparse(body[0].value).replace(" ", "") == "path[-2]"):
                break
            paths = T.assigns(fn, "path")
            if len(paths) != 1 or "path_for_prior" not in ast.unparse(paths[0].value):
                break
            return inner[0].test
    raise T.TranslationError("the rule for number-named priors (name = path_for_prior(prior)[-2] when the path has a parent) changed")


def _uniform_kw(fn, name):
    cs = T.calls(fn, "UniformPrior")
    if len(cs) != 1 or cs[0].args:
        raise T.TranslationError("mapper_from_uniform_floats does not build exactly one UniformPrior by keywords")
    ids = T.assigns(fn, "new_prior.id")
    if len(ids) != 1 or T._dotted(ids[0].value) != "prior.id":
        raise T.TranslationError("new prior does not keep prior.id")
    return _kw(cs[0], name)


def _ctor_kw(fn, callee, name):
    cs = T.calls(fn, callee)
    if len(cs) != 1 or cs[0].args:
        raise T.TranslationError("expected exactly one keyword call of %s" % callee)
    return _kw(cs[0], name)


def _first_if_test(fn):
    ifs = T.nodes(fn, ast.If)
    if not ifs:
        raise T.TranslationError("no if statement")
    return ifs[0].test


def _sigma_negative(fn):
    t = _first_if_test(fn)           # (np.array(sigma) < 0).any()
    if not (isinstance(t, ast.Call) and isinstance(t.func, ast.Attribute) and t.func.attr == "any"
            and not t.args and isinstance(t.func.value, ast.Compare)):
        raise T.TranslationError("NormalMessage sigma check is not (<comparison>).any()")
    return t.func.value


F2 = lambda a, b: [(a, "float"), (b, "float")]
SPECS = [
    T.Spec("pm_abs_width", ABSTRACT, "AbstractPriorModel.mapper_from_prior_means", lambda f: _width(f, 0), [("a", "float")], "float",
           doc="width when a is given"),
    T.Spec("pm_rel_width", ABSTRACT, "AbstractPriorModel.mapper_from_prior_means", lambda f: _width(f, 1), F2("r", "mean"), "float",
           doc="width when r is given"),
    T.Spec("digit_has_parent", ABSTRACT, "AbstractPriorModel.mapper_from_prior_means", _digit_rule, [("len_path", "int")], "bool",
           doc="a number-named prior takes the name of the enclosing collection when there is one"),
    T.Spec("wm_relative", WIDTH, "RelativeWidthModifier.__call__", lambda f: T.returns(f)[-1], F2("value", "mean"), "float"),
    T.Spec("wm_absolute", WIDTH, "AbsoluteWidthModifier.__call__", lambda f: T.returns(f)[-1], [("value", "float")], "float"),
    T.Spec("uf_lower", ABSTRACT, "AbstractPriorModel.mapper_from_uniform_floats", lambda f: _uniform_kw(f, "lower_limit"),
           F2("floats_i", "b"), "float"),
    T.Spec("uf_upper", ABSTRACT, "AbstractPriorModel.mapper_from_uniform_floats", lambda f: _uniform_kw(f, "upper_limit"),
           F2("floats_i", "b"), "float"),
    T.Spec("pl_lower", PRIOR, "Prior.with_limits", lambda f: _ctor_kw(f, "self.__class__", "lower_limit"),
           F2("lower_limit", "self_lower_limit"), "float", renames={"self.lower_limit": "self_lower_limit"}),
    T.Spec("pl_upper", PRIOR, "Prior.with_limits", lambda f: _ctor_kw(f, "self.__class__", "upper_limit"),
           F2("upper_limit", "self_upper_limit"), "float", renames={"self.upper_limit": "self_upper_limit"}),
    T.Spec("gl_mean", GAUSS, "GaussianPrior.with_limits", lambda f: _ctor_kw(f, "cls", "mean"), F2("lower_limit", "upper_limit"), "float"),
    T.Spec("gl_sigma", GAUSS, "GaussianPrior.with_limits", lambda f: _ctor_kw(f, "cls", "sigma"), F2("lower_limit", "upper_limit"), "float"),
    T.Spec("lu_lower", LOGU, "LogUniformPrior.with_limits", lambda f: _ctor_kw(f, "cls", "lower_limit"), [("lower_limit", "float")], "float"),
    T.Spec("lu_upper", LOGU, "LogUniformPrior.with_limits", lambda f: _ctor_kw(f, "cls", "upper_limit"), [("upper_limit", "float")], "float"),
    T.Spec("lu_bad_lower", LOGU, "LogUniformPrior.__init__", _first_if_test, [("lower_limit", "float")], "bool",
           doc="LogUniformPrior rejects this lower limit (PriorException)"),
    T.Spec("prior_bad_limits", PRIOR, "Prior.__init__", _first_if_test, F2("lower_limit", "upper_limit"), "bool",
           doc="every prior rejects these limits (PriorException)"),
    T.Spec("sigma_negative", NORMAL, "NormalMessage.__init__", _sigma_negative, [("sigma", "float")], "bool",
           doc="GaussianPrior rejects this sigma (MessageException)"),
]


COMPOUND = "autofit/mapper/prior/arithmetic/compound.py"


def modified_prior_cls_variant(repo):
    """Variant switch read from the source (ext-tree): what `ModifiedPrior.cls` returns.
    False: `return self.prior.cls` -- an AttributeError when the operand is a Prior (finding C12 modified-prior-cls);
    True:  `getattr(self.prior, "cls", float)` -- falls back to float (proposed_fixes/C12-modified-prior-cls.diff).
    Anything else is a TranslationError (the model has to be looked at again)."""
    import warnings
    with warnings.catch_warnings():
        warnings.simplefilter("ignore")
        tree = ast.parse(open(os.path.join(repo, COMPOUND)).read())
    for cls in [n for n in tree.body if isinstance(n, ast.ClassDef) and n.name == "ModifiedPrior"]:
        for fn in [n for n in cls.body if isinstance(n, ast.FunctionDef) and n.name == "cls"]:
            rets = [n for n in ast.walk(fn) if isinstance(n, ast.Return)]
            if len(rets) == 1:
                src = ast.unparse(rets[0].value).replace("'", '"')
                if src == "self.prior.cls":
                    return False, src, fn.lineno
                if src == 'getattr(self.prior, "cls", float)':
                    return True, src, fn.lineno
            raise T.TranslationError("ModifiedPrior.cls has a shape the C12 model does not know: %s" % ast.unparse(fn)[:200])
    raise T.TranslationError("ModifiedPrior.cls not found in %s" % COMPOUND)


def regenerate(repo=None):
    old = T.Tr
    T.Tr = Tr12
    out = os.path.join(common.COQ, "C12", "Gen.v")
    try:
        tmp = out + ".gen"           # (written only when the final text differs: an unchanged Gen.v is not recompiled)
        if os.path.exists(tmp):
            os.remove(tmp)
        infos = T.generate(repo or common.REPO, SPECS, tmp,
                           "C12 leaf formulas of prior passing (widths, bounds, tightened limits, rejection tests)")
        flag, src, line = modified_prior_cls_variant(repo or common.REPO)
        extra = ("(* %s:ModifiedPrior.cls line %d -- variant switch: does the class of a unary arithmetic prior fall back to float\n"
                 "     when its operand has none (a Prior)?\n     %s *)\n"
                 "Definition modified_prior_cls_falls_back : bool := %s.\n" % (COMPOUND, line, src, "true" if flag else "false"))
        text = open(tmp).read()
        os.remove(tmp)
        text = text + ("" if text.endswith("\n") else "\n") + extra
        if not os.path.exists(out) or open(out).read() != text:
            with open(out, "w") as f:
                f.write(text)
        infos["modified_prior_cls_falls_back"] = {"source": src, "line": line}
        return infos
    finally:
        T.Tr = old


# ---------------------------------------------------------------------------
# check
# ---------------------------------------------------------------------------
from . import c01 as C01

unhex = MG.unhex
INF = float("inf")


def _load_classes():
    """harness/impl/c12_classes.py (classes of this check) without importing autofit."""
    import importlib.util
    spec = importlib.util.spec_from_file_location("c12_classes", os.path.join(common.VERIF, "harness", "impl", "c12_classes.py"))
    mod = importlib.util.module_from_spec(spec)
    spec.loader.exec_module(mod)
    return mod


K = _load_classes()
MG.SIGNATURES.update(K.SIGNATURES)          # this process only: expected trees and Coq printers know the C12 classes


def load_config():
    """(class, attribute) -> (width modifier | None, gaussian limits | None), read straight from the harness's prior
    config (YAML), not through the code under test. Classes of module vclasses / c12_classes, and ModelInstance (the
    class under which priors held directly by a Collection are looked up). A subclass inherits its parent's entries."""
    import yaml
    table = {}
    base = os.path.join(common.VERIF, "harness", "config", "priors")
    for rel in ("vclasses.yaml", "c12_classes.yaml", os.path.join("autofit", "mapper", "model.yaml")):
        raw = yaml.safe_load(open(os.path.join(base, rel)))
        for cls, attrs in raw.items():
            for name, d in attrs.items():
                wm = d.get("width_modifier")
                gl = d.get("gaussian_limits")
                table[(cls, name)] = {
                    "wm": None if wm is None else (wm["type"], float(wm["value"])),
                    "lim": None if gl is None else (float(gl["lower"]), float(gl["upper"])),
                }
    for sub, parent in K.INHERITS.items():
        for (cls, name), e in list(table.items()):
            if cls == parent:
                table.setdefault((sub, name), e)
    return table


CONFIG = None
DEFAULT_WM = ("Relative", 0.5)


def apply_wm(wm, mean):
    # a relative width is a magnitude: |value * mean| (equal to value * mean whenever that is not negative)
    return abs(wm[1] * mean) if wm[0] == "Relative" else wm[1]


def places(e, out, holder=None, parent_key=None):
    """Every place a pool prior occupies in the program: ref -> [(kind, class, attribute name)], the (class, name) under
    which THAT place is configured: the Model's class and the attribute / tuple member name; ModelInstance and the
    collection key for a prior held directly by a Collection (the key of the enclosing collection when the prior sits
    under a number); nothing for an operand of an arithmetic prior."""
    t = e["t"]
    if t == "prior":
        out.setdefault(e["ref"], []).append(holder)
    elif t == "arith":
        places(e["l"], out, ("arith", None, None))
        places(e["r"], out, ("arith", None, None))
    elif t == "unary":
        places(e["a"], out, ("arith", None, None))
    elif t == "model":
        for arg, kind, extra in MG.SIGNATURES[e["cls"]]:
            sub = e["kw"][arg]
            if kind == "tuple":
                for i, m in enumerate(sub["members"]):
                    places(m, out, ("model", e["cls"], "%s_%d" % (arg, i)))
            else:
                places(sub, out, ("model", e["cls"], arg), arg)
        for k, sub in e.get("extra", []):
            places(sub, out, ("model", e["cls"], k), k)
    elif t == "coll":
        for k, sub in MG.resolve_copies(e)["items"]:
            name = k if not k.isdigit() or parent_key is None else parent_key
            places(sub, out, ("coll", "ModelInstance", name), k)


def place_config(prog, place, i):
    """(width modifier, limits) configured for one place of pool prior i."""
    kind, cls, name = place
    old = prog["pool"][i]
    ent = CONFIG.get((cls, name)) if kind in ("model", "coll") else None
    return (ent["wm"] if ent and ent["wm"] else DEFAULT_WM,
            ent["lim"] if ent and ent["lim"] else (unhex(old["lo"]), unhex(old["hi"])))


def candidates(prog, i, wms):
    """The configured (width modifier, limits) of pool prior i: those of one of the places it really occupies. A prior's
    own width modifier overrides the configured one."""
    pl = {}
    places(prog["root"], pl)
    pairs = [place_config(prog, p, i) for p in pl.get(i, [])]
    if str(i) in (wms or {}):
        w = wms[str(i)]
        pairs = [((w["type"], unhex(w["value"])), lim) for _, lim in pairs]
    return pairs


def shared_with_different_config(prog, wms):
    """Pool priors that occupy several places configured under different (class, name) keys."""
    pl = {}
    places(prog["root"], pl)
    return [i for i, ps in pl.items() if len({(p[1], p[2]) for p in ps}) > 1]


def tightened(spec, lim):
    lo, hi = (unhex(x) for x in lim)
    return max(lo, unhex(spec["lo"])), min(hi, unhex(spec["hi"]))


def unary_over_prior(e):
    """Does the composition hold a unary arithmetic prior (-x, abs(x), or the -y inside x - y) whose operand -- through
    further unary forms -- is a prior?  (Its `cls` does not exist: finding modified-prior-cls.)"""
    t = e["t"]

    def clsless(x):
        return x["t"] == "prior" or (x["t"] == "unary" and clsless(x["a"]))
    if t == "unary":
        return clsless(e["a"]) or unary_over_prior(e["a"])
    if t == "arith":
        if e["op"] == "-":
            neg = e["r"] if e["l"]["t"] == "const" else (e["r"] if e["r"]["t"] != "const" else None)
            if neg is not None and clsless(neg):
                return True
        return unary_over_prior(e["l"]) or unary_over_prior(e["r"])
    return any(unary_over_prior(ch) for ch in C01.children(e))


def classes_of(c):
    """Finding classes, computed from the case alone."""
    prog, mode = c["program"], c["mode"]
    out = ["mode:" + mode["k"]] + ["feature:" + f for f in prog["features"]]
    if mode["k"] == "means" and unary_over_prior(prog["root"]):
        out.append("modified-prior-over-prior")
    k = mode["k"]
    n = len(prog["pool"])
    if k == "bounded":
        b = unhex(mode["b"])
        if b > 0 and any(unhex(f) - b >= unhex(f) + b for f in mode["floats"][:n]):
            out.append("bounded-absorbed")
    return out


def gen_value(rng, spec, nonneg):
    lo, hi = unhex(spec["lo"]), unhex(spec["hi"])
    r = rng.random()
    if r < 0.35:
        v = lo + (hi - lo) * rng.randint(0, 16) / 16.0
    elif r < 0.5:
        v = rng.randint(-64, 64) / 8.0
    elif r < 0.62:
        v = rng.uniform(-100.0, 100.0)
    elif r < 0.70:
        v = 0.0
    elif r < 0.73:
        v = -0.0
    elif r < 0.80:
        v = rng.choice([1e300, -1e300, 1e-300, -1e-300, 2.0 ** 60, -2.0 ** 60, 1.7e308])
    elif r < 0.9:
        v = -abs(rng.uniform(0.0, 10.0))
    else:
        v = rng.uniform(lo, hi)
    if nonneg:
        v = abs(v)
    return v


def gen_width(rng):
    r = rng.random()
    if r < 0.7:
        return rng.choice([0.25, 0.5, 1.0, 2.0, 0.1, 3.0])
    if r < 0.85:
        return rng.uniform(0.0, 5.0)
    if r < 0.92:
        return 0.0
    if r < 0.96:
        return rng.choice([1e-300, 1e300, 2.0 ** -60])
    return -rng.choice([0.5, 1.0])


def gen_new_spec(rng):
    fam = rng.choice(["uniform", "gaussian", "loguniform"])
    lo = rng.randint(-8, 8) / 4.0
    w = rng.randint(1, 16) / 4.0
    if fam == "uniform":
        s = {"family": "uniform", "lo": lo.hex(), "hi": (lo + w).hex()}
    elif fam == "gaussian":
        s = {"family": "gaussian", "mean": (lo + w / 2).hex(), "sigma": (w / 4).hex(), "lo": lo.hex(), "hi": (lo + w).hex()}
    else:
        lo = abs(lo) + 0.25
        s = {"family": "loguniform", "lo": lo.hex(), "hi": (lo + w).hex()}
    if rng.random() < 0.2:
        s["wm"] = {"type": rng.choice(["Absolute", "Relative"]), "value": rng.choice([0.25, 0.5, 2.0]).hex()}
    return s


def walk_models(e, f):
    """Apply f to every model / collection node of a program (copies denote their source and are not visited)."""
    t = e["t"]
    if t == "model":
        f(e)
        for sub in e["kw"].values():
            if sub["t"] in ("model", "coll"):
                walk_models(sub, f)
    elif t == "coll":
        f(e)
        for _, sub in e["items"]:
            if sub["t"] in ("model", "coll"):
                walk_models(sub, f)


def used_refs(e, out):
    t = e["t"]
    if t == "prior":
        out.add(e["ref"])
    elif t == "arith":
        used_refs(e["l"], out), used_refs(e["r"], out)
    elif t == "unary":
        used_refs(e["a"], out)
    elif t == "tuple":
        for m in e["members"]:
            used_refs(m, out)
    elif t == "model":
        for sub in e["kw"].values():
            used_refs(sub, out)
        for _, sub in e.get("extra", []):
            used_refs(sub, out)
    elif t == "coll":
        for _, sub in e["items"]:
            used_refs(sub, out)


def renumber(prog):
    """Drop pool priors that are no longer used and renumber the references (creation order is kept)."""
    used = set()
    used_refs(prog["root"], used)
    keep = sorted(used)
    new = {old: i for i, old in enumerate(keep)}

    def ren(e):
        t = e["t"]
        if t == "prior":
            e["ref"] = new[e["ref"]]
        elif t == "arith":
            ren(e["l"]), ren(e["r"])
        elif t == "unary":
            ren(e["a"])
        elif t == "tuple":
            for m in e["members"]:
                ren(m)
        elif t == "model":
            for sub in e["kw"].values():
                ren(sub)
            for _, sub in e.get("extra", []):
                ren(sub)
        elif t == "coll":
            for _, sub in e["items"]:
                ren(sub)
    ren(prog["root"])
    prog["pool"] = [prog["pool"][old] for old in keep]


EXTRA_KINDS = ["int", "str", "none", "obj", "bool"]


def specialise(prog, rng):
    """Post-processing of a modelgen program (modelgen.py is shared): (1) N1(inner: G2, s) components become
    KN(inner: K2 | K2S, s, a), whose attribute names collide with those of the child and whose configuration differs,
    sometimes with one prior shared between parent and child; (2) some priors become log-gaussian; returns the
    non-float constants to be set on collections: [[path of the collection, key, kind]]."""
    feats = set(prog["features"])

    def convert(e):
        if e["t"] != "model" or e["cls"] != "N1" or rng.random() < 0.4:
            return
        inner = e["kw"]["inner"]
        inner["cls"] = "K2S" if rng.random() < 0.3 else "K2"
        inner["kw"] = {"a": inner["kw"]["a"], "s": inner["kw"]["b"]}
        e["cls"] = "KN"
        feats.add("parent-child-same-names")
        q = rng.random()
        if q < 0.45 and inner["kw"]["a"]["t"] == "prior":
            e["kw"]["s"] = dict(inner["kw"]["a"])          # KN.s and inner.a are one prior
            feats.update(["shared", "parent-child-shared"])
        elif q < 0.6 and inner["kw"]["s"]["t"] == "prior":
            e["kw"]["s"] = dict(inner["kw"]["s"])
            feats.update(["shared", "parent-child-shared"])
        q = rng.random()
        if q < 0.3 and e["kw"]["s"]["t"] == "prior":
            e["kw"]["a"] = dict(e["kw"]["s"])
            feats.add("shared")
        elif q < 0.5 and inner["kw"]["a"]["t"] == "prior":
            e["kw"]["a"] = dict(inner["kw"]["a"])
            feats.update(["shared", "parent-child-shared"])
        else:
            e["kw"]["a"] = {"t": "const", "v": (rng.randint(-8, 8) / 4.0).hex()}
            feats.add("const")
    walk_models(prog["root"], convert)
    renumber(prog)

    def rekey(e):
        # priors held directly by a named collection, and list-style collections (number-named priors) held under a name,
        # get keys for which ModelInstance is configured (harness/config/priors/autofit/mapper/model.yaml)
        if e["t"] != "coll" or e["form"] not in ("dict", "kwargs"):
            return
        free = [k for k in ("g", "lens", "one") if k not in [k2 for k2, _ in e["items"]]]
        for item in e["items"]:
            sub = item[1]
            direct = sub["t"] == "prior"
            numbered = sub["t"] == "coll" and sub["form"] in ("list", "append") and any(x["t"] == "prior" for _, x in sub["items"])
            if (direct or numbered) and free and item[0] != "copy" and rng.random() < 0.7:
                item[0] = free.pop(rng.randrange(len(free)))
                feats.add("configured-collection-key")
    walk_models(prog["root"], rekey)
    for spec in prog["pool"]:
        if spec["family"] in ("loguniform", "gaussian") and rng.random() < 0.2:
            lo = abs(unhex(spec["lo"])) + 0.25
            hi = lo + (unhex(spec["hi"]) - unhex(spec["lo"]))
            spec.clear()
            spec.update({"family": "loggaussian", "mean": (0.5).hex(), "sigma": (0.5).hex(), "lo": lo.hex(), "hi": hi.hex()})
            feats.add("loggaussian")
    extras = []

    def add_extras(e, path=()):
        if e["t"] == "coll":
            if rng.random() < 0.3:
                for kind in rng.sample(EXTRA_KINDS, rng.choice([1, 1, 2])):
                    extras.append([list(path), "x_" + kind, kind])
                feats.add("nonfloat-constant-in-collection")
            for k, sub in e["items"]:
                add_extras(sub, path + (k,))
        elif e["t"] == "model":
            for arg, kind, _ in MG.SIGNATURES[e["cls"]]:
                if kind == "class":
                    add_extras(e["kw"][arg], path + (arg,))
    add_extras(prog["root"])
    prog["features"] = sorted(feats)
    return extras


def strip_extras(t):
    """Remove the x_* constants (set by `extras`) from an abstracted model tree or instance."""
    if isinstance(t, dict):
        out = {}
        for k, v in t.items():
            if k in ("attrs", "fields") and isinstance(v, list):
                out[k] = [[n, strip_extras(c)] for n, c in v if not str(n).startswith("x_")]
            else:
                out[k] = strip_extras(v)
        return out
    if isinstance(t, list):
        return [strip_extras(x) for x in t]
    return t


def gen_case(ctx, thorough):
    rng = ctx.rng
    while True:
        g = MG.Gen(rng, max_depth=rng.choice([1, 2, 2, 3] if thorough else [1, 2, 2]),
                   big_tuples=rng.random() < (0.25 if thorough else 0.1),
                   families=("uniform", "uniform", "gaussian", "loguniform"),
                   more_ops=rng.random() < 0.4, pow_ops=False)     # - neg abs % // (ModelTree: NUn, OMod, OFloorDiv)
        prog = g.program()
        extras = specialise(prog, rng)
        n = len(prog["pool"])
        if 1 <= n <= (40 if thorough else 24):
            break
    pool = prog["pool"]
    wms = {}
    for i in range(n):
        if rng.random() < 0.08:
            wms[str(i)] = {"type": rng.choice(["Absolute", "Relative"]), "value": rng.choice([0.25, 0.5, 1.0, 2.0]).hex()}
    nonneg = rng.random() < 0.55
    values = [gen_value(rng, s, nonneg) for s in pool]
    for _ in range(20):     # a probe vector inside the limits at which no arithmetic prior divides by zero
        probe = [(unhex(s["lo"]) + (unhex(s["hi"]) - unhex(s["lo"])) * rng.randint(1, 15) / 16.0) for s in pool]
        if not C01.has_division_by_zero(prog["root"], probe):
            break
    r = rng.random()
    c = {"program": prog, "wms": wms, "probe": [v.hex() for v in probe], "extras": extras}
    lenmod = rng.random()

    def vec(vs):
        vs = list(vs)
        if lenmod < 0.04 and len(vs) > 1:
            vs = vs[:-1]
        elif lenmod < 0.08:
            vs = vs + [1.5]
        return [v.hex() for v in vs]
    if r < 0.30:
        c["mode"] = {"k": "means", "a": None, "r": None, "no_limits": rng.random() < 0.12, "means": vec(values)}
    elif r < 0.32:      # both widths at once: refused
        c["mode"] = {"k": "means", "a": (0.5).hex(), "r": (0.25).hex(), "no_limits": False, "means": vec(values)}
    elif r < 0.44:
        c["mode"] = {"k": "means", "a": gen_width(rng).hex(), "r": None, "no_limits": rng.random() < 0.1, "means": vec(values)}
    elif r < 0.60:
        c["mode"] = {"k": "means", "a": None, "r": gen_width(rng).hex(), "no_limits": rng.random() < 0.1, "means": vec(values)}
    elif r < 0.73:
        c["mode"] = {"k": "bounded", "b": gen_width(rng).hex(), "floats": vec(values)}
    elif r < 0.84:
        lims = []
        for s in pool:
            lo, hi = unhex(s["lo"]), unhex(s["hi"])
            w = hi - lo
            q = rng.random()
            if q < 0.5:
                a_, b_ = lo + w * rng.randint(0, 7) / 16.0, hi - w * rng.randint(0, 7) / 16.0
            elif q < 0.7:
                a_, b_ = lo - w * rng.randint(0, 8) / 8.0, hi + w * rng.randint(0, 8) / 8.0
            elif q < 0.85:
                a_, b_ = lo + w / 2, hi + w
            elif q < 0.93:
                a_, b_ = hi + 1.0, hi + 2.0
            else:
                a_, b_ = hi, lo
            lims.append([a_.hex(), b_.hex()])
        if lenmod < 0.05 and len(lims) > 1:
            lims = lims[:-1]
        c["mode"] = {"k": "limits", "limits": lims}
    elif r < 0.93:
        m = []
        for i in rng.sample(range(n), rng.randint(1, max(1, min(n, 4)))):
            if rng.random() < 0.2 and n > 1:
                m.append([i, {"pool": rng.randrange(n)}])
            else:
                m.append([i, {"new": gen_new_spec(rng)}])
        c["mode"] = {"k": "replace", "map": m, "foreign": rng.random() < 0.15}
    elif not C01.has_division_by_zero(prog["root"], probe):
        c["mode"] = {"k": "fixed", "vec": [v.hex() for v in probe]}
    else:
        c["mode"] = {"k": "means", "a": (0.5).hex(), "r": None, "no_limits": False, "means": vec(values)}
    # through a search result: samples keyed by paths (as searches produce them), without a median sample (maximum
    # likelihood searches), keyed by parameter names (as read back from samples.csv; only when every path is a name)
    c["via_result"] = rng.choice([False, False, "paths", "paths", "no-median", "names"]) if c["mode"]["k"] in ("means", "bounded") else False
    # searches freeze the model while fitting; mapper_from_* explicitly support a frozen model (copy_with_fixed_priors
    # deep-copies the frozen flag and then refuses to modify the copy: a frozen model is immutable by contract, not generated)
    c["frozen"] = c["mode"]["k"] != "fixed" and rng.random() < 0.2
    c["new_probe"] = new_probe(c)
    return c


def sigma_map(c):
    """old pool index -> index of the prior that takes its place (indices follow creation order, hence id order)."""
    n = len(c["program"]["pool"])
    mode = c["mode"]
    k = mode["k"]
    if k in ("means", "bounded"):
        return {i: i for i in range(n)}
    if k == "limits":
        return {i: n + i for i in range(n)}
    if k == "replace":
        s = {i: i for i in range(n)}
        fresh = n
        for old, new in mode["map"]:
            if "pool" in new:
                s[old] = new["pool"]
            else:
                s[old] = fresh
                fresh += 1
        return s
    return {}


def new_probe(c):
    s = sigma_map(c)
    if not s:
        return None
    probe = c["probe"]
    inv = {}
    for i, t in s.items():
        inv.setdefault(t, []).append(i)
    if any(len(v) > 1 for v in inv.values()):
        return None
    return [probe[inv[t][0]] for t in sorted(inv)]


def spec_num(s):
    d = {"family": s["family"], "lo": unhex(s["lo"]), "hi": unhex(s["hi"])}
    if s["family"] == "gaussian":
        d["mean"], d["sigma"] = unhex(s["mean"]), unhex(s["sigma"])
    d["vf"] = s.get("vf")
    d["median"] = s.get("median")
    d["wm"] = None if not s.get("wm") else (s["wm"]["type"], unhex(s["wm"]["value"]))
    return d


def same_float(a, b):
    return a == b or (a != a and b != b)


def expect_success(c):
    """None when the passing call must succeed; otherwise the reason why an exception is the correct outcome
    (the caller supplied an impossible width / limits / a vector of the wrong length)."""
    prog, mode = c["program"], c["mode"]
    n = len(prog["pool"])
    k = mode["k"]
    if k == "means":
        if len(mode["means"]) < n:
            return "fewer means than parameters"
        if mode["a"] is not None and unhex(mode["a"]) < 0:
            return "negative absolute width supplied"
        if mode["r"] is not None and unhex(mode["r"]) < 0:
            return "negative relative width supplied"
        if mode["a"] is not None and mode["r"] is not None:
            return "both an absolute and a relative width supplied"
        return None
    if k == "bounded":
        if len(mode["floats"]) < n:
            return "fewer values than parameters"
        if not unhex(mode["b"]) > 0:
            return "bound is not positive"
        return None
    if k == "limits":
        if len(mode["limits"]) < n:
            return "fewer limits than parameters"
        for s, (lo, hi) in zip(prog["pool"], mode["limits"]):
            lo, hi = unhex(lo), unhex(hi)
            if s["family"] in ("uniform", "loggaussian"):
                if max(lo, unhex(s["lo"])) >= min(hi, unhex(s["hi"])):
                    return "requested limits do not intersect the prior's range"
            elif s["family"] == "gaussian":
                if hi < lo:
                    return "requested limits are reversed"
            else:
                if max(0.000001, lo) >= hi:
                    return "requested limits are empty"
        return None
    return None


KNOWN_BY_MESSAGE = [
    # (prefix of the oracle message, finding class that can explain it, required exception or None)
    ("passing raised", "bounded-absorbed", "PriorException"),
    ("passing raised", "modified-prior-over-prior", "AttributeError"),
]


def relevant_classes(msg, c, r):
    """Finding classes (computed from the case) that can explain this particular failure."""
    cls = classes_of(c)
    keep = [x for x in cls if x.startswith(("feature:", "mode:"))]
    exc = r["out"].get("exc") if isinstance(r, dict) and "out" in r else None
    for prefix, label, need in KNOWN_BY_MESSAGE:
        if msg.startswith(prefix) and label in cls and (need is None or need == exc):
            keep.append(label)
    return keep


def oracle(c, r):
    """The property statement evaluated directly on the implementation's outputs (independent of the Coq model).
    Returns every failure found (so that a recorded finding cannot hide another failure of the same case)."""
    prog, mode = c["program"], c["mode"]
    pool = prog["pool"]
    n = len(pool)
    k = mode["k"]
    orig = r["orig"]
    if not r["id_order_ok"]:
        return ["harness: pool ids not increasing"]
    if r.get("extras_set") is False:
        return ["harness: the non-float constants could not be set on the original model"]
    out = r["out"]
    why = expect_success(c)
    if "exc" in out:
        if why is None:
            return ["passing raised %s although every input is admissible" % out["exc"]]
        if k == "limits" and "fewer" not in why and out["exc"] not in ("PriorException", "MessageException"):
            return ["unsatisfiable limits raised %s" % out["exc"]]
        if out["exc"] not in EXC:
            return ["inadmissible input (%s) raised %s, which is none of the library's / Python's lookup errors" % (why, out["exc"])]
        return []
    if why is not None and not (k in ("means", "bounded") and "supplied" in why and "both" not in why or "not positive" in (why or "")):
        # limits that cannot be satisfied / too few values / two widths at once must not silently produce a model
        return ["passing succeeded although %s" % why]
    new = out["ok"]
    fails = []
    if not r.get("orig_unchanged", True):
        fails.append("the original model was modified by the passing call")
    if k == "fixed":
        if new["count"] != 0:
            fails.append("fixed model still has %d free parameters" % new["count"])
        if "ok" not in new["inst"]:
            fails.append("fixed model cannot be instantiated: %s" % new["inst"].get("exc"))
        else:
            if not C01.same_inst(new["inst"]["ok"], new["best_fit"]):
                fails.append("fixed model does not reproduce the best-fit instance")
            vec = [unhex(x) for x in mode["vec"]]
            if not C01.has_division_by_zero(prog["root"], vec) and not C01.same_inst(C01.expected_instance(prog["root"], vec), new["inst"]["ok"]):
                fails.append("fixed model differs from the composition evaluated at the best-fit vector")
        if any(not e[3] for e in r.get("extras", [])):
            fails.append("the fixed model lost the non-float constants %s of its collections" % [e[:3] for e in r["extras"] if not e[3]])
        return fails
    s = sigma_map(c)
    # 1. same paths; each path holds the prior that takes the place of the prior that was there
    if sorted(map(tuple, new["paths"])) != sorted(map(tuple, orig["paths"])):
        return fails + ["the new model advertises different paths: %s vs %s" % (sorted(map(tuple, new["paths"]))[:6], sorted(map(tuple, orig["paths"]))[:6])]
    if not new["paths_resolve"]:
        fails.append("an advertised path of the new model does not resolve to its prior")
    newpp = {}
    for p, q in new["path_priors"]:
        newpp.setdefault(tuple(p), []).append(q)
    for p, q in orig["path_priors"]:
        if newpp.get(tuple(p)) != [s[q]]:
            return fails + ["path %s held parameter %d and now holds %s (expected %d)" % (".".join(p), q, newpp.get(tuple(p)), s[q])]
    # 2. count and order
    exp_ids = sorted(set(s.values()))
    if new["ids"] != exp_ids:
        return fails + ["parameter order of the new model is %s, expected %s" % (new["ids"], exp_ids)]
    if new["count"] != len(exp_ids):
        fails.append("parameter count %d, expected %d" % (new["count"], len(exp_ids)))
    # 3. the prior on each parameter is the one derived from that parameter's own value
    specs = {q: spec_num(sp) for q, sp in new["priors"]}
    shared_diff = set(shared_with_different_config(prog, c.get("wms"))) if k == "means" else set()
    for i in range(n):
        sp = specs[s[i]]
        old = spec_num(orig["specs"][i])
        if sp["lo"] >= sp["hi"]:
            fails.append("parameter %d: new prior has empty limits" % i)
        if k == "means":
            m = unhex(mode["means"][i])
            if sp["family"] != "gaussian" or not same_float(sp["mean"], m):
                fails.append("parameter %d: new prior %s is not a Gaussian centred on its own inferred value %r" % (i, sp, m))
                continue
            if sp["sigma"] < 0:
                fails.append("parameter %d: negative width %r" % (i, sp["sigma"]))
            if sp["median"] and 0 < sp["sigma"] < 1e300 and abs(m) < 1e300 and not (
                    sp["median"].startswith(("0x", "-0x")) and unhex(sp["median"]) == m):
                fails.append("parameter %d: the median of the new prior is %s, not its inferred value %r" % (i, sp["median"], m))
            ok = False
            for w, lim in candidates(prog, i, c.get("wms")):
                if mode["a"] is not None:
                    wok = same_float(sp["sigma"], unhex(mode["a"]))
                elif mode["r"] is not None:
                    wok = same_float(sp["sigma"], abs(unhex(mode["r"]) * m))
                else:
                    wok = same_float(sp["sigma"], apply_wm(w, m))
                lok = (sp["lo"], sp["hi"]) == ((-INF, INF) if mode.get("no_limits") else lim)
                ok = ok or (wok and lok)
            if not ok:
                head = "configuration of a shared prior: " if i in shared_diff else ""
                fails.append("%sparameter %d: width %r and limits %r for value %r are not the configured / requested ones of any place "
                             "it occupies %s" % (head, i, sp["sigma"], (sp["lo"], sp["hi"]), m, candidates(prog, i, c.get("wms"))))
            if sp["wm"] != old["wm"]:
                fails.append("parameter %d: width modifier of the prior was not carried over" % i)
        elif k == "bounded":
            f, b = unhex(mode["floats"][i]), unhex(mode["b"])
            if sp["family"] != "uniform" or not same_float(sp["lo"], f - b) or not same_float(sp["hi"], f + b):
                fails.append("parameter %d: new prior %s is not Uniform(%r - %r, %r + %r)" % (i, sp, f, b, f, b))
        elif k == "limits":
            lo, hi = (unhex(x) for x in mode["limits"][i])
            if sp["family"] != old["family"]:
                fails.append("parameter %d: with_limits changed the prior family" % i)
            if old["family"] == "uniform":
                if not (sp["lo"] == max(lo, old["lo"]) and sp["hi"] == min(hi, old["hi"])):
                    fails.append("parameter %d: limits %r are not the intersection of %r and %r" % (i, (sp["lo"], sp["hi"]), (lo, hi), (old["lo"], old["hi"])))
                bad = [v for v in (sp["vf"] or []) if v in EXC or v.endswith("Exception") or v.endswith("Error")
                       or not (sp["lo"] <= unhex(v) <= sp["hi"])]
                if bad:
                    fails.append("tightened prior does not map the unit interval into its limits: parameter %d with limits %r maps "
                                 "u = 0.1, 0.5, 0.9 to %s" % (i, (sp["lo"], sp["hi"]), sp["vf"]))
            elif old["family"] == "gaussian":
                if sp["sigma"] < 0:
                    fails.append("parameter %d: negative width" % i)
        elif k == "replace":
            want = None
            for o, nw in mode["map"]:
                if o == i:
                    want = spec_num(nw["new"]) if "new" in nw else spec_num(orig["specs"][nw["pool"]])
            if want is None:
                want = old
            if any(sp[key] != want[key] for key in want if key not in ("vf", "median")):
                fails.append("parameter %d: prior %s is not the replacement %s" % (i, sp, want))
    # 4. structure, sharing, fixed values: the new model builds the same instance from the same values
    probe = [unhex(x) for x in c["probe"]]
    if c.get("new_probe") is not None and "new_inst" in r and not C01.has_division_by_zero(prog["root"], probe):
        if "ok" not in r["new_inst"]:
            fails.append("the new model cannot be instantiated: %s" % r["new_inst"].get("exc"))
        elif not C01.same_inst(C01.expected_instance(prog["root"], probe), r["new_inst"]["ok"]):
            fails.append("the new model does not build the instance the composition denotes (structure / sharing / constants changed)")
    lost = [e[:3] for e in r.get("extras", []) if not (e[3] and e[4])]
    if lost:
        fails.append("the new model lost the non-float constants %s held directly by its collections" % lost)
    # 5. the same through a search result
    vr = r.get("via_result")
    if vr is not None:
        if "ok" not in vr:
            fails.append("result.model route (%s samples) raised %s: %s" % (c.get("via_result"), vr.get("exc"), vr.get("msg")))
        elif vr["ok"] is not None and (vr["ok"]["tree"] != new["tree"] or vr["ok"]["priors"] != new["priors"] or vr["ok"]["paths"] != new["paths"]):
            fails.append("result.model_* (%s samples) differs from model.mapper_from_* on the same values" % c.get("via_result"))
    # 6. hidden structure: every collection still knows how many items it holds
    if sorted(map(lambda x: (tuple(x[0]), x[1]), new["item_numbers"])) != sorted(map(lambda x: (tuple(x[0]), x[1]), orig["item_numbers"])):
        fails.append("the collections of the new model forgot their item counter %s -> %s (a later append overwrites an existing component)" % (
            orig["item_numbers"][:4], new["item_numbers"][:4]))
    return fails


# ---------------------------------------------------------------------------
# sessions: prior passing from stateful results (caches of SamplesSummary / Result; child results of combined and
# free-parameter analyses made by subsamples()), whatever was read from the parent or the child before
# ---------------------------------------------------------------------------
PARENT_READS = ["maxl_vec", "median_vec", "prior_means", "maxl_inst", "instance", "max_log_likelihood_instance", "paths", "names",
                "model", "model_absolute", "model_relative", "model_bounded", "subsamples_other"]
CHILD_READS = ["maxl_vec", "prior_means", "maxl_inst", "instance", "paths", "model", "model_absolute", "model_bounded"]
INSTANCE_READS = ("instance", "max_log_likelihood_instance")


def session_value(rng, spec, i):
    """A moderate inferred value of any sign (extremes are covered by the stateless cases); made distinct per position."""
    lo, hi = unhex(spec["lo"]), unhex(spec["hi"])
    q = rng.random()
    if q < 0.35:
        v = lo + (hi - lo) * rng.randint(0, 16) / 16.0
    elif q < 0.6:
        v = rng.randint(-64, 64) / 8.0
    elif q < 0.8:
        v = -abs(rng.uniform(0.0, 10.0))
    elif q < 0.85:
        v = 0.0
    else:
        v = rng.uniform(-100.0, 100.0)
    return v + (i + 1) / 1024.0 if v != 0.0 or rng.random() < 0.5 else v


def root_prior_args(e):
    """Names of the float arguments of a Model root that hold a pool prior: [(name, ref)]."""
    if e["t"] != "model":
        return []
    return [(arg, e["kw"][arg]["ref"]) for arg, kind, _ in MG.SIGNATURES[e["cls"]]
            if kind not in ("tuple", "class") and e["kw"][arg]["t"] == "prior"]


def gen_session(ctx, thorough):
    rng = ctx.rng
    while True:
        g = MG.Gen(rng, max_depth=rng.choice([1, 2, 2, 3] if thorough else [1, 2, 2]), big_tuples=False,
                   families=("uniform", "uniform", "gaussian", "loguniform"))
        prog = g.program()
        specialise(prog, rng)
        n = len(prog["pool"])
        # no division: instance reads of a session evaluate arithmetic priors at the inferred values (a zero divisor is
        # an error of the instance, not of prior passing; division is covered by the stateless cases at a probe vector)
        if 1 <= n <= 16 and '"op": "/"' not in json.dumps(prog["root"]):
            break
    pool = prog["pool"]
    c = {"kind": "session", "program": prog}
    q = rng.random()
    if q < 0.4:
        c["shape"] = "free"
        c["free"] = rng.sample(range(n), rng.choice([1, 1, 2]) if n > 1 else 1)
        c["n_children"] = rng.choice([2, 2, 3])
    elif q < 0.7:
        c["shape"] = "renamed"
        args = root_prior_args(prog["root"])
        refs = [r_ for _, r_ in args]
        if len(set(refs)) >= 2 and rng.random() < 0.8:
            k = rng.randrange(1, len(args))
            # the joint model exposes the component's parameters directly, under each other's names
            c["rename"] = [[args[i][0], refs[(i + k) % len(refs)]] for i in range(len(args))]
        else:
            c["rename"] = [["x%d" % i, rng.randrange(n)] for i in range(rng.choice([1, 2]))]
    else:
        c["shape"] = "items"
    if c["shape"] == "items" and prog["root"]["t"] != "coll":          # a Model root: its children are made by the library
        c["shape"] = "free"
        c["free"] = rng.sample(range(n), rng.choice([1, 1, 2]) if n > 1 else 1)
        c["n_children"] = rng.choice([2, 2, 3])
    nv = n + 8
    c["maxl"] = [session_value(rng, pool[i % n], i).hex() for i in range(nv)]
    med = [session_value(rng, pool[i % n], i) for i in range(nv)]
    c["median"] = [(m + 0.125 if m.hex() == x else m).hex() for m, x in zip(med, c["maxl"])]
    c["no_median"] = rng.random() < 0.15
    c["top"] = rng.random() < 0.7
    c["chain"] = [rng.randrange(1000)] + ([rng.randrange(1000)] if rng.random() < 0.25 else [])
    c["route"] = rng.choice(["make_result", "make_result", "subsamples"])

    def reads(pool_, k):
        ops = [rng.choice(pool_) for _ in range(k)]
        return [o for o in ops if not (c["no_median"] and o == "median_vec")]
    c["chain_reads"] = reads(CHILD_READS, rng.choice([0, 1, 2])) if len(c["chain"]) > 1 else []
    steps = [["P", o] for o in reads(PARENT_READS, rng.choice([0, 1, 1, 2, 3]))]
    steps.append(["mk", c["route"]])
    for _ in range(rng.choice([0, 0, 1, 2])):
        t = rng.choice(["P", "C", "C"])
        steps += [[t, o] for o in reads(PARENT_READS if t == "P" else CHILD_READS, 1)]
    c["steps"] = steps
    q = rng.random()
    if q < 0.3:
        c["mode"] = {"k": "means", "a": None, "r": None}
    elif q < 0.5:
        c["mode"] = {"k": "means", "a": rng.choice([0.25, 0.5, 1.0, 2.0, 0.0]).hex(), "r": None}
    elif q < 0.7:
        c["mode"] = {"k": "means", "a": None, "r": rng.choice([0.25, 0.5, 1.0, 0.0]).hex()}
    else:
        c["mode"] = {"k": "bounded", "b": rng.choice([0.25, 0.5, 1.0, 3.0]).hex()}
    return c


def session_classes(c):
    """Finding classes of a session, computed from the case alone."""
    out = ["session", "shape:" + c["shape"], "mode:" + c["mode"]["k"]]
    before, made = [], False
    for t, o in c["steps"]:
        if t == "mk":
            made = True
        elif t == "P" and not made:
            before.append(o)
    if before:
        out.append("parent-read-before-children")
    # SamplesSummary.subsamples copies the summary: an instance cached on the parent (or on an intermediate child of a
    # chain) before the copy is made travels with it
    if any(o in INSTANCE_READS for o in before) or any(o in INSTANCE_READS for o in c.get("chain_reads") or []):
        out.append("instance-cached-before-subsamples")
    return out


def session_oracle(c, r):
    """The property on a session: [(message, observable the message is about)]. Independent of the Coq model: every
    value is compared with the joint vector by parameter identity."""
    fails = []
    if not r.get("enough_values"):
        return [("harness: not enough values for the joint model (%s parameters)" % r.get("n_joint"), "harness")]
    if not r.get("n_candidates") or "orig" not in r:
        bad = [e for e in r.get("log", []) if "exc" in e[2]]
        return [("session: %s %s raised %s: %s" % (e[0], e[1], e[2]["exc"], e[2].get("msg")), "log") for e in bad]
    nj = r["n_joint"]
    maxl, med = c["maxl"][:nj], c["median"][:nj]
    means_j = maxl if c["no_median"] else med
    tj = r["to_joint"]
    if any(j < 0 for j in tj):
        return [("a parameter of the child model is not a parameter of the joint model", "harness")]
    want_max = [maxl[j] for j in tj]
    want_means = [means_j[j] for j in tj]
    want = {"P": {"vec": maxl, "means": means_j}, "C": {"vec": want_max, "means": want_means}}
    for t, o, res in r["log"]:
        who = {"P": "the joint result", "C": "the child result", "mk": "making the child results"}[t]
        if "exc" in res:
            fails.append(("reading %s of %s raised %s: %s" % (o, who, res["exc"], (res.get("msg") or "")[-120:]), "log"))
            continue
        got = res["ok"] or {}
        if t in want:
            exp = dict(want[t])
            if o == "median_vec":
                exp["vec"] = med if t == "P" else [med[j] for j in tj]
            for key in ("vec", "means"):
                if key in got and got[key] != exp[key]:
                    fails.append(("%s read from %s is %s, inferred %s" % (o, who, got[key][:6], exp[key][:6]), "log"))
            if "other_means" in got and got["other_means"] != [means_j[j] for j in got["other_to_joint"]]:
                fails.append(("prior means of another child made from %s are %s, the values inferred for its parameters are %s" % (
                    who, got["other_means"][:6], [means_j[j] for j in got["other_to_joint"]][:6]), "log"))
    if not r.get("child_is_model"):
        fails.append(("the child result is not a result for the child model", "child"))
    for key, exp, what in (("vec_maxl", want_max, "best-fit vector"), ("vec_means", want_means, "prior means")):
        got = r[key]
        if "exc" in got:
            fails.append(("%s of the child result raised %s: %s" % (what, got["exc"], got.get("msg")), key))
        elif got["ok"] != exp:
            fails.append(("%s of the child result are %s, the values inferred for its parameters are %s" % (what, got["ok"][:6], exp[:6]), key))
    pa = r["parent_after"]
    if "exc" in pa:
        fails.append(("the joint summary no longer answers after its children were made: %s %s" % (pa["exc"], pa.get("msg")), "parent_after"))
    elif pa["ok"]["maxl"] != maxl or pa["ok"]["means"] != means_j or not pa["ok"]["model_is_joint"]:
        fails.append(("the joint summary changed when its children were made / read", "parent_after"))
    # the passing call on the child
    mode = c["mode"]
    k = mode["k"]
    out = r["out"]
    orig = r["orig"]
    if "exc" in out:
        b = unhex(mode["b"]) if k == "bounded" else None
        absorbed = k == "bounded" and any(unhex(f) - b >= unhex(f) + b for f in want_max)
        if not absorbed:
            fails.append(("prior passing from the child result raised %s although every input is admissible: %s" % (
                out["exc"], (out.get("msg") or "")[-160:]), "out"))
        return fails
    new = out["ok"]
    if sorted(map(tuple, new["paths"])) != sorted(map(tuple, orig["paths"])):
        fails.append(("the model passed from the child result advertises different paths: %s vs %s" % (new["paths"][:5], orig["paths"][:5]), "out"))
        return fails
    if sorted((tuple(p), q) for p, q in new["path_priors"]) != sorted((tuple(p), q) for p, q in orig["path_priors"]):
        fails.append(("a path of the child's passed model holds another parameter than before", "out"))
    if new["ids"] != orig["ids"] or new["count"] != orig["count"]:
        fails.append(("parameter count / order of the child's passed model changed: %s vs %s" % (new["ids"], orig["ids"]), "out"))
    if not new["paths_resolve"]:
        fails.append(("an advertised path of the child's passed model does not resolve to its prior", "out"))
    if not r.get("orig_unchanged", True):
        fails.append(("the child model was modified by the passing call", "out"))
    specs = {q: spec_num(sp) for q, sp in new["priors"]}
    path_of = {}
    for p, q in orig["path_priors"]:
        path_of.setdefault(q, ".".join(p))
    for i in range(len(tj)):
        sp = specs.get(i)
        if sp is None:
            continue
        if k == "means":
            m = unhex(want_means[i])
            if sp["family"] != "gaussian" or not same_float(sp["mean"], m):
                fails.append(("child parameter %d (%s): passed prior %s is not a Gaussian centred on the value inferred for that parameter, %r"
                              % (i, path_of.get(i), {x: sp[x] for x in ("family", "mean", "sigma") if x in sp}, m), "out"))
                continue
            if sp["sigma"] < 0:
                fails.append(("child parameter %d: negative width %r" % (i, sp["sigma"]), "out"))
            if mode["a"] is not None and not same_float(sp["sigma"], unhex(mode["a"])):
                fails.append(("child parameter %d: width %r is not the absolute width requested" % (i, sp["sigma"]), "out"))
            if mode["r"] is not None and not same_float(sp["sigma"], abs(unhex(mode["r"]) * m)):
                fails.append(("child parameter %d: width %r is not r * |value|" % (i, sp["sigma"]), "out"))
        else:
            f, b = unhex(want_max[i]), unhex(mode["b"])
            if sp["family"] != "uniform" or not same_float(sp["lo"], f - b) or not same_float(sp["hi"], f + b):
                fails.append(("child parameter %d (%s): passed prior %s is not Uniform(v - b, v + b) around the value inferred for that parameter, %r"
                              % (i, path_of.get(i), {x: sp[x] for x in ("family", "lo", "hi")}, f), "out"))
    d = r.get("direct")
    if d is not None and not fails:
        if "ok" not in d:
            fails.append(("the stateless passing call on the child model raised %s" % d.get("exc"), "direct"))
        elif d["ok"]["tree"] != new["tree"] or d["ok"]["priors"] != new["priors"] or d["ok"]["paths"] != new["paths"]:
            fails.append(("passing from the child result differs from model.mapper_from_* on the child model with the child's own values "
                          "(widths / limits / structure)", "direct"))
    # components fixed to the best-fit instance: the child's instance is the child model at the child's own values
    inst, iexp = r["inst"], r.get("inst_expected")
    if iexp is not None and "ok" in iexp:
        if "ok" not in inst:
            fails.append(("instance of the child result raised %s: %s" % (inst.get("exc"), inst.get("msg")), "inst"))
        elif not C01.same_inst(iexp["ok"], inst["ok"]):
            fails.append(("instance of the child result is not the child model at the values inferred for its parameters", "inst"))
    return fails


def session_pass_case(c, r):
    """(pseudo case, pseudo result) of the stateless form of the session's final passing call, for the CPass printer:
    the Coq model of prior passing applied to the child model and the child's own values must give what the stateful
    route returned."""
    nj = r["n_joint"]
    maxl, med = c["maxl"][:nj], c["median"][:nj]
    means_j = maxl if c["no_median"] else med
    tj = r["to_joint"]
    mode = c["mode"]
    if mode["k"] == "means":
        m2 = {"k": "means", "a": mode["a"], "r": mode["r"], "no_limits": False, "means": [means_j[j] for j in tj]}
    else:
        m2 = {"k": "bounded", "b": mode["b"], "floats": [maxl[j] for j in tj]}
    return {"program": {"pool": [None] * len(tj)}, "mode": m2, "wms": {}}, {"orig": r["orig"], "out": r["out"]}


def gen_sessions(ctx, thorough):
    return [gen_session(ctx, thorough) for _ in range(2400 if thorough else 200)]


def run_sessions(ctx, sessions):
    """Drive the session cases, apply the oracle, and return the Coq terms (CPass on the child) with their case index."""
    if not sessions:
        return [], []
    chunks = [ch for ch in (sessions[i::common.NCPU] for i in range(common.NCPU)) if ch]
    outs = common.run_impl_parallel("c12_impl", [{"cases": ch} for ch in chunks], timeout=1500)
    results = [None] * len(sessions)
    for ci, o in enumerate(outs):
        if "__error__" in o:
            ctx.obligation("impl-driver-sessions", "harness", False, o["__error__"][-800:])
            return [], []
        for j, r in enumerate(o["results"]):
            results[ci + j * common.NCPU] = r
    terms, idx = [], []
    for i, (c, r) in enumerate(zip(sessions, results)):
        cls = session_classes(c)
        ctx.oracle["cases"] += 1
        if "exc" in r:
            ctx.count_case({"session": c}, False, "session")
            ctx.oracle["failures"] += 1
            ctx.failure("oracle", "session driver raised %s: %s" % (r["exc"], r.get("msg", "")[-300:]), c, classes=cls)
            continue
        r = r["ok"]
        usable = "orig" in r
        pre = "parent-read-before-children" in cls
        ctx.count_case({"session": c}, usable and len(r.get("to_joint", [])) >= 2 and (pre or len(c["steps"]) > 1), "session")
        ctx.hist("session-shape", c["shape"])
        ctx.hist("session-route", str(r.get("route")))
        ctx.hist("session-parent-read-first", pre)
        ctx.hist("session-chain", len(r.get("chain", [])))
        ctx.hist("session-usable", usable)
        for t, o in c["steps"]:
            if t != "mk":
                ctx.hist("session-read", t + ":" + o)
        msgs = session_oracle(c, r)
        for msg, about in msgs:
            ctx.oracle["failures"] += 1
            labels = [x for x in cls if x != "instance-cached-before-subsamples"]
            if about == "inst" and "instance-cached-before-subsamples" in cls:
                labels.append("instance-cached-before-subsamples")
            ctx.failure("oracle", "session: " + msg, c, classes=labels,
                        impl={k_: r.get(k_) for k_ in ("route", "chain", "to_joint", "log", "vec_maxl", "vec_means", "parent_after")}
                        | {"out": r["out"] if "exc" in r.get("out", {}) else {k_: r["out"]["ok"].get(k_) for k_ in ("paths", "ids", "priors")} if "out" in r else None})
        if usable and MG.tree_ok_for_model(r["orig"]["tree"]):
            c2, r2 = session_pass_case(c, r)
            try:
                term = coq_case(c2, r2)
            except Exception:  # noqa
                term = None
            if term is not None:
                terms.append(term)
                idx.append(i)
        if i % 60 == 0:
            ctx.sample({"session": {k_: c[k_] for k_ in ("shape", "steps", "mode", "chain", "route")}, "route": r.get("route"),
                        "n_joint": r.get("n_joint"), "child_parameters": len(r.get("to_joint", []))})
    ctx.session_results = results
    return terms, idx


# ---- Coq printers ---------------------------------------------------------
FAM = {"uniform": "FUniform", "gaussian": "FGaussian", "loguniform": "FLogUniform", "loggaussian": "FLogGaussian"}
EXC = {"MessageException": "EMessage", "PriorException": "EPrior", "IndexError": "EIndex", "KeyError": "EKey", "TypeError": "EType",
       "AttributeError": "EAttr"}


def coq_wm(w):
    if not w:
        return "None"
    return "(Some (%s %s))" % ("WAbs" if w["type"] == "Absolute" else "WRel", cfloat(unhex(w["value"])))


def coq_spec(s):
    lo, hi = unhex(s["lo"]), unhex(s["hi"])
    mean = unhex(s["mean"]) if s["family"] == "gaussian" else lo      # only Gaussians are compared on mean / sigma
    sig = unhex(s["sigma"]) if s["family"] == "gaussian" else lo
    return "(mk %s %s %s %s %s %s)" % (FAM[s["family"]], cfloat(lo), cfloat(hi), cfloat(mean), cfloat(sig), coq_wm(s.get("wm")))


def coq_config():
    items = []
    for (cls, name), e in sorted(CONFIG.items()):
        wm = "None" if e["wm"] is None else "(Some (%s %s))" % ("WAbs" if e["wm"][0] == "Absolute" else "WRel", cfloat(e["wm"][1]))
        lim = "None" if e["lim"] is None else "(Some (%s, %s))" % (cfloat(e["lim"][0]), cfloat(e["lim"][1]))
        items.append("((%s, %s), mkc %s %s)" % (cstr(cls), cstr(name), wm, lim))
    return clist(items)


def coq_opt_float(h):
    return "None" if h is None else "(Some %s)" % cfloat(unhex(h))


def coq_mode(c, r):
    mode = c["mode"]
    n = len(c["program"]["pool"])
    k = mode["k"]
    if k == "means":
        return "(MMeans %s %s %s %s)" % (coq_opt_float(mode["a"]), coq_opt_float(mode["r"]), cbool(mode.get("no_limits")),
                                         clist([cfloat(unhex(x)) for x in mode["means"]]))
    if k == "bounded":
        return "(MBounded %s %s)" % (cfloat(unhex(mode["b"])), clist([cfloat(unhex(x)) for x in mode["floats"]]))
    if k == "limits":
        return "(MLimits %s %s)" % (cnat(n), clist(["(%s, %s)" % (cfloat(unhex(a)), cfloat(unhex(b))) for a, b in mode["limits"]]))
    if k == "replace":
        items = []
        fresh = n
        for old, new in mode["map"]:
            if "pool" in new:
                items.append("(%s, (%s, %s))" % (cnat(old), cnat(new["pool"]), coq_spec(dict(c["program"]["pool"][new["pool"]], wm=(c.get("wms") or {}).get(str(new["pool"]))))))
            else:
                items.append("(%s, (%s, %s))" % (cnat(old), cnat(fresh), coq_spec(new["new"])))
                fresh += 1
        if mode.get("foreign"):
            items.append("(%s, (%s, %s))" % (cnat(n + 900), cnat(n + 901), coq_spec({"family": "uniform", "lo": (0.0).hex(), "hi": (2.0).hex()})))
        return "(MReplace %s)" % clist(items)
    raise ValueError(k)


def coq_case(c, r):
    """Coq term of type `case`, or None when the outcome cannot be expressed (reported by the oracle instead)."""
    mode = c["mode"]
    orig = r["orig"]
    if not MG.tree_ok_for_model(orig["tree"]):
        return None
    out = r["out"]
    if mode["k"] == "fixed":
        if "exc" in out:
            return "(CFixed %s %s None)" % (MG.coq_node(orig["tree"]), clist([cfloat(unhex(x)) for x in mode["vec"]]))
        return "(CFixed %s %s (Some %s))" % (MG.coq_node(orig["tree"]), clist([cfloat(unhex(x)) for x in mode["vec"]]), MG.coq_node(out["ok"]["tree"]))
    specs = clist(["(%s, %s)" % (cnat(i), coq_spec(s)) for i, s in enumerate(orig["specs"])])
    if "exc" in out:
        if out["exc"] not in EXC:
            return None
        o, paths, ids = "(Exc %s)" % EXC[out["exc"]], "[]", "[]"
    else:
        new = out["ok"]
        if any(q < 0 for q, _ in new["priors"]) or any(s["family"] not in FAM for _, s in new["priors"]):
            return None
        o = "(Ok (%s, %s))" % (MG.coq_node(new["tree"]), clist(["(%s, %s)" % (cnat(q), coq_spec(s)) for q, s in new["priors"]]))
        paths = clist([MG.coq_path(p) for p in new["paths"]])
        ids = clist([cnat(q) for q in new["ids"]])
    return "(CPass %s %s the_cfg %s %s %s %s)" % (MG.coq_node(orig["tree"]), specs, coq_mode(c, r), o, paths, ids)


def tree_wf(t):
    """The hypotheses `wf` of the Coq theorems, checked on the abstraction of the live object."""
    k = t["t"]
    if k == "tuple":
        pos = [MG.member_index(n) for n, _ in t["members"]]
        return all(c["t"] in ("prior", "const") for _, c in t["members"]) and len(set(pos)) == len(pos)
    if k == "arith":
        return tree_wf(t["l"]) and tree_wf(t["r"]) and (t["ln"] != t["rn"] or t["l"] == t["r"])
    if k == "unary":
        return tree_wf(t["a"])
    if k == "model":
        return all(tree_wf(c) for _, c in t["attrs"])
    if k == "coll":
        return all(tree_wf(c) and c["t"] != "tuple" for _, c in t["attrs"])
    return k in ("prior", "const")


def nontrivial(c):
    prog = c["program"]
    feats = set(prog["features"])
    return len(prog["pool"]) >= 2 and bool(feats & {"shared", "nested", "tuple", "arith", "const"})


def run(ctx):
    global CONFIG
    CONFIG = load_config()
    thorough = ctx.tier == "thorough"
    ctx.rule = ("C01 composition programs (float / tuple / nested-class arguments, collections from list/dict/kwargs/append, shared priors, "
                "constants, arithmetic priors; uniform, gaussian and log-uniform priors; some priors carrying their own width modifier) x one "
                "passing mode (default widths from the prior config, absolute a, relative r, no_limits, bounded b, with_limits, replacing a "
                "subset by new or existing priors, copy_with_fixed_priors) x inferred vectors of any sign and magnitude (inside limits, negative, "
                "+-0, 1e+-300, 2^60, random) and of wrong length; half of the means/bounded cases also through af.Result; plus session cases "
                "(stateful results: reads of the joint result before / after child results are made by make_result / subsamples, then "
                "prior passing from the child; non-trivial when the child has >= 2 parameters and something was read). Non-trivial: >= 2 "
                "priors and at least one of shared prior, nesting, tuple, arithmetic, constant. Distinct = distinct (program, mode, values).")
    ctx.trusted = [
        "Coq 8.16.1 kernel incl. vm_compute; primitive floats (PrimFloat) are kernel primitives",
        "harness/vcheck/pyexpr2coq.py (+ local Tr12 extension) regenerating coq/C12/Gen.v from /repo on every run",
        "harness abstraction of live model objects and priors (impl/vbuild.py raw __dict__ walk, c12_impl.spec_of), compared with the "
        "tree the composition program denotes (two-sided)",
        "the prior configuration table is read from harness/config/priors/vclasses.yaml by the harness (PyYAML), not through autofit/autoconf",
        "exception classes mapped to {MessageException, PriorException, IndexError, KeyError}",
    ]
    ctx.assumptions = [
        "tuple members are priors or floats named <argument>_<i>; no attribute of a Model is named <tuple argument>_<suffix>",
        "arithmetic theorems are over exact rationals (generated *_Q leaves), except `no negative width` which is also proved for ALL "
        "binary64 values (C12_relative_width_float, C12_absolute_width_float, C12_widths_not_negative_float_leaves; they depend on the "
        "specification axioms FloatAxioms.ltb_spec/leb_spec/eqb_spec/abs_spec/mul_spec of the Coq standard library); other binary64 behaviour "
        "is compared bit-for-bit by the correspondence",
        "config lookup (autoconf) is an oracle table keyed by (class name, attribute name); inheritance from a parent class is "
        "materialised by the harness",
    ]
    ctx.notes["observations-not-counted"] = [
        "GaussianPrior.with_limits / LogUniformPrior.with_limits are classmethods that ignore the old prior (Gaussian: centred between "
        "the limits, sigma = hi - lo, infinite limits). Modelled as they are (C12_tightened_prior).",
        "copy_with_fixed_priors on a frozen model raises AssertionError (the deep copy stays frozen); frozen models are not generated "
        "for that mode.",
        "Model.gaussian_prior_model_for_arguments unfreezes the original Model objects; assertions are not carried over to the passed "
        "model. Neither is part of the property text.",
    ]
    try:
        infos = regenerate()
        ctx.translated = {k: {"source": v["source"], "line": v["line"]} for k, v in infos.items()}
        ctx.obligation("translator:Gen.v", "translator", True, "%d expressions" % len(infos))
        translated = True
    except T.TranslationError as e:
        ctx.obligation("translator:Gen.v", "translator", False, str(e))
        translated = False
    built = ctx.build()
    n = 420 if not thorough else 8000
    cases = []
    corpus = os.path.join(common.VERIF, "corpus", "C12")
    if os.path.isdir(corpus):
        for f in sorted(os.listdir(corpus)):
            if f.endswith(".json"):
                cc_ = json.load(open(os.path.join(corpus, f)))
                if "-finding-" in f:
                    cc_["_pinned"] = f[:-5].split("-finding-", 1)[1]
                cases.append(cc_)
    cases += [gen_case(ctx, thorough) for _ in range(n)]
    if ctx.replay:
        rp = json.load(open(ctx.replay))
        if rp.get("case"):
            cases = [rp["case"]]
    if ctx.replay and len(cases) == 1 and cases[0].get("kind") == "session":
        check_sessions(ctx, cases)          # replay of a session case
        return
    sessions = [] if ctx.replay else gen_sessions(ctx, thorough)          # drawn after the stateless cases
    sessions = [c_ for c_ in cases if c_.get("kind") == "session"] + sessions          # pinned session cases of the corpus
    cases = [c_ for c_ in cases if c_.get("kind") != "session"]
    chunks = [ch for ch in (cases[i::common.NCPU] for i in range(common.NCPU)) if ch]
    outs = common.run_impl_parallel("c12_impl", [{"cases": ch} for ch in chunks], timeout=1500)
    results = [None] * len(cases)
    for ci, o in enumerate(outs):
        if "__error__" in o:
            ctx.obligation("impl-driver", "harness", False, o["__error__"][-800:])
            return
        for j, r in enumerate(o["results"]):
            results[ci + j * common.NCPU] = r
    coq_cases, coq_idx = [], []
    regress = {}            # pinned corpus cases of repaired findings: they must pass the oracle from now on
    for i, (c, r) in enumerate(zip(cases, results)):
        prog = c["program"]
        cls = classes_of(c)
        key = {"program": prog, "mode": c["mode"], "wms": c.get("wms")}
        ctx.count_case(key, nontrivial(c), c["mode"]["k"])
        ctx.hist("frozen", bool(c.get("frozen")))
        ctx.hist("via-result", str(c.get("via_result")))
        ctx.hist("nonfloat-constants", len(c.get("extras") or []))
        for f in prog["features"]:
            ctx.hist("feature", f)
        ctx.hist("priors", min(len(prog["pool"]), 20))
        for lab in cls:
            if not lab.startswith(("feature:", "mode:")):
                ctx.hist("finding-class", lab)
        ctx.oracle["cases"] += 1
        if "exc" in r:
            ctx.oracle["failures"] += 1
            ctx.failure("oracle", "driver raised %s: %s" % (r["exc"], r.get("msg", "")[-300:]), c, classes=cls)
            continue
        r = results[i]["ok"] = strip_extras(r["ok"])       # the x_* constants are reported separately (r["extras"])
        if not MG.same_tree(MG.expected_tree(prog["root"]), r["orig"]["tree"]):
            ctx.oracle["failures"] += 1
            ctx.failure("correspondence", "the composition API built a different object graph than the program denotes", c,
                        classes=cls, impl=r["orig"]["tree"], broken={"kind": "correspondence", "name": "two-sided abstraction"})
            continue
        ctx.hist("outcome", "ok" if "ok" in r["out"] else r["out"]["exc"])
        ctx.hist("theorem-hypothesis-wf", tree_wf(r["orig"]["tree"]))
        msgs = oracle(c, r)
        if c.get("_pinned"):
            regress[c["_pinned"]] = msgs
        for msg in msgs:
            ctx.oracle["failures"] += 1
            ctx.failure("oracle", msg, c, classes=relevant_classes(msg, c, r),
                        impl={"out": r["out"] if "exc" in r["out"] else {k: r["out"]["ok"].get(k) for k in ("paths", "ids", "priors", "count")}})
        cc = coq_case(c, r)
        if cc is None:
            ctx.hist("skipped", "not-expressible")
            if not msgs:
                ctx.failure("oracle", "outcome cannot be expressed in the model: %s" % (r["out"].get("exc"),), c,
                            classes=[x for x in cls if x.startswith(("feature:", "mode:"))], impl=r["out"])
        else:
            coq_cases.append(cc)
            coq_idx.append(i)
            for f_ in sorted(C01.tree_features(r["orig"]["tree"])):
                ctx.hist("correspondence:unary-features (%s)" % ("fixed" if c["mode"]["k"] == "fixed" else "passing"), f_)
            if "modified-prior-over-prior" in cls:
                ctx.hist("correspondence:means over a unary form of a prior", "ok" if "ok" in r["out"] else r["out"]["exc"])
        if i % 70 == 0:
            ctx.sample({"mode": {k: (v if not isinstance(v, list) or len(v) < 8 else v[:8] + ["..."]) for k, v in c["mode"].items()},
                        "features": prog["features"], "n_priors": len(prog["pool"]),
                        "outcome": "ok" if "ok" in r["out"] else r["out"]["exc"]})
    fixed = {k_["replay"].split("C12-", 1)[1][:-5]: k_ for k_ in common.load_known("C12") if k_.get("status") == "fixed" and k_.get("replay")}
    for slug, msgs in sorted(regress.items()):
        if slug in fixed:
            ctx.obligation("regression:" + fixed[slug]["signature"], "regression", not msgs,
                           "pinned case of the repaired finding passes" if not msgs else "REGRESSED: " + "; ".join(msgs)[:500])
    if os.path.exists(os.path.join(common.COQ, "C12", "Model.vo")):
        hdr = ctx.header(["Common.PyFloat", "Gen", "Model"]).replace(
            "From PAFC12 Require Import Gen.", "From PAFC01 Require Import ModelTree.\nFrom PAFC12 Require Import Gen.")
        hdr += "\nDefinition the_cfg : config float := %s." % coq_config()
        bad, log = ctx.eval_cases(hdr, "case", "check_case", coq_cases, shard=30)
        for b in (bad or [])[:5]:
            i = coq_idx[b]
            o = "; ".join(oracle(cases[i], results[i]["ok"]))
            ctx.failure("correspondence", "Coq model and implementation disagree on the passed model" + (": " + o if o else ""), cases[i],
                        classes=[x for x in classes_of(cases[i]) if x.startswith(("feature:", "mode:"))], impl=results[i]["ok"]["out"],
                        broken={"kind": "correspondence", "name": "C12.check_case"}, found_input=bool(o))
    else:
        ctx.obligation("correspondence:cases", "correspondence", False, "Model.vo not built")
    check_sessions(ctx, sessions)



def probe_subsamples(repo=None):
    """Which variant of the code exists: SamplesSummary.subsamples and Samples.subsamples must reset the `_instance` cache of
    the copy they make (`copied = copy(self)` ... `copied._instance = None`, since 4da3fbc), next to `_paths` and `_names`.
    Session.v models that variant (subsamples_resets_instance = true). Fail-closed: anything else is reported."""
    out = []
    for rel, cls in (("autofit/non_linear/samples/summary.py", "SamplesSummary"), ("autofit/non_linear/samples/samples.py", "Samples")):
        try:
            tree = ast.parse(open(os.path.join(repo or common.REPO, rel)).read())
            fn = [f for k_ in ast.walk(tree) if isinstance(k_, ast.ClassDef) and k_.name == cls
                  for f in k_.body if isinstance(f, ast.FunctionDef) and f.name == "subsamples"]
            if len(fn) != 1:
                return False, "%s.subsamples not found in %s" % (cls, rel)
            copies = [n_.targets[0].id for n_ in ast.walk(fn[0]) if isinstance(n_, ast.Assign) and len(n_.targets) == 1
                      and isinstance(n_.targets[0], ast.Name) and isinstance(n_.value, ast.Call)
                      and ast.unparse(n_.value).replace(" ", "") == "copy(self)"]
            if len(copies) != 1:
                return False, "%s.subsamples no longer makes exactly one `copy(self)`" % cls
            resets = {ast.unparse(n_.targets[0]) for n_ in fn[0].body if isinstance(n_, ast.Assign) and len(n_.targets) == 1
                      and isinstance(n_.value, ast.Constant) and n_.value.value is None}
            missing = [a for a in ("_paths", "_names", "_instance") if "%s.%s" % (copies[0], a) not in resets]
            if missing:
                return False, "%s.subsamples does not reset %s of the copy (the Coq model Session.v resets all three caches)" % (
                    cls, ", ".join(missing))
            out.append("%s.subsamples resets _paths, _names, _instance" % cls)
        except (OSError, SyntaxError) as e:
            return False, "%s: %s" % (rel, e)
    return True, "; ".join(out)


def coq_header(ctx, extra=()):
    hdr = ctx.header(["Common.PyFloat", "Gen", "Model"] + list(extra)).replace(
        "From PAFC12 Require Import Gen.", "From PAFC01 Require Import ModelTree.\nFrom PAFC12 Require Import Gen.")
    return hdr + "\nDefinition the_cfg : config float := %s." % coq_config()


def check_sessions(ctx, sessions):
    """Oracle and correspondence for the session cases."""
    if not sessions:
        return
    ok, detail = probe_subsamples()
    ctx.obligation("translator:subsamples-resets-instance", "translator", ok, detail)
    terms, idx = run_sessions(ctx, sessions)
    results = getattr(ctx, "session_results", None)
    if results is None:
        return
    fixed = {k_["replay"].split("C12-", 1)[1][:-5]: k_ for k_ in common.load_known("C12") if k_.get("status") == "fixed" and k_.get("replay")}
    for c, r in zip(sessions, results):
        slug = c.get("_pinned")
        if slug in fixed:
            msgs = ["driver raised %s" % r["exc"]] if "exc" in r else [m for m, _ in session_oracle(c, r["ok"])]
            ctx.obligation("regression:" + fixed[slug]["signature"], "regression", not msgs,
                           "pinned session of the repaired finding passes" if not msgs else "REGRESSED: " + "; ".join(msgs)[:500])
    if not os.path.exists(os.path.join(common.COQ, "C12", "Model.vo")):
        ctx.obligation("correspondence:sessions", "correspondence", False, "Model.vo not built")
        return
    if terms:
        bad, log = ctx.eval_cases(coq_header(ctx), "case", "check_case", terms, tag="sessions", shard=30)
        for b_ in (bad or [])[:5]:
            i = idx[b_]
            o = "; ".join(m for m, _ in session_oracle(sessions[i], results[i]["ok"]))
            ctx.failure("correspondence", "session: the Coq model of prior passing applied to the child model and the values inferred for "
                        "its parameters disagrees with what the child result passed" + (": " + o if o else ""), sessions[i],
                        classes=[x for x in session_classes(sessions[i]) if x != "instance-cached-before-subsamples"],
                        impl=results[i]["ok"].get("out"), broken={"kind": "correspondence", "name": "C12.check_case (session)"},
                        found_input=bool(o))
    summary_sessions(ctx, sessions, results)


def summary_sessions(ctx, sessions, results):
    """Correspondence of the Coq model of the samples summary (coq/C12/Session.v) with the vectors the child summary returned."""
    if not os.path.exists(os.path.join(common.COQ, "C12", "Session.vo")):
        ctx.obligation("correspondence:summaries", "correspondence", False, "Session.vo not built")
        return
    terms, idx = [], []
    for i, (c, r) in enumerate(zip(sessions, results)):
        term = coq_scase(c, r.get("ok") or {})
        if term is not None:
            terms.append(term)
            idx.append(i)
    if not terms:
        return
    bad, log = ctx.eval_cases(coq_header(ctx, ["Session"]), "scase", "check_scase", terms, tag="summaries", shard=40)
    for b_ in (bad or [])[:5]:
        i = idx[b_]
        o = "; ".join(m for m, _ in session_oracle(sessions[i], results[i]["ok"]))
        ctx.failure("correspondence", "session: the Coq model of the samples summary (reads, subsamples) disagrees with the best-fit vector / "
                    "the instance the child summary returned" + (": " + o if o else ""), sessions[i],
                    classes=[x for x in session_classes(sessions[i]) if x != "instance-cached-before-subsamples"],
                    impl={"vec_maxl": results[i]["ok"].get("vec_maxl"), "inst": results[i]["ok"].get("inst"), "chain": results[i]["ok"].get("chain")},
                    broken={"kind": "correspondence", "name": "C12.check_scase"}, found_input=bool(o))


PATH_READS = ("maxl_vec", "median_vec", "prior_means", "maxl_inst", "instance", "max_log_likelihood_instance", "paths", "model",
              "model_absolute", "model_relative", "model_bounded")


def coq_scase(c, r):
    """Coq term of type `scase` (Session.v): the joint model, its best sample, the history, the chain of child models and
    the vector the last child's summary returned."""
    if "orig" not in r or "joint_tree" not in r:
        return None
    trees = [r["joint_tree"]] + list(r["chain_trees"])
    if not all(MG.tree_ok_for_model(t) for t in trees):
        return None
    v = r["vec_maxl"]
    if "ok" in v:
        vec = "(Some %s)" % clist([cfloat(unhex(x)) for x in v["ok"]])
    elif v.get("exc") == "KeyError":
        vec = "None"
    else:
        return None
    before, made = [], False
    for t, o in c["steps"]:
        if t == "mk":
            made = True
        elif t == "P" and not made:
            before.append(o)
    pre_read = any(o in PATH_READS for o in before)
    pre_inst = any(o in INSTANCE_READS for o in before)
    mid_read = bool(c.get("chain_reads")) and len(r["chain_trees"]) > 1
    kw = clist(["(%s, %s)" % (MG.coq_path(p), cfloat(unhex(x))) for p, x in r["kw_max"]])
    inst = r.get("inst") or {}
    if "ok" in inst:
        iterm = "(Some (Some %s))" % MG.coq_ival(inst["ok"])
    elif inst.get("exc") == "KeyError":
        iterm = "(Some None)"
    else:
        iterm = "None"
    return "(SCase %s %s %s %s %s %s %s %s)" % (MG.coq_node(trees[0]), kw, cbool(pre_read), cbool(pre_inst), cbool(mid_read),
                                                clist([MG.coq_node(t) for t in trees[1:]]), vec, iterm)


MANIFEST = {
    "text": "Coq 8.16 theorems over a model of prior passing on the C01 model tree (rebuild substituting priors by identity for "
            "Model/Collection/tuple/arithmetic nodes; zip of id-ordered parameters with inferred values; widths and limits from leaf "
            "formulas regenerated from /repo by a fail-closed translator): same paths, parameter count, order and sharing; identical "
            "instances (constants, tuples, derived values) for corresponding arguments; the priors reported for the new model are, in "
            "id order, those derived from each parameter's own value (means, bounded), own limits (with_limits, by prior family) or own "
            "replacement; success characterised per mode (full over exact numbers for absolute / relative / configured widths of any "
            "sign and for bounded; refuted in binary64 for bounded when value +- b rounds to value); no produced Gaussian has a negative "
            "width; an unshared parameter is configured under its own (class, attribute), a shared one under class and name of its last place "
            "(repaired a8a9b5b; legacy witness kept); with_limits by family incl. log-gaussian (repaired d755794). Tied to the code by bit-exact vm_compute correspondence of the passed model, its priors and "
            "exceptions on generated compositions x modes x vectors of any sign/magnitude, plus a direct property oracle (incl. the "
            "af.Result routes, non-float constants of collections, where a tightened prior maps the unit interval). Results as stateful "
            "objects (coq/C12/Session.v: SamplesSummary with its `_paths` / `_instance` caches, reads, subsamples; theorems: cache invariant "
            "over every sequence of reads and child creations, history-irrelevance of the child's best-fit vector and prior means, child "
            "instance own (full since 4da3fbc; legacy witness kept; the variant is probed in the source on every run): session cases = joint models made by FreeParameterAnalysis.modify_model / collections / a "
            "component whose parameters the joint model also exposes under each other's names x random reads of the joint result "
            "(max_log_likelihood, median_pdf, prior_means, instance, model, model_absolute/relative/bounded, paths, names, subsamples of a "
            "sibling) before and after the child results are made (make_result of IndexCollection / FreeParameter analyses or subsamples, "
            "chains of depth 2) x reads of the child x the passing mode on the child; oracle by parameter identity against the joint "
            "vector, CPass correspondence on the child model, check_scase correspondence of the summary model (vector and instance)",
    "note": "Trusted: Coq kernel + vm_compute; translator; harness abstraction of live objects; config table read by the harness. Known "
            "finding (suppressed, narrow class): bounded-absorbed; the pinned cases of the nine repaired "
            "findings are regression obligations. Not modelled: AnnotationPriorModel, Array models, deferred arguments, "
            "** Log Log10 (subtraction as a + (-b), negation, abs, % and // are inside the model since ext-tree: NUn, OMod, OFloorDiv; "
            "known finding modified-prior-over-prior: mapper_from_prior_means raises AttributeError for -p / abs(p) / p - q over a prior, "
            "modelled (Exc EAttr) under the source-detected switch Gen.modified_prior_cls_falls_back, guard cls_ok of the means theorems), "
            "excluded_classes of copy_with_fixed_priors, the message object of a prior (oracle only), "
            "name-keyed (samples.csv) samples in sessions, Samples.subsamples (full sample lists), jax; arithmetic theorems are over exact rationals; in binary64 `relative and absolute widths from a "
            "non-negative factor are never negative` is a theorem for all floats (FloatAxioms of the Coq library, via coq/Common/Float64Order.v; "
            "the former grid statement is kept as an axiom-free computation), everything else binary64 is by correspondence.",
    "technique": "machine-checked proof in Coq (hand-written model over the C01 tree + translated leaf formulas) + vm_compute correspondence",
}
