"""C02 -- priors map the unit interval monotonically onto their support (DESIGN.md section 5, C02).

Generator (stdlib only; the check runs under the system python which has no numpy), property
oracle (independent reference: statistics.NormalDist / math.erfc, never scipy and never autofit),
Coq case printer and the run(ctx) pipeline.  The implementation and the oracle tables of the special
functions are produced by harness/impl/c02_impl.py + c02_oracle.py under /venv/bin/python.
"""
import json
import math
import os
from statistics import NormalDist

from . import common
from .common import cfloat, cbool, clist

INF = float("inf")
STD = NormalDist()
FAMILIES = ["uniform", "loguniform", "gaussian", "loggaussian"]
COQ_FAMILY = {"uniform": "Uniform", "loguniform": "LogUniform", "gaussian": "Gaussian", "loggaussian": "LogGaussian"}


def hexf(x):
    x = float(x)
    if math.isnan(x):
        return "nan"
    if math.isinf(x):
        return "inf" if x > 0 else "-inf"
    return x.hex()


def unhex(s):
    if isinstance(s, (int, float)):
        return float(s)
    if s in ("nan", "inf", "-inf"):
        return float(s)
    return float.fromhex(s)


def np_round14(x):
    """numpy scalar round(x, 14): rint(x * 1e14) / 1e14 in binary64 (value only; sign of zero ignored)."""
    y = x * 1e14
    if math.isnan(y) or math.isinf(y):
        return y
    if abs(y) < 2.0 ** 52:
        y = float(round(y))            # Python round(float) -> int is exact half-even
    return y / 1e14


def ulp(x):
    return math.ulp(x) if math.isfinite(x) else 0.0


# ---------------------------------------------------------------------------
# generator
# ---------------------------------------------------------------------------

def some_number(rng):
    r = rng.random()
    if r < 0.25:
        return rng.randint(-40, 40) / 4.0
    if r < 0.5:
        return round(rng.uniform(-100, 100), rng.randint(0, 6))
    if r < 0.8:
        return rng.uniform(-1, 1) * 10.0 ** rng.randint(-8, 8)
    return rng.uniform(-1, 1) * 10.0 ** rng.randint(-30, 30)


def gen_uniform(rng):
    shape = rng.choice(["ordinary", "ordinary", "decimal", "tiny-width", "tiny-width", "many-decimals", "huge",
                        "zero-based-tiny", "asymmetric", "unit", "overflow"])
    if shape == "ordinary":
        lo = some_number(rng)
        hi = lo + abs(some_number(rng)) + 10.0 ** rng.randint(-3, 3)
    elif shape == "decimal":
        d = rng.randint(0, 12)
        lo = round(rng.uniform(-50, 50), d)
        hi = round(lo + rng.uniform(10.0 ** -d, 100), d)
    elif shape == "tiny-width":
        lo = rng.choice([0.0, 1.0, -1.0, rng.uniform(-10, 10), round(rng.uniform(-1, 1), 3)])
        hi = lo + rng.uniform(1, 10) * 10.0 ** rng.randint(-17, -9)
    elif shape == "many-decimals":
        lo = rng.uniform(-1, 1) * 10.0 ** rng.randint(-3, 2)
        hi = lo + rng.uniform(0, 1) * 10.0 ** rng.randint(-13, 1)
    elif shape == "huge":
        lo = rng.uniform(-1, 1) * 10.0 ** rng.randint(10, 290)
        hi = lo + rng.uniform(0.1, 1) * 10.0 ** rng.randint(10, 290)
    elif shape == "zero-based-tiny":
        lo = 0.0
        hi = rng.choice([8e-15, 1.6e-14, 2.5e-14, 6e-15, 1e-13, rng.uniform(1, 9) * 10.0 ** rng.randint(-16, -12)])
    elif shape == "asymmetric":
        lo = -rng.uniform(1, 10) * 10.0 ** rng.randint(0, 12)
        hi = rng.uniform(1, 10) * 10.0 ** rng.randint(-12, 0)
    elif shape == "unit":
        lo, hi = rng.choice([(0.0, 1.0), (-1.0, 1.0), (0.0, 2.0), (10.0, 20.0), (0.0, 1e-6), (-0.5, 0.5)])
    else:  # overflow of the rounding product x * 1e14
        lo = rng.choice([0.0, -1e295, 1e290])
        hi = rng.choice([1e300, 1e295, 5e299, 1.7e308])
    if not lo < hi:
        hi = lo + max(1.0, abs(lo) * 0.5)
    return {"family": "uniform", "lo": hexf(lo), "hi": hexf(hi)}, shape


def gen_loguniform(rng):
    shape = rng.choice(["ordinary", "ordinary", "narrow", "many-decades", "many-decades", "extreme-lo", "unit", "ratio-overflow"])
    if shape == "ordinary":
        lo = rng.uniform(1, 10) * 10.0 ** rng.randint(-8, 4)
        hi = lo * 10.0 ** rng.uniform(0.1, 8)
    elif shape == "narrow":
        lo = rng.uniform(1, 10) * 10.0 ** rng.randint(-20, 20)
        hi = lo * (1 + rng.uniform(1, 10) * 10.0 ** rng.randint(-14, -2))
    elif shape == "many-decades":
        a = rng.randint(-300, 0)
        lo = rng.uniform(1, 10) * 10.0 ** a
        hi = rng.uniform(1, 10) * 10.0 ** min(306, a + rng.randint(10, 300))
    elif shape == "extreme-lo":
        lo = rng.choice([5e-324, 1e-320, 1e-310, 2.2250738585072014e-308, 1e-300])
        hi = rng.choice([1e-300 * 10, 1.0, 1e-290, 1e5])
    elif shape == "unit":
        lo, hi = rng.choice([(1e-6, 1.0), (10.0, 1000.0), (1.0, 10.0), (1e-3, 1e3), (0.5, 2.0)])
    else:
        lo = rng.uniform(1, 10) * 10.0 ** rng.randint(-300, -200)
        hi = rng.uniform(1, 10) * 10.0 ** rng.randint(200, 300)
    if not lo < hi:
        hi = lo * 2
    return {"family": "loguniform", "lo": hexf(lo), "hi": hexf(hi)}, shape


def gen_gaussian(rng):
    shape = rng.choice(["unlimited", "unlimited", "central", "one-sided", "upper-tail", "lower-tail", "far-tail",
                        "narrow", "offset-mean", "tiny-sigma", "huge-sigma"])
    mean = some_number(rng) if rng.random() < 0.7 else 0.0
    sigma = rng.choice([1.0, 2.0, 0.5, abs(some_number(rng)) + 1e-3, 10.0 ** rng.randint(-6, 6)])
    lo, hi = -INF, INF
    if shape == "central":
        lo, hi = mean - rng.uniform(0.1, 6) * sigma, mean + rng.uniform(0.1, 6) * sigma
    elif shape == "one-sided":
        if rng.random() < 0.5:
            lo = mean + rng.uniform(-5, 5) * sigma
        else:
            hi = mean + rng.uniform(-5, 5) * sigma
    elif shape == "upper-tail":
        z = rng.uniform(2, 8)
        lo, hi = mean + z * sigma, mean + (z + rng.uniform(0.1, 4)) * sigma
    elif shape == "lower-tail":
        z = rng.uniform(2, 8)
        lo, hi = mean - (z + rng.uniform(0.1, 4)) * sigma, mean - z * sigma
    elif shape == "far-tail":
        z = rng.uniform(8, 40) * rng.choice([-1, 1])
        a, b = mean + z * sigma, mean + (z + rng.uniform(0.1, 5)) * sigma
        lo, hi = min(a, b), max(a, b)
    elif shape == "narrow":
        c = mean + rng.uniform(-2, 2) * sigma
        lo, hi = c, c + sigma * 10.0 ** rng.randint(-14, -3)
    elif shape == "offset-mean":
        mean = rng.choice([-1, 1]) * 10.0 ** rng.randint(3, 12)
        sigma = 10.0 ** rng.randint(-6, 2)
        if rng.random() < 0.5:
            lo, hi = mean - 3 * sigma, mean + 3 * sigma
    elif shape == "tiny-sigma":
        sigma = 10.0 ** rng.randint(-300, -12)
    elif shape == "huge-sigma":
        sigma = 10.0 ** rng.randint(12, 300)
    if not lo < hi:
        lo, hi = -INF, INF
    return {"family": "gaussian", "mean": hexf(mean), "sigma": hexf(sigma), "lo": hexf(lo), "hi": hexf(hi)}, shape


def gen_loggaussian(rng):
    shape = rng.choice(["unlimited", "unlimited", "central", "upper-tail", "lower-tail", "far-tail", "wide", "extreme-mean"])
    mean = rng.choice([0.0, 1.0, rng.uniform(-5, 5), rng.uniform(-50, 50)])
    sigma = rng.choice([1.0, 0.5, 2.0, rng.uniform(0.01, 3), 10.0 ** rng.randint(-6, 0)])
    lo, hi = 0.0, INF

    def ex(z):
        y = mean + z * sigma
        return math.exp(y) if y < 709 else INF

    if shape == "central":
        lo, hi = ex(-rng.uniform(0.1, 6)), ex(rng.uniform(0.1, 6))
    elif shape == "upper-tail":
        z = rng.uniform(2, 8)
        lo, hi = ex(z), ex(z + rng.uniform(0.1, 4))
    elif shape == "lower-tail":
        z = rng.uniform(2, 8)
        lo, hi = ex(-z - rng.uniform(0.1, 4)), ex(-z)
    elif shape == "far-tail":
        z = rng.uniform(8, 30) * rng.choice([-1, 1])
        a, b = ex(z), ex(z + rng.uniform(0.1, 5))
        lo, hi = min(a, b), max(a, b)
    elif shape == "wide":
        sigma = rng.uniform(3, 15)
    elif shape == "extreme-mean":
        mean = rng.choice([-1, 1]) * rng.uniform(300, 700)
        sigma = rng.uniform(0.1, 2)
    if not lo < hi:
        lo, hi = 0.0, INF
    return {"family": "loggaussian", "mean": hexf(mean), "sigma": hexf(sigma), "lo": hexf(lo), "hi": hexf(hi)}, shape


GEN = {"uniform": gen_uniform, "loguniform": gen_loguniform, "gaussian": gen_gaussian, "loggaussian": gen_loggaussian}

SPECIAL_U = [0.0, 1.0, 2.0 ** -53, 1 - 2.0 ** -53, 2.0 ** -54, 5e-324, 1e-300, 0.5, 1e-14, 1 - 1e-14, 5e-15,
             1e-17, 1 - 1e-16, 0.25, 0.75, 2.0 ** -52, 1e-15, 0.5 + 2.0 ** -53, 0.5 - 2.0 ** -54]
MALFORMED_U = [-1e-15, 1 + 2.0 ** -52, -0.5, 2.0, -5e-324, float("nan")]


def gen_units(rng, n):
    us = set(rng.sample(SPECIAL_U, min(len(SPECIAL_U), max(4, n // 3))))
    us.update([0.0, 1.0])
    while len(us) < n:
        r = rng.random()
        if r < 0.45:
            us.add(rng.random())
        elif r < 0.6:
            us.add(10.0 ** -rng.uniform(0, 20))
        elif r < 0.75:
            us.add(1 - 10.0 ** -rng.uniform(0, 16))
        elif r < 0.9:
            us.add(rng.randint(0, 16) / 16.0)
        else:  # neighbours: monotonicity at the last bit
            u = rng.random()
            us.add(u)
            us.add(math.nextafter(u, 2.0))
    return sorted(us)



# ---------------------------------------------------------------------------
# derived priors: what the harness expects (computed here, independently of the code)
# ---------------------------------------------------------------------------

def pymax(a, b):
    return b if b > a else a


def pymin(a, b):
    return b if b < a else a


def expected_derived(spec, d):
    """(message prior, gate prior, expected constructor exception) of `derive(make_prior(spec), d)`."""
    how = d["how"]
    fam = spec["family"]
    if how == "with_limits":
        # since d755794: a prior of the same class (same mean / sigma) built by its constructor from the tightened limits
        a, b = unhex(d["a"]), unhex(d["b"])
        new = dict(spec)
        new["lo"] = hexf(pymax(a, unhex(spec["lo"])))
        new["hi"] = hexf(pymin(b, unhex(spec["hi"])))
        if not unhex(new["lo"]) < unhex(new["hi"]):
            return spec, spec, "PriorException"
        return new, new, None
    if how == "with_message":
        # Prior.with_message after the prior was used: message of d["msg"], class and limits of the prior it was copied from
        return d["msg"], dict(d["msg"], lo=spec["lo"], hi=spec["hi"]), None
    if how == "set_limits":
        # in-place change of the public limit attributes after the object was used: message as before, gate = the new limits
        new = dict(spec)
        new["lo"], new["hi"] = d["a"], d["b"]
        return spec, new, None
    if how == "cls_with_limits":
        a, b = unhex(d["a"]), unhex(d["b"])
        if fam == "gaussian":
            new = {"family": "gaussian", "mean": hexf((a + b) / 2), "sigma": hexf(b - a), "lo": hexf(-INF), "hi": hexf(INF)}
        else:
            new = {"family": "loguniform", "lo": hexf(pymax(0.000001, a)), "hi": hexf(b)}
        return new, new, None
    return spec, spec, None


def set_limits_pair(rng, spec):
    """New limits (a < b) well inside the support of the message of `spec`, or None."""
    fam = spec["family"]
    lo, hi = unhex(spec["lo"]), unhex(spec["hi"])
    f1, f2 = sorted([rng.uniform(0.05, 0.95), rng.uniform(0.05, 0.95)])
    if f2 - f1 < 0.05:
        f1, f2 = 0.25, 0.7
    try:
        if fam == "uniform":
            a, b = lo + f1 * (hi - lo), lo + f2 * (hi - lo)
        elif fam == "loguniform":
            l0, l1 = math.log10(lo), math.log10(hi)
            a, b = 10.0 ** (l0 + f1 * (l1 - l0)), 10.0 ** (l0 + f2 * (l1 - l0))
        else:
            m, sg = unhex(spec["mean"]), unhex(spec["sigma"])
            a, b = m + STD.inv_cdf(f1) * sg, m + STD.inv_cdf(f2) * sg
            if fam == "loggaussian":
                a, b = math.exp(a), math.exp(b)
    except (OverflowError, ValueError):
        return None
    if not (math.isfinite(a) and math.isfinite(b) and a < b):
        return None
    if fam in ("loguniform", "loggaussian") and not a > 1e-300:
        return None
    return a, b


def other_message_spec(rng, spec):
    """A prior of the same family with other parameters whose support contains the limits of `spec` (or None)."""
    fam = spec["family"]
    lo, hi = unhex(spec["lo"]), unhex(spec["hi"])
    new = dict(spec)
    if fam == "uniform":
        w = hi - lo
        a, b = lo - rng.uniform(0.05, 1) * w, hi + rng.uniform(0.05, 1) * w
        if not (math.isfinite(w) and math.isfinite(a) and math.isfinite(b) and a < lo and hi < b):
            return None
        new["lo"], new["hi"] = hexf(a), hexf(b)
    elif fam == "loguniform":
        a, b = lo / 10.0 ** rng.uniform(0.1, 3), hi * 10.0 ** rng.uniform(0.1, 3)
        if not (a > 1e-300 and math.isfinite(b) and math.isfinite(b / a)):
            return None
        new["lo"], new["hi"] = hexf(a), hexf(b)
    else:
        m, sg = unhex(spec["mean"]), unhex(spec["sigma"])
        m2, s2 = m + rng.uniform(-2, 2) * sg, sg * rng.choice([0.5, 2.0, rng.uniform(0.3, 3)])
        if not (math.isfinite(m2) and math.isfinite(s2) and s2 > 0):
            return None
        new["mean"], new["sigma"] = hexf(m2), hexf(s2)
    return new


def gen_derived(rng, spec, force=None):
    fam = spec["family"]
    lo, hi = unhex(spec["lo"]), unhex(spec["hi"])
    hows = ["new", "from_dict", "from_config_dict", "pickle", "copy", "set_limits", "set_limits", "with_message", "with_message"]
    if fam in ("uniform", "loggaussian"):
        hows += ["with_limits"] * 4
    else:
        hows += ["cls_with_limits"] * 3
    how = force or rng.choice(hows)
    d = {"how": how}
    if how == "with_message":
        m2 = other_message_spec(rng, spec)
        if m2 is None:
            return {"how": "new"}
        d["msg"] = m2
        return d
    if how == "set_limits":
        ab = set_limits_pair(rng, spec)
        if ab is None:
            return {"how": "new"}
        d["a"], d["b"] = hexf(ab[0]), hexf(ab[1])
        return d
    if how == "with_limits":
        if fam == "uniform" and math.isfinite(hi - lo):
            f1, f2 = sorted([rng.uniform(-0.2, 1.2), rng.uniform(-0.2, 1.2)])
            a, b = lo + f1 * (hi - lo), lo + f2 * (hi - lo)
            if not pymax(a, lo) < pymin(b, hi):
                a, b = lo + 0.25 * (hi - lo), lo + 0.5 * (hi - lo)
        elif fam == "loggaussian":
            m, sg = unhex(spec["mean"]), unhex(spec["sigma"])
            z1, z2 = sorted([rng.uniform(-3, 3), rng.uniform(-3, 3)])
            ex = lambda y: math.exp(y) if y < 700 else INF
            a, b = ex(m + z1 * sg), ex(m + z2 * sg)
            if not pymax(a, lo) < pymin(b, hi):          # sometimes an empty intersection: the constructor must refuse it
                a, b = (a, b) if rng.random() < 0.3 else (lo, hi)
        else:
            a, b = 0.5, 2.0
        d["a"], d["b"] = hexf(a), hexf(b)
    elif how == "cls_with_limits":
        if fam == "gaussian":
            a = some_number(rng)
            b = a + abs(some_number(rng)) + 10.0 ** rng.randint(-3, 3)
            if not b - a > 0:              # absorbed: keep sigma = b - a positive
                b = a + max(1.0, abs(a))
        else:
            a = rng.choice([1e-9, 1e-6, rng.uniform(1, 10) * 10.0 ** rng.randint(-8, 3)])
            b = pymax(0.000001, a) * 10.0 ** rng.uniform(0.1, 8)
        d["a"], d["b"] = hexf(a), hexf(b)
    return d


def gen_prior_case(rng, fam, n_units, derived=False, force=None):
    spec, shape = GEN[fam](rng)
    c = {"kind": "prior", "prior": spec, "shape": shape}
    msg, gate = spec, spec
    if derived:
        d = gen_derived(rng, spec, force)
        msg, gate, exc = expected_derived(spec, d)
        c["derived"] = d
        c["shape"] = "derived:" + d["how"]
        if exc:
            c["expect_ctor_exc"] = exc
        if msg is not spec or gate is not spec:
            c["msg_prior"], c["gate_prior"] = msg, gate
    c["obs"] = gen_obs(rng, msg, gate, n_units)
    return c


def f32round(x):
    """nearest binary32 value, as a Python float (stdlib only)."""
    import struct
    return struct.unpack("f", struct.pack("f", x))[0]


BIT_EXACT_UT = ("np", "a0", "a1", "int", "bool")      # containers / types that must not change a single bit of the answer
F32_UT = ("f32", "a1f32")                             # binary32 unit values: answer within the stated binary32 tolerance


def exact_complement(u):
    """1.0 - u is computed exactly in binary64 (u is a multiple of 2^-53): no cancellation in `1 - 2.0*(1.0 - u)`."""
    return math.fmod(u, 2.0 ** -53) == 0.0


def gen_typed_obs(rng, fam, grid, f32s):
    """SWEEP class 2 (unusual but legal unit values), by construction in every prior case: the same NUMBER handed over as
    numpy float64 / 0-d array / 1-element array / bool / int / -0.0 (bit-identical answer demanded) and as binary32
    scalar / 1-element binary32 array (answer within the binary32 tolerance), through message.value_for and Prior.value_for;
    unit_value_for of a 0-d / 1-element array; float(prior) as the second route to value_for(0.5).
    UniformPrior.value_for rounds with Python's round(), which has never accepted an array with a dimension (TypeError
    on the pinned tree as well): 1-element arrays reach a uniform prior through message.value_for only."""
    out = []
    interior = [u for u in grid if 0.0 < u < 1.0]
    mid = [u for u in interior if 1e-6 < u < 1 - 1e-6 and abs(u - 0.5) > 0.01] or interior
    for ut in ("a0", "a1", "np"):
        u = rng.choice(mid)
        route = rng.choice(["raw", "value"]) if not (fam == "uniform" and ut == "a1") else "raw"
        o = {"t": route, "u": hexf(u), "ut": ut, "typed": True}
        if route == "value":
            o.update(ignore=False, kw=rng.random() < 0.5)
        out.append(o)
    # the second 1-element-array observation takes the other route where there is one
    if fam != "uniform":
        out.append({"t": "value", "u": hexf(rng.choice(mid)), "ut": "a1", "typed": True, "ignore": False, "kw": False})
    e = rng.choice([0.0, 1.0])
    out.append({"t": "raw", "u": hexf(e), "ut": rng.choice(["bool", "int", "a1", "a0"]), "typed": True})
    out.append({"t": "value", "u": hexf(e), "ut": rng.choice(["bool", "int", "a0"]), "typed": True, "ignore": False, "kw": False})
    out.append({"t": "raw", "u": hexf(-0.0), "typed": True, "ref": hexf(0.0)})          # -0.0 == 0.0
    for k, u in enumerate(f32s):
        ut = F32_UT[k % 2] if rng.random() < 0.5 else F32_UT[(k + 1) % 2]
        if k % 2 == 0 or (fam == "uniform" and ut == "a1f32"):
            out.append({"t": "raw", "u": hexf(u), "ut": ut, "typed": True})
        else:
            out.append({"t": "value", "u": hexf(u), "ut": ut, "typed": True, "ignore": True, "kw": True})
    out.append({"t": "value", "u": hexf(0.5), "via": "float", "typed": True, "ignore": False, "kw": False})
    return out


def gen_obs(rng, msg, gate, n_units):
    fam = msg["family"]
    lo, hi = unhex(gate["lo"]), unhex(gate["hi"])
    obs = []
    grid = set(gen_units(rng, n_units))
    # binary32-representable unit values away from the centre and from the ends (SWEEP class 2)
    f32s = [f32round(rng.choice([rng.uniform(0.02, 0.45), rng.uniform(0.55, 0.98)])) for _ in range(2)]
    # deep in both tails, with an exactly computed complement 1 - u (no cancellation inside value_for): the inverse clause
    # of the oracle is relative there
    dyadic = [2.0 ** -rng.randint(10, 52), rng.choice([3, 5, 7]) * 2.0 ** -rng.randint(14, 53), 1 - 2.0 ** -rng.randint(8, 52)]
    grid.update(f32s)
    grid.update(dyadic)
    grid.add(0.5)
    force_rt = set(dyadic)
    for k, u in enumerate(sorted(grid)):
        obs.append({"t": "raw", "u": hexf(u)})
        o = {"t": "value", "u": hexf(u), "ignore": False, "kw": k % 2 == 0}     # every other call relies on the default argument
        if u in (0.0, 1.0) and rng.random() < 0.5:
            o["ut"] = "int"
        elif rng.random() < 0.1:
            o["ut"] = "np"
        obs.append(o)
        if k % 3 == 0:
            obs.append({"t": "value", "u": hexf(u), "ignore": True})
        if k % 2 == 0 or u in force_rt:
            obs.append({"t": "rt", "u": hexf(u)})
    obs += gen_typed_obs(rng, fam, sorted(grid), f32s)
    for u in rng.sample(MALFORMED_U, 2):
        ig = rng.random() < 0.3
        obs.append({"t": "value", "u": hexf(u), "ignore": ig, "kw": ig or rng.random() < 0.5})
    obs.append({"t": "limits"})
    xs = []
    for x in (lo, hi):
        if math.isfinite(x):
            xs.append(x)
    if math.isfinite(lo) and math.isfinite(hi):
        xs += [lo + (hi - lo) * rng.random(), (lo + hi) / 2 if math.isfinite(lo + hi) else lo]
        xs += [math.nextafter(lo, -INF), math.nextafter(hi, INF)]
    else:
        m, s = unhex(msg.get("mean", 0.0)), unhex(msg.get("sigma", 1.0))
        c = m + s * rng.uniform(-3, 3)
        xs.append(math.exp(c) if fam == "loggaussian" and c < 700 else c)
    for x in sorted(set(xs)):
        if fam in ("loguniform", "loggaussian") and x < 0:
            continue
        obs.append({"t": "unit", "x": hexf(x)})
    # the cdf deep in both tails of the normal families (relative clause of the oracle), whatever the limits are
    if fam in ("gaussian", "loggaussian"):
        m, s = unhex(msg["mean"]), unhex(msg["sigma"])
        for z in (-rng.uniform(5, 9), -rng.uniform(9, 36), rng.uniform(4, 8)):
            y = m + z * s
            if fam == "loggaussian":
                if not -700 < y < 700:
                    continue
                y = math.exp(y)
            if math.isfinite(y) and (fam == "gaussian" or y > 0):
                obs.append({"t": "unit", "x": hexf(y), "tail": True})
    # the same physical value in a numpy container (SWEEP class 2)
    xs_in = [unhex(o["x"]) for o in obs if o["t"] == "unit"]
    if xs_in:
        obs.append({"t": "unit", "x": hexf(rng.choice(xs_in)), "ut": rng.choice(["a0", "a1", "np"]), "typed": True})
    for k in range(4):
        if k == 0:
            l, u, kw = 0.0, 1.0, False                 # p.random() with default arguments
        elif rng.random() < 0.5:
            l, u, kw = 0.0, 1.0, True
        else:
            a, b = sorted([rng.random(), rng.random()])
            l, u = rng.choice([(a, b), (0.0, b), (a, 1.0)])
            kw = True
        obs.append({"t": "random", "l": hexf(l), "u": hexf(u), "seed": rng.randint(0, 10 ** 6), "kw": kw})
    return obs


def gen_vector_case(rng, share=False, twin=False):
    k = rng.randint(1, 6)
    specs = []
    for _ in range(k):
        fam = rng.choice(FAMILIES)
        specs.append(GEN[fam](rng)[0])
    if twin:         # equal but distinct: two prior objects with identical parameters are two entries of the vector
        specs.insert(rng.randint(0, k), dict(rng.choice(specs)))
        k += 1
    order = list(range(k))
    rng.shuffle(order)
    us = [rng.choice([rng.random(), rng.random(), rng.choice(SPECIAL_U)]) for _ in range(k)]
    c = {"kind": "vector", "priors": specs, "attr_order": order, "us": [hexf(u) for u in us],
         "ignore": rng.random() < 0.3}
    if share:        # one prior under several attribute names (sorting before and after the others): still one entry of the vector
        c["share"] = [rng.randrange(k) for _ in range(rng.randint(1, 3))]
    return c


def fixed_case(rng, spec, shape, n_units, extra_units=()):
    c = {"kind": "prior", "prior": spec, "shape": shape, "obs": gen_obs(rng, spec, spec, n_units)}
    for u in extra_units:
        c["obs"].insert(0, {"t": "value", "u": hexf(u), "ignore": False, "kw": False})
        c["obs"].insert(0, {"t": "raw", "u": hexf(u)})
    return c


def gen_cases(ctx):
    rng = ctx.rng
    thorough = ctx.tier == "thorough"
    per_family = 220 if thorough else 44
    n_units = 26 if thorough else 18
    cases = []
    # fixed regression cases first: the reading-time suspicion of DESIGN.md section 6, the defects found since
    G = lambda m, s, lo=-INF, hi=INF: {"family": "gaussian", "mean": hexf(m), "sigma": hexf(s), "lo": hexf(lo), "hi": hexf(hi)}
    fixed = [
        ({"family": "uniform", "lo": hexf(0.12345678901234568), "hi": hexf(0.123456789012346)}, "many-decimals", ()),
        ({"family": "uniform", "lo": hexf(0.0), "hi": hexf(8e-15)}, "zero-based-tiny", ()),
        ({"family": "uniform", "lo": hexf(0.0), "hi": hexf(1e300)}, "overflow", ()),
        ({"family": "uniform", "lo": hexf(-4.0), "hi": hexf(1.5999999999999996)}, "many-decimals", (1 - 2.0 ** -53,)),
        ({"family": "uniform", "lo": hexf(0.0), "hi": hexf(1.0)}, "unit", ()),
        ({"family": "uniform", "lo": hexf(0.0), "hi": hexf(1e6)}, "unit", (0.14855617519874176, 0.1485561751987418)),
        ({"family": "loguniform", "lo": hexf(1e-6), "hi": hexf(1.0)}, "unit", ()),
        ({"family": "loguniform", "lo": hexf(1e-200), "hi": hexf(1e200)}, "ratio-overflow", (0.5,)),
        ({"family": "loguniform", "lo": hexf(1e-320), "hi": hexf(1.0)}, "ratio-overflow", (0.5,)),
        (G(0.0, 1.0), "unlimited", (1e-17, 1e-12)),
        (G(0.0, 1.0, -9.0, -8.5), "far-tail", (3e-18, 5e-18)),
        (G(0.0, 1.0, 8.5, 9.0), "far-tail", ()),
        ({"family": "loggaussian", "mean": hexf(0.0), "sigma": hexf(1.0), "lo": hexf(0.0), "hi": hexf(INF)}, "unlimited", (1e-17,)),
    ]
    for spec, shape, extra in fixed:
        cases.append(fixed_case(rng, spec, shape, n_units, extra))
        if shape in PINS:
            cases[-1]["pin"] = PINS[shape]
    c = {"kind": "prior", "prior": {"family": "uniform", "lo": hexf(0.0), "hi": hexf(1.0)}, "shape": "derived:with_limits",
         "derived": {"how": "with_limits", "a": hexf(0.2), "b": hexf(0.4)}}
    c["msg_prior"], c["gate_prior"], _ = expected_derived(c["prior"], c["derived"])
    c["obs"] = gen_obs(rng, c["msg_prior"], c["gate_prior"], n_units)
    for u in (0.3, 0.5):
        c["obs"].insert(0, {"t": "value", "u": hexf(u), "ignore": False, "kw": False})
        c["obs"].insert(0, {"t": "raw", "u": hexf(u)})
    c["pin"] = "with-limits-keeps-message"
    cases.append(c)
    lg = {"family": "loggaussian", "mean": hexf(0.5), "sigma": hexf(1.5), "lo": hexf(0.1), "hi": hexf(30.0)}
    c = {"kind": "prior", "prior": lg, "shape": "derived:with_limits", "derived": {"how": "with_limits", "a": hexf(0.5), "b": hexf(2.0)},
         "pin": "with-limits-keeps-message"}
    c["msg_prior"], c["gate_prior"], _ = expected_derived(lg, c["derived"])
    c["obs"] = gen_obs(rng, c["msg_prior"], c["gate_prior"], n_units)
    cases.append(c)
    for fam in FAMILIES:
        for k in range(per_family):
            # the first four derived cases of every family are use / change (limits in place, with_message) / use-again
            # histories, by construction; every derivation happens AFTER the prior was used (driver: pre_use)
            cases.append(gen_prior_case(rng, fam, n_units, derived=(k % 4 == 3), force={3: "set_limits", 7: "with_message", 11: "set_limits", 15: "with_message"}.get(k)))
    for k in range(160 if thorough else 40):
        cases.append(gen_vector_case(rng, share=(k % 3 == 0), twin=(k % 3 == 1)))
    return cases


# ---------------------------------------------------------------------------
# classes: labels computed from the INPUT of the failing observation (prior parameters, unit value, how the
# prior was derived), never from the outcome.  Each known finding matches exactly one class.
# ---------------------------------------------------------------------------

# former findings, repaired in /repo: their pinned cases (shape -> signature) must now pass without any oracle failure
PINS = {"many-decimals": "uniform-round-after-limit-check", "zero-based-tiny": "uniform-round-after-limit-check",
        "overflow": "uniform-round-after-limit-check", "ratio-overflow": "loguniform-ratio-overflow"}
CL_TAIL = "normal-lower-tail-cancellation"
CL_LASTBIT = "last-bit-neighbours"
TAIL_U = 6e-8          # below this the absolute resolution 2^-54 of `1 - 2.0*(1.0 - unit)` exceeds 1e-9 relative


def ratio_overflows(spec):
    if spec["family"] != "loguniform":
        return False
    lo, hi = unhex(spec["lo"]), unhex(spec["hi"])
    try:
        return not math.isfinite(hi / lo)
    except (OverflowError, ZeroDivisionError):
        return True


def input_classes(c, msg, u=None):
    out = []
    # the cancellation needs an inexact complement: for multiples of 2^-53 `1 - 2.0*(1.0 - u)` is exact, value_for is
    # accurate on the pinned tree and nothing is excused
    if msg["family"] in ("gaussian", "loggaussian") and u is not None and 0.0 < u < TAIL_U and not exact_complement(u):
        out.append(CL_TAIL)
    return out


# ---------------------------------------------------------------------------
# property oracle (direct statement of C02 on the implementation's outputs; references from the stdlib only)
# ---------------------------------------------------------------------------

SQRT2PI = math.sqrt(2 * math.pi)


def std_pdf(z):
    return math.exp(-0.5 * z * z) / SQRT2PI if abs(z) < 38 else 0.0


def std_quantile(u):
    """Standard normal quantile for 0 < u < 1 (statistics.NormalDist: Wichura AS241, ~1e-16 relative)."""
    return STD.inv_cdf(u)


def std_cdf(z):
    return 0.5 * math.erfc(-z / math.sqrt(2))


class Decl:
    """The distribution a prior declares (family + parameters), with stdlib quantile / cdf."""

    def __init__(self, spec):
        self.fam = spec["family"]
        self.lo, self.hi = unhex(spec["lo"]), unhex(spec["hi"])
        self.mean, self.sigma = unhex(spec.get("mean", 0.0)), unhex(spec.get("sigma", 1.0))
        if self.fam == "loguniform":
            self.l0, self.l1 = math.log10(self.lo), math.log10(self.hi)
        self.ok = True
        if self.fam == "uniform" and not math.isfinite(self.hi - self.lo):
            self.ok = False

    def z(self, u):
        return std_quantile(u)

    def quantile(self, u):
        """Quantile at 0 < u < 1, or None when it is not representable (overflow)."""
        if not (0.0 < u < 1.0) or not self.ok:
            return None
        if self.fam == "uniform":
            return self.lo + u * (self.hi - self.lo)
        if self.fam == "loguniform":
            y = self.l0 + u * (self.l1 - self.l0)
            return 10.0 ** y if y < 308.2 else None
        z = std_quantile(u)
        y = self.mean + self.sigma * z
        if self.fam == "gaussian":
            return y
        return math.exp(y) if -700 < y < 700 else None

    def cdf(self, x):
        if self.fam == "uniform":
            return min(1.0, max(0.0, (x - self.lo) / (self.hi - self.lo)))
        if self.fam == "loguniform":
            return min(1.0, max(0.0, (math.log10(x) - self.l0) / (self.l1 - self.l0))) if x > 0 else 0.0
        if self.fam == "gaussian":
            return std_cdf((x - self.mean) / self.sigma)
        return std_cdf((math.log(x) - self.mean) / self.sigma) if x > 0 else 0.0

    def value_margin(self, q, u):
        """How far inside the limits the quantile has to be before a return is demanded (conditioning of the map)."""
        if self.fam == "uniform":
            return 1e-9 * (self.hi - self.lo) + 1e-12 * max(abs(self.lo), abs(self.hi)) + 1.01e-14
        if self.fam == "loguniform":
            return abs(q) * (1e-9 * (self.l1 - self.l0) * 2.31 + 2.31e-15 * (abs(self.l0) + abs(self.l1) + 1) + 1e-12)
        z = abs(std_quantile(u))
        if self.fam == "gaussian":
            return self.sigma * 1e-9 * (1 + z) + 1e-12 * (abs(self.mean) + abs(q))
        y = math.log(q)
        return q * (self.sigma * 1e-9 * (1 + z) + 1e-15 * (abs(y) + abs(self.mean) + 2) + 1e-12)

    def mismatch(self, v, u):
        """Does the returned value v disagree with the declared quantile at 0 < u < 1 ?  (message, or None)"""
        q = self.quantile(u)
        if q is None or math.isnan(v):
            return None if q is None else "value is nan, declared quantile %r" % q
        if self.fam == "uniform":
            tol = 1e-9 * (self.hi - self.lo) + 1e-12 * max(abs(self.lo), abs(self.hi)) + 1.01e-14
            return None if abs(v - q) <= tol else "uniform quantile is %r, value %r" % (q, v)
        if self.fam == "loguniform":
            if q < 1e-300:
                return None                       # subnormal results carry few bits
            if not v > 0:
                return "log-uniform quantile is %r, value %r" % (q, v)
            y = self.l0 + u * (self.l1 - self.l0)
            tol = 1e-9 * (self.l1 - self.l0) + 1e-12 * (1 + abs(self.l0) + abs(self.l1))
            return None if abs(math.log10(v) - y) <= tol else "log-uniform quantile is 10**%r, value 10**%r" % (y, math.log10(v))
        zr = std_quantile(u)
        if self.fam == "gaussian":
            zc = (v - self.mean) / self.sigma
            cond = 9e-16 * (abs(v) + abs(self.mean)) / self.sigma if math.isfinite(v) else 0.0
        else:
            if q < 1e-300:
                return None
            if v < 0:
                return "log-normal value %r is negative" % v
            y = -INF if v == 0 else (INF if math.isinf(v) else math.log(v))
            zc = (y - self.mean) / self.sigma
            cond = 9e-16 * (2 + (abs(y) if math.isfinite(y) else 0.0) + abs(self.mean)) / self.sigma
        # compared in score space, relative to |z|.  Above TAIL_U the binary64 resolution of the unit value itself
        # (2.3e-16 absolute, i.e. 2.3e-16 / pdf(z) in score) is granted; below it the unit value is represented to
        # full relative precision and so must be the answer
        tol = 1e-9 * (1 + abs(zr)) + cond
        if u >= TAIL_U:
            p = std_pdf(zr)
            tol += 2.3e-16 / p if p > 0 else INF
        if abs(zc - zr) <= tol:
            return None
        return "declared quantile has score %r (value %r), returned value %r has score %r" % (zr, q, v, zc)


def unit_margin(u):
    return 1e-9 * min(u, 1 - u) + (2.3e-16 if u >= TAIL_U else 0.0)


def must_return(decl, glo, ghi, u):
    """True when the declared quantile at u lies inside the gate limits with a safety margin: value_for then has
    to RETURN (not raise)."""
    if not (0.0 < u < 1.0):
        return False
    m = unit_margin(u)
    u1, u2 = u - m, u + m
    if not (0.0 < u1 and u2 < 1.0):
        return False
    q1, q2 = decl.quantile(u1), decl.quantile(u2)
    if q1 is None or q2 is None or not (math.isfinite(q1) and math.isfinite(q2)):
        return False
    if decl.fam in ("loguniform", "loggaussian") and not (q1 > 1e-300):
        return False
    return glo + decl.value_margin(q1, u1) < q1 and q2 < ghi - decl.value_margin(q2, u2)


def mono_noise(fam, lo, hi, mean, sigma, v1, v2, rounded):
    """Is the decrease v1 -> v2 (v2 < v1) no larger than last-bit noise of ndtr(sqrt2*erfinv(.)) (about one ulp of
    the probability, scaled by the width / ln10*decades / sigma) ?  Decides only between the failure kinds
    `monotone-last-bit` (a known finding for neighbouring unit values) and `monotone`."""
    if not (math.isfinite(v1) and math.isfinite(v2)):
        return False
    m = max(abs(v1), abs(v2))
    if fam == "uniform":
        return v1 - v2 <= 4.5e-16 * (hi - lo) + 2 * ulp(m) + (1.01e-14 if rounded else 0.0)
    if fam == "loguniform":
        if not (v1 > 0 and v2 > 0):
            return False
        dec = (math.log10(hi) - math.log10(lo))
        return v1 - v2 <= m * (4.5e-16 * 2.31 * (dec + abs(math.log10(lo)) + abs(math.log10(hi))) + 1e-15)
    if fam == "gaussian":
        z = abs(v1 - mean) / sigma
        return v1 - v2 <= sigma * 4.5e-16 * max(1.0, z) + 2 * ulp(m) + 2 * ulp(mean)
    if not (v1 > 0 and v2 > 0):
        return False
    y = math.log(v1)
    z = abs(y - mean) / sigma
    return v1 - v2 <= m * (sigma * 4.5e-16 * max(1.0, z) + 2.3e-16 * (2 + abs(y) + abs(mean)))


def tail_inverse_tol(u, cond):
    """Tolerance of unit_value_for(value_for(u)) == u for the normal families, scaled by the condition number of the
    tail: an error dz of the score moves the tail probability p = min(u, 1-u) by p * (|z| + 1) * dz relatively
    (Mills ratio), with dz <= 4e-16 * (|z| + cond) from erfinv / ndtr (a few ulp each) and from mapping the value back
    (cond = (|value| + |mean|) / sigma).  Absolute terms: 2^-53 on the upper side (spacing of doubles below 1), and on
    the lower side only when the complement 1 - u is inexact (then `1 - 2.0*(1.0 - u)` moves u by up to 2^-54: the
    recorded finding normal-lower-tail-cancellation; for multiples of 2^-53 nothing is granted)."""
    z = abs(std_quantile(u))
    p = min(u, 1 - u)
    if 4e-16 * (z + 1) * (z + cond) > 0.01:
        return INF                  # the value cannot carry the score (|mean| >> sigma): only the absolute clause applies
    rel = p * (1e-12 + 4e-16 * (z + 1) * (z + cond))
    if u >= 0.5:
        return rel + 2.0 ** -53
    return rel + (0.0 if exact_complement(u) else 2.0 ** -53)


def tail_cdf_mismatch(fam, mean, sigma, x, w):
    """unit_value_for deep in a tail of a normal family against 0.5 * erfc (stdlib), relative to the tail probability."""
    if fam == "gaussian":
        z = (x - mean) / sigma
        cond = 2.3e-16 * (abs(x) + abs(mean)) / sigma
    else:
        z = (math.log(x) - mean) / sigma
        cond = 2.3e-16 * (2 + abs(math.log(x)) + abs(mean)) / sigma
    if not math.isfinite(z):
        return None
    lower, upper = 0.5 * math.erfc(-z / math.sqrt(2)), 0.5 * math.erfc(z / math.sqrt(2))
    rel = 1e-12 + (abs(z) + 1) * (cond + 4e-16 * abs(z))
    if z < 0:
        if lower < 1e-300:
            return None                                            # subnormal probabilities carry few bits
        tol = lower * rel
        return None if abs(w - lower) <= tol else "declared cdf %r (score %.4g), off by %.3g > %.3g" % (lower, z, abs(w - lower), tol)
    tol = upper * rel + 2.0 ** -53
    return None if abs((1 - w) - upper) <= tol else "declared survival probability %r (score %.4g), 1 - unit value = %r" % (upper, z, 1 - w)


class Failures:
    def __init__(self):
        self.items = []   # (kind, message, classes)

    def add(self, kind, msg, classes=()):
        if len(self.items) < 40:
            self.items.append((kind, msg, list(classes)))


def within(lo, v, hi):
    return lo <= v <= hi


def oracle_prior(c, r):
    """Returns a list of (failure kind, message, classes)."""
    F = Failures()
    msg = c.get("msg_prior") or c["prior"]
    gate = c.get("gate_prior") or c["prior"]
    how = c.get("derived", {}).get("how")
    fam = msg["family"]
    lo, hi = unhex(gate["lo"]), unhex(gate["hi"])                  # limits of the gate
    mlo, mhi = unhex(msg["lo"]), unhex(msg["hi"])                  # parameters of the message
    mean, sigma = unhex(msg.get("mean", 0.0)), unhex(msg.get("sigma", 1.0))
    # the distribution the prior DECLARES: its class with its own parameters / limits
    decl = Decl(msg)
    mdecl = Decl(msg)
    width = mhi - mlo
    ldec = (math.log10(mhi) - math.log10(mlo)) if fam == "loguniform" else None     # decades, finite for every finite range
    # derived priors: the object must carry the parameters the harness expects
    d = r.get("described", {})
    exp_cls = {"uniform": "UniformPrior", "loguniform": "LogUniformPrior", "gaussian": "GaussianPrior", "loggaussian": "LogGaussianPrior"}[fam]
    if d:
        want = {"cls": exp_cls, "lo": hexf(lo), "hi": hexf(hi)}
        if fam in ("gaussian", "loggaussian"):
            want["mean"], want["sigma"] = hexf(mean), hexf(sigma)
        got = {k: (hexf(unhex(v)) if k != "cls" else v) for k, v in d.items()}
        if how == "with_message" and fam == "loggaussian":
            # LogGaussianPrior keeps mean / sigma as attributes of its own next to the message: with_message leaves them at
            # the old values (value_for, unit_value_for and random all follow the new message; recorded in reports/sweep-C02.md)
            got.pop("mean", None), got.pop("sigma", None), want.pop("mean", None), want.pop("sigma", None)
        if got != want:
            F.add("derived", "prior obtained by %s is %s, expected %s" % (how or "constructor", got, want))
    cls = lambda u=None: input_classes(c, msg, u)
    raw_at, val_at, ign_at = {}, {}, {}
    # the cdf at a limit is clamped inside a window of 1e-14 around 0 / 1; when the conditioning of
    # (log10 x - shift) / scale is worse than that window (very narrow log-uniform ranges) unit values at the limits
    # are not required to land in [0, 1]
    narrow = fam == "loguniform" and \
        9e-16 * (2 + abs(math.log10(mlo)) + abs(math.log10(mhi))) / ldec > 5e-15
    wide_uniform = fam == "uniform" and not math.isfinite(width)
    typed, unit_at = [], {}
    for o, x in zip(c["obs"], r["obs"]):
        t = o["t"]
        if o.get("typed"):
            typed.append((o, x))             # compared below with the answer for the plain float
            continue
        if t == "raw":
            if "ok" not in x:
                F.add("exception", "message.value_for(%r) raised %s" % (unhex(o["u"]), x.get("exc")))
            else:
                raw_at[o["u"]] = unhex(x["ok"])
        elif t == "value":
            u = unhex(o["u"])
            if "ok" in x:
                v = unhex(x["ok"])
                if not o["ignore"]:
                    val_at[o["u"]] = v
                    if not within(lo, v, hi):
                        F.add("out-of-limit", "value_for(%r) silently returned %r outside the limits [%r, %r]" % (u, v, lo, hi))
                else:
                    ign_at[o["u"]] = v
            elif x.get("exc") != "PriorLimitException":
                F.add("exception", "value_for(%r, ignore=%s) raised %s: %s" % (u, o["ignore"], x.get("exc"), x.get("msg")))
            elif o["ignore"]:
                F.add("gate", "value_for(%r, ignore_prior_limits=True) raised the limit exception" % u)
            else:
                val_at[o["u"]] = None
        elif t == "rt":
            u = unhex(o["u"])
            if "v" not in x:
                F.add("exception", "round trip at %r raised %s (%s)" % (u, x.get("exc"), x.get("at", "value_for")))
                continue
            v, w = unhex(x["v"]), unhex(x["w"])
            if not (0 < u < 1) or not math.isfinite(v):
                continue
            if fam == "uniform":
                # a value outside the message's support has no cdf (nan)
                if not (width > 0 and math.isfinite(width)) or not within(mlo, v, mhi):
                    continue
                tol = 1.01e-14 + (5.1e-15 + 4.5e-16 * max(abs(mlo), abs(mhi))) / width
            elif fam == "loguniform":
                if not v > 1e-300:                     # subnormal results carry few bits
                    continue
                tol = 1.01e-14 + 9e-16 * (2 + abs(math.log10(mlo)) + abs(math.log10(mhi))) / ldec
            elif fam == "gaussian":
                tol = 1e-15 + 1e-13 * min(u, 1 - u) + 1e-15 * (abs(v) + abs(mean)) / sigma
                tol = min(tol, tail_inverse_tol(u, (abs(v) + abs(mean)) / sigma))
            else:
                if not v > 0:
                    continue
                tol = 1e-15 + 1e-13 * min(u, 1 - u) + 1e-15 * (2 + abs(math.log(v)) + abs(mean)) / sigma
                tol = min(tol, tail_inverse_tol(u, (2 + abs(math.log(v)) + abs(mean)) / sigma))
            # nan = the recomputed unit argument fell outside the clamp window [-1e-14, 1+1e-14] of transform.ndtri; that is
            # within the conditioning error of the computation when u is this close to an end (narrow log-uniform ranges)
            cond = tol - 1.01e-14
            if math.isnan(w) and fam == "loguniform" and (u + cond > 1 + 1e-14 or u - cond < -1e-14):
                continue
            if not abs(w - u) <= tol:
                F.add("inverse", "unit_value_for(value_for(%r)) = %r (value %r), off by %.3g > %.3g" % (u, w, v, abs(w - u), tol), cls(u))
        elif t == "unit":
            xx = unhex(o["x"])
            if "ok" not in x:
                F.add("exception", "unit_value_for(%r) raised %s" % (xx, x.get("exc")))
            else:
                w = unhex(x["ok"])
                unit_at[o["x"]] = w
                if o.get("tail"):
                    mm = tail_cdf_mismatch(fam, mean, sigma, xx, w)
                    if mm:
                        F.add("unit-tail", "unit_value_for(%r) = %r: %s" % (xx, w, mm))
                if within(mlo, xx, mhi) and not wide_uniform and not narrow:
                    if not (0.0 <= w <= 1.0):
                        F.add("unit-range", "unit_value_for(%r) = %r is not in [0, 1]" % (xx, w), cls())
                    elif abs(w - mdecl.cdf(xx)) > 1.01e-14 + 1e-9 + (1e-6 if fam != "uniform" else 0.0):
                        F.add("unit-value", "unit_value_for(%r) = %r, declared cdf %r" % (xx, w, mdecl.cdf(xx)), cls())
        elif t == "limits":
            if "lower" not in x:
                F.add("exception", "unit limits raised %s" % x.get("exc"))
            else:
                a, b = unhex(x["lower"]), unhex(x["upper"])
                for nm, got, direct in (("lower", x["lower"], x.get("lower_direct")), ("upper", x["upper"], x.get("upper_direct"))):
                    if direct is not None and hexf(unhex(got)) != (hexf(unhex(direct)) if direct[:1] in "0-ni" else direct):
                        F.add("unit-limits-route", "%s_unit_limit = %r but unit_value_for(%s_limit) = %r" % (
                            nm, unhex(got), nm, unhex(direct) if direct[:1] in "0-ni" else direct))
                if not wide_uniform and not narrow and not (0.0 <= a <= b <= 1.0):
                    F.add("unit-range", "unit limits (%r, %r) are not ordered inside [0, 1]" % (a, b), cls())
        elif t == "random":
            l, uu = unhex(o["l"]), unhex(o["u"])
            # the unit value the draw should use, from the declared cdf of the limits (bounded families: the documented
            # window [1e-14, 1 - 1e-14]) and the library's own random number
            if fam in ("uniform", "loguniform"):
                lul, uul = 1e-14, 1 - 1e-14
                if (lo, hi) != (mlo, mhi) and not wide_uniform:        # limits changed in place: the gate sits inside the support
                    lul = min(max(mdecl.cdf(lo), 1e-14), 1 - 1e-14)
                    uul = min(max(mdecl.cdf(hi), 1e-14), 1 - 1e-14)
            elif fam == "uniform" and wide_uniform:
                lul, uul = 0.0, 1.0
            else:
                lul = mdecl.cdf(lo) if lo > -INF else 0.0
                uul = mdecl.cdf(hi) if hi < INF else 1.0
            a, b = max(l, lul), min(uu, uul)
            U = a + (b - a) * unhex(x["r"]) if "r" in x and a < b else None
            if "ok" in x:
                v = unhex(x["ok"])
                if not within(lo, v, hi):
                    F.add("out-of-limit", "random(%r, %r) [seed %d] drew %r outside the limits [%r, %r]" % (l, uu, o["seed"], v, lo, hi))
                elif U is not None and 0 < U < 1:
                    mm = mdecl.mismatch(v, U)
                    if mm:
                        F.add("random-quantile", "random(%r, %r) [seed %d] should map unit value %r: %s" % (l, uu, o["seed"], U, mm), cls(U))
            elif x.get("exc") != "PriorLimitException":
                F.add("exception", "random() raised %s: %s" % (x.get("exc"), x.get("msg")))
            elif U is not None and must_return(mdecl, lo, hi, U) and \
                    must_return(mdecl, lo, hi, min(U * (1 + 1e-6), 0.999999)) and must_return(mdecl, lo, hi, U * (1 - 1e-6)):
                F.add("random-raises", "random(%r, %r) [seed %d] raised the limit exception although the unit window [%r, %r] "
                      "is not empty (unit value %r, declared quantile %r inside [%r, %r])" % (
                          l, uu, o["seed"], a, b, U, mdecl.quantile(U), lo, hi), cls(U))
    # SWEEP class 2 / 3: the answer depends on the NUMBER handed over, not on its container, numeric type or route
    for o, x in typed:
        t = o["t"]
        ut = o.get("ut") or o.get("via") or "negative-zero"
        what = "float(prior), i.e. value_for(0.5)," if o.get("via") == "float" else "%s(%s %r)" % ({"raw": "message.value_for", "value": "value_for", "unit": "unit_value_for"}[t], ut,
                              unhex(o["x"] if t == "unit" else o["u"]))
        if t == "unit":
            ref = unit_at.get(o["x"], "missing")
        elif t == "raw":
            ref = raw_at.get(o.get("ref", o["u"]), "missing")
        elif ut in F32_UT:
            ref = raw_at.get(o["u"], "missing")
        else:
            ref = val_at.get(o["u"], "missing")            # None = the plain call raised the limit exception
        if ref == "missing":
            continue
        if "ok" not in x:
            if x.get("exc") == "PriorLimitException" and t == "value" and not o.get("ignore"):
                if ref is not None:
                    F.add("unit-type", "%s raised the limit exception, the same number as a float maps to %r" % (what, ref))
            else:
                F.add("unit-type", "%s raised %s: %s" % (what, x.get("exc"), x.get("msg")))
            continue
        v = unhex(x["ok"])
        if ref is None:
            F.add("unit-type", "%s returned %r, the same number as a float raises the limit exception" % (what, v))
        elif ut in F32_UT:
            u = unhex(o["u"])
            if not decl.ok or narrow or math.isnan(ref):
                continue
            # binary32 arithmetic inside NormalMessage.value_for: t = 1 - 2(1 - u) carries <= 1.5 * 2^-24 absolute (0.75 * 2^-24
            # in the unit value), erfinv <= 1 ulp32 relative; in unit space that is 2^-23 + 2^-22 |z| pdf(z), plus the
            # conditioning of mapping the value back (the terms of the inverse clause)
            if not math.isfinite(v):
                continue                 # overflow of the 14-decimal rounding under ignore_prior_limits=True (huge uniform ranges)
            z = std_quantile(u)
            tol = 2.0 ** -23 + 2.0 ** -22 * abs(z) * std_pdf(z)
            if fam == "uniform":
                tol += 2 * (1.01e-14 + (5.1e-15 + 4.5e-16 * max(abs(mlo), abs(mhi))) / width)
            elif fam == "loguniform":
                tol += 2 * (1.01e-14 + 9e-16 * (2 + abs(math.log10(mlo)) + abs(math.log10(mhi))) / ldec)
            elif math.isfinite(v) and math.isfinite(ref):
                y = abs(v) if fam == "gaussian" else (2 + abs(math.log(v)) if v > 0 else INF)
                tol += 2e-15 * (y + abs(mean)) / sigma
            w1, w0 = mdecl.cdf(v), mdecl.cdf(ref)
            if not abs(w1 - w0) <= tol:
                F.add("unit-type", "%s = %r sits at probability %r of the declared distribution, the same number as a float "
                      "maps to %r at %r: off by %.3g > %.3g (binary32 tolerance)" % (what, v, w1, ref, w0, abs(w1 - w0), tol))
        elif hexf(v) != hexf(ref) and not (v == 0.0 and ref == 0.0):
            # numpy evaluates 10**x / exp / log10 / log of an ARRAY in a vectorised loop whose last bit may differ from the
            # scalar routine: 1-element arrays through the log families are compared within 4 ulp (value) / the
            # conditioning of the cdf (unit value), everything else bit for bit
            if ut == "a1" and fam in ("loguniform", "loggaussian") and math.isfinite(v) and math.isfinite(ref):
                if t != "unit" and abs(v - ref) <= 4 * ulp(ref):
                    continue
                if t == "unit" and abs(v - ref) <= 1e-13 + (9e-16 * (2 + abs(math.log10(mlo)) + abs(math.log10(mhi))) / ldec if fam == "loguniform" else 1e-15 / sigma):
                    continue
            F.add("unit-type", "%s = %r, the same number as a float gives %r" % (what, v, ref))
    # SWEEP class 1: the same call on the same object later on, and on a fresh object built the same way, answers the same
    for route, items in sorted((r.get("history") or {}).items()):
        for it in items[:2]:
            o = c["obs"][it["k"]] if it["k"] >= 0 else None
            F.add("history", "%s: observation %s answered %s the first time and %s %s" % (
                route, json.dumps(o), json.dumps(it["first"]), json.dumps(it["second"]),
                "when asked again after the other uses of the same object" if route == "again" else "on a fresh object built the same way"))
    # gate consistency: raise exactly when the message value is outside the limits; returned value is that value
    for uh, raw in raw_at.items():
        if uh in val_at:
            v = val_at[uh]
            inside = within(lo, raw, hi)
            if v is None and inside:
                F.add("gate", "value_for(%r) raised although the mapped value %r lies within [%r, %r]" % (unhex(uh), raw, lo, hi))
            if v is not None and not inside:
                F.add("gate", "value_for(%r) returned %r although the mapped value %r is outside [%r, %r]" % (unhex(uh), v, raw, lo, hi))
            if v is not None and inside:
                if fam != "uniform" and hexf(v) != hexf(raw):
                    F.add("gate", "value_for(%r) returned %r, the message maps to %r" % (unhex(uh), v, raw))
                if fam == "uniform" and not abs(v - raw) <= 5.01e-15 + 2 * ulp(raw):
                    F.add("rounding", "value_for(%r) returned %r, more than 5e-15 from the mapped value %r" % (unhex(uh), v, raw))
        if uh in ign_at and math.isfinite(raw):
            v = ign_at[uh]
            if fam != "uniform" and hexf(v) != hexf(raw):
                F.add("gate", "value_for(%r, ignore) returned %r, the message maps to %r" % (unhex(uh), v, raw))
            if fam == "uniform" and math.isfinite(raw * 1e14) and not abs(v - raw) <= 5.01e-15 + 2 * ulp(raw):
                F.add("rounding", "value_for(%r, ignore) returned %r, mapped value %r" % (unhex(uh), v, raw))
    # the declared quantile decides whether value_for has to return, and what it has to return
    for uh, v in val_at.items():
        u = unhex(uh)
        if not (0.0 < u < 1.0):
            continue
        if v is None:
            if must_return(decl, lo, hi, u):
                F.add("must-return", "value_for(%r) raised the limit exception although the declared quantile %r lies inside "
                      "the limits [%r, %r]" % (u, decl.quantile(u), lo, hi), cls(u))
            continue
        mm = decl.mismatch(raw_at.get(uh, v) if fam == "uniform" else v, u)
        if mm:
            F.add("quantile", "value_for(%r): %s" % (u, mm), cls(u))
    for uh, v in ign_at.items():
        u = unhex(uh)
        if 0.0 < u < 1.0 and uh not in val_at:
            mm = mdecl.mismatch(raw_at.get(uh, v) if fam == "uniform" else v, u)
            if mm:
                F.add("quantile", "value_for(%r, ignore): %s" % (u, mm), cls(u))
    # monotone in the unit value (message values and returned values)
    for name, table, rounded in (("message value", raw_at, False), ("returned value", val_at, True),
                                 ("returned value (limits ignored)", ign_at, True)):
        pts = sorted((unhex(uh), v) for uh, v in table.items() if v is not None and 0.0 <= unhex(uh) <= 1.0 and not math.isnan(v))
        for (u1, v1), (u2, v2) in zip(pts, pts[1:]):
            if v2 < v1:
                if mono_noise(fam, mlo, mhi, mean, sigma, v1, v2, rounded and fam == "uniform"):
                    F.add("monotone-last-bit", "%s decreases in the last bits: f(%r) = %r > f(%r) = %r" % (name, u1, v1, u2, v2),
                          [CL_LASTBIT] if u2 - u1 <= 2.0 ** -49 else [])
                else:
                    F.add("monotone", "%s decreases: f(%r) = %r > f(%r) = %r" % (name, u1, v1, u2, v2))
                break
    return F.items


def oracle_vector(c, r):
    F = Failures()
    k = len(c["priors"])
    if r["id_order"] != list(range(k)):
        F.add("vector", "priors ordered by id are %s, creation order is 0..%d" % (r["id_order"], k - 1))
    if r["prior_count"] != k:
        F.add("vector", "prior_count %s for %d distinct priors" % (r["prior_count"], k))
    single = r["single"]
    any_exc = [s for s in single if "ok" not in s]
    vec = r["vector"]
    for s in any_exc:
        if s.get("exc") != "PriorLimitException":
            F.add("exception", "value_for raised %s" % s.get("exc"))
    if "ok" in vec:
        if any_exc:
            F.add("gate", "vector_from_unit_vector returned although a prior raised the limit exception")
        elif [hexf(unhex(x)) for x in vec["ok"]] != [hexf(unhex(s["ok"])) for s in single]:
            F.add("vector", "vector %s differs from the per-prior values %s" % (vec["ok"], [s["ok"] for s in single]))
        for spec, x, uh in zip(c["priors"], vec["ok"], c["us"]):
            lo, hi, v, u = unhex(spec["lo"]), unhex(spec["hi"]), unhex(x), unhex(uh)
            if not c["ignore"] and not within(lo, v, hi):
                F.add("out-of-limit", "vector entry %r outside the limits [%r, %r] of its %s prior" % (v, lo, hi, spec["family"]))
            if 0 < u < 1 and (not c["ignore"] or within(lo, v, hi)):
                mm = Decl(spec).mismatch(v, u)
                if mm:
                    F.add("quantile", "vector entry for unit value %r: %s" % (u, mm), input_classes(c, spec, u))
    else:
        if vec.get("exc") != "PriorLimitException":
            F.add("exception", "vector_from_unit_vector raised %s: %s" % (vec.get("exc"), vec.get("msg")))
        elif not any_exc:
            F.add("gate", "vector_from_unit_vector raised although every prior returns a value")
        else:
            for spec, s, uh in zip(c["priors"], single, c["us"]):
                u = unhex(uh)
                if "ok" not in s and not c["ignore"] and must_return(Decl(spec), unhex(spec["lo"]), unhex(spec["hi"]), u):
                    F.add("must-return", "vector_from_unit_vector raised for unit value %r of a %s prior whose declared quantile "
                          "lies inside its limits" % (u, spec["family"]), input_classes(c, spec, u))
    return F.items


# ---------------------------------------------------------------------------
# Coq printer
# ---------------------------------------------------------------------------

def cf(h):
    return cfloat(unhex(h))


def coq_prior(spec):
    return "(mkPrior %s %s %s %s %s)" % (COQ_FAMILY[spec["family"]], cf(spec.get("mean", 0.0)), cf(spec.get("sigma", 1.0)),
                                        cf(spec["lo"]), cf(spec["hi"]))


def coq_table(rows):
    return clist(["(%d%%positive, %s, %s)" % (fn, cf(a), cf(v)) for fn, a, v in rows])


def coq_result(x):
    if "ok" in x:
        return "(Ok %s)" % cf(x["ok"])
    if x.get("exc") == "PriorLimitException":
        return "LimitExc"
    return None


def coq_obs(o, x, fam=None):
    """Coq terms (possibly several) for one observation; [] when the outcome is not expressible
    (unexpected exception: already reported by the oracle)."""
    t = o["t"]
    if o.get("ut") in F32_UT:
        return []                                  # binary32 arithmetic is outside the binary64 model: oracle only
    if o.get("ut") == "a1" and fam in ("loguniform", "loggaussian"):
        return []                                  # numpy's vectorised 10**x / exp / log loops: last bit differs from the scalar tables
    if t == "value":
        e = coq_result(x)
        return ["OValue %s %s %s" % (cf(o["u"]), cbool(o["ignore"]), e)] if e else []
    if t == "raw":
        return ["ORaw %s %s" % (cf(o["u"]), cf(x["ok"]))] if "ok" in x else []
    if t == "rt":
        if "v" not in x:
            return []
        return ["OValue %s true (Ok %s)" % (cf(o["u"]), cf(x["v"])), "OUnit %s %s" % (cf(x["v"]), cf(x["w"]))]
    if t == "unit":
        return ["OUnit %s %s" % (cf(o["x"]), cf(x["ok"]))] if "ok" in x else []
    if t == "limits":
        return ["OLimits %s %s" % (cf(x["lower"]), cf(x["upper"]))] if "lower" in x else []
    if t == "random":
        e = coq_result(x)
        return ["ORandom %s %s %s %s" % (cf(o["l"]), cf(o["u"]), cf(x["r"]), e)] if e else []
    return []


def coq_case(c, r, only_obs=None):
    if c["kind"] == "prior":
        terms = []
        for k, (o, x) in enumerate(zip(c["obs"], r["obs"])):
            if only_obs is not None and k != only_obs:
                continue
            terms += coq_obs(o, x, (c.get("msg_prior") or c["prior"])["family"])
        msg = c.get("msg_prior") or c["prior"]
        gate = c.get("gate_prior") or c["prior"]
        if msg != gate:
            return "CDerived %s %s %s %s" % (coq_prior(msg), coq_prior(gate), coq_table(r["table"]), clist(terms))
        return "CPrior %s %s %s" % (coq_prior(msg), coq_table(r["table"]), clist(terms))
    vec = r["vector"]
    if "ok" in vec:
        e = "(VOk %s)" % clist([cf(x) for x in vec["ok"]])
    elif vec.get("exc") == "PriorLimitException":
        e = "VLimitExc"
    else:
        return None
    return "CVector %s %s %s %s %s" % (clist([coq_prior(s) for s in c["priors"]]), coq_table(r["table"]),
                                      clist([cf(u) for u in c["us"]]), cbool(c["ignore"]), e)


def nontrivial(c):
    if c["kind"] == "prior":
        us = {o["u"] for o in c["obs"] if o["t"] == "raw" and 0.0 < unhex(o["u"]) < 1.0}
        return len(us) >= 8
    return len(c["priors"]) >= 2 and c["attr_order"] != sorted(c["attr_order"])


def case_key(c):
    return {k: v for k, v in c.items() if k not in ("shape",)}


# ---------------------------------------------------------------------------
# run
# ---------------------------------------------------------------------------

def run(ctx):
    ctx.rule = ("a case is one prior (family uniform / log-uniform / gaussian / log-gaussian, finite parameters, limits incl. far "
                "tails, tiny widths, >14-decimal limits, up to 600 decades; built by its constructor or derived through "
                "with_limits / new / from_dict / pickle / deepcopy / with_message / in-place re-assignment of the limits, every "
                "derivation AFTER the prior was used) with a sorted set of unit values (0, 1, -0.0, 2^-53, 1-2^-53, denormals, grid, "
                "random, last-bit neighbours, dyadic values deep in both tails, a few malformed; float / int / bool / numpy float64 "
                "/ 0-d array / 1-element array / binary32 scalar and array) observed through "
                "message.value_for, Prior.value_for (limits enforced by default argument or keyword / ignored), unit_value_for "
                "round trips, float(prior), the cdf deep in both tails, lower/upper_unit_limit (and unit_value_for of the limits) and "
                "seeded Prior.random (default and explicit bounds); every observation is asked again of the same object "
                "afterwards, of a fresh object, and (derived priors) of the prior derived from; or one Collection of "
                "1-7 priors (some under several attribute names, some equal but distinct) through vector_from_unit_vector.  A prior case is non-trivial when it carries >= 8 distinct unit "
                "values strictly inside (0,1); a vector case when it has >= 2 priors whose attribute order differs from id "
                "order; distinct = distinct abstract input (prior parameters + derivation + observations)")
    ctx.trusted = [
        "Coq 8.16.1 kernel incl. vm_compute; primitive floats are kernel primitives; Reals axioms of the standard library "
        "(ClassicalDedekindReals.sig_forall_dec, sig_not_dec, functional_extensionality_dep, classic)",
        "scipy.special erfinv/ndtr/ndtri, numpy log10/power/exp/log: modelled as Section variables with hypotheses (Phi strictly "
        "increasing with inverse PhiInv, sqrt2*erfinv(t) = PhiInv((1+t)/2)); in the correspondence they are finite oracle tables "
        "taken directly from the library by harness/impl/c02_oracle.py.  binary64 scipy does NOT satisfy the hypotheses to the "
        "last bit (known finding last-bit-nonmonotone) nor in the lower tail (known finding normal-lower-tail-cancellation)",
        "numpy scalar round(x, 14) modelled as rint(x*1e14)/1e14 in binary64 and scipy.stats.norm.cdf as ndtr((x-loc)/scale) "
        "(bit-exact in the correspondence for the library versions recorded in coverage.notes); over the reals an arbitrary "
        "monotone idempotent function within 5e-15 of the identity; over Q the exact decimal rounding",
        "correspondence harness c02.py / impl/c02_impl.py / impl/c02_oracle.py; Python float.hex, random.Random(seed).random()",
        "not modelled / not run: the JAX code path (USE_JAX=1; jax is not installed, assert_within_limits returns at once there, "
        "so the gate part of the property does not hold under JAX), array-valued unit arguments, with_message / project",
    ]
    ctx.assumptions = [
        "theorems over R hold for unit values strictly inside (0,1) (erfinv is infinite at the ends); the ends have the theorems "
        "C02_value_for_at_zero/_at_one_* under the single assumption ndtr(sqrt2*erfinv(-1/+1)) = 0/1; nan and binary64 "
        "rounding are covered by the bit-exact correspondence and by the oracle only",
        "the property oracle compares with stdlib references (statistics.NormalDist, math.erfc); it demands a RETURN whenever the "
        "declared quantile lies inside the limits (unit margin 1e-9 relative + 2.3e-16 above 6e-8), compares tails in score "
        "space relative to |z|, and demands that random() does not raise on a non-empty unit window; a search aid, not evidence",
        "sweep clauses of the oracle: (unit-type) the same number as numpy float64 / 0-d array / 1-element array / int / bool / "
        "-0.0 gives the bit-identical answer (1-element arrays through the log families: 4 ulp, numpy's vectorised 10**x / exp / "
        "log loops), as binary32 the answer within 2^-23 + 2^-22 |z| pdf(z) in unit space plus conditioning; (unit-tail) the cdf "
        "of the normal families deep in both tails relative to the tail probability (1e-12 + (|z|+1) * conditioning); (inverse) "
        "unit_value_for(value_for(u)) = u relative to min(u, 1-u) with the Mills-ratio condition number, absolute 2^-53 granted "
        "only above 1/2 or when 1-u is inexact; (history) identical answers when asked again, from a fresh object and from the "
        "prior derived from; (unit-limits-route) lower/upper_unit_limit = unit_value_for(lower/upper_limit) bit for bit.  "
        "UniformPrior.value_for of an array with a dimension raises TypeError (Python round()) on the pinned tree: such unit "
        "values reach uniform priors through message.value_for only.  LogGaussianPrior.with_message leaves the prior's own "
        "mean / sigma attributes at the old values (mapping, cdf and draws follow the new message): not compared",
        "UniformPrior.value_for is modelled as repaired in 9c8aefe (code_variant = Repaired), LogUniformPrior's scale as "
        "repaired in e638353 (loguniform_variant = LURatioGuard), with_limits as an ordinary constructor call since d755794; "
        "the theorems named C02_before_fix_* and the Witness examples named *_legacy* describe the code before those commits "
        "and are kept as the record of the findings; obligations regression:* fail if a repaired behaviour regresses",
    ]
    built = ctx.build()
    cases = gen_cases(ctx)
    if ctx.replay:
        rp = json.load(open(ctx.replay))
        if rp.get("case"):
            cases = [rp["case"]]
    chunks = [cases[i::common.NCPU] for i in range(common.NCPU)]
    chunks = [ch for ch in chunks if ch]
    outs = common.run_impl_parallel("c02_impl", [{"cases": ch} for ch in chunks], timeout=1500)
    results = [None] * len(cases)
    for ci, (ch, out) in enumerate(zip(chunks, outs)):
        if "__error__" in out:
            ctx.obligation("impl-driver", "harness", False, out["__error__"][-800:])
            return
        ctx.notes["library_versions"] = out.get("versions")
        for k, res in enumerate(out["results"]):
            results[ci + k * len(chunks)] = res
    coq_cases, coq_idx = [], []
    pin_fail = []
    for i, (c, r) in enumerate(zip(cases, results)):
        kind = c["kind"] if c["kind"] == "vector" else c["prior"]["family"]
        ctx.count_case(case_key(c), nontrivial(c), kind)
        ctx.oracle["cases"] += 1
        if c["kind"] == "prior":
            ctx.hist("shape:" + c["prior"]["family"], c.get("shape"))
            ctx.hist("observations", len(c["obs"]))
            for o in c["obs"]:
                if o.get("typed"):
                    ctx.hist("unit-type", "%s:%s" % (o["t"], o.get("ut") or o.get("via") or "negative-zero"))
                if o.get("tail"):
                    ctx.hist("tail-cdf-points", c["prior"]["family"])
                if o["t"] == "rt" and 0 < unhex(o["u"]) < 1 and exact_complement(unhex(o["u"])) and min(unhex(o["u"]), 1 - unhex(o["u"])) < 1e-3:
                    ctx.hist("dyadic-tail-round-trips", "lower" if unhex(o["u"]) < 0.5 else "upper")
        else:
            ctx.hist("vector-size", len(c["priors"]))
            ctx.hist("vector-shared-paths", len(c.get("share", [])))
            ctx.hist("vector-equal-but-distinct-priors", len(c["priors"]) - len({json.dumps(q, sort_keys=True) for q in c["priors"]}))
        if "exc" in r:
            ctx.oracle["failures"] += 1
            ctx.failure("oracle", "driver raised: %s" % json.dumps(r)[:300], c, impl=r)
            continue
        ro = r["ok"]
        if "ctor_exc" in ro:
            if ro["ctor_exc"] == c.get("expect_ctor_exc"):
                ctx.hist("outcome:derive", ro["ctor_exc"])          # empty intersection of limits: refused, as it must be
            else:
                ctx.oracle["failures"] += 1
                ctx.failure("oracle", "constructor / derivation raised: %s" % json.dumps(ro)[:300], c, impl=ro)
                if c.get("pin"):
                    pin_fail.append((c["pin"], "derivation raised %s" % ro["ctor_exc"]))
            continue
        if c.get("expect_ctor_exc"):
            ctx.oracle["failures"] += 1
            ctx.failure("oracle", "derivation was expected to raise %s but returned a prior" % c["expect_ctor_exc"], c, impl=ro.get("described"))
            continue
        fails = oracle_prior(c, ro) if c["kind"] == "prior" else oracle_vector(c, ro)
        if c["kind"] == "prior":
            for o, x in zip(c["obs"], ro["obs"]):
                ctx.hist("outcome:" + o["t"], "ok" if ("ok" in x or "v" in x or "lower" in x) else x.get("exc"))
        seen = set()
        for kind_, msg, classes in fails:
            key = (kind_, tuple(classes))
            if key in seen:
                continue
            seen.add(key)
            ctx.oracle["failures"] += 1
            ctx.hist("oracle-failure", kind_ + ("/" + "+".join(classes) if classes else ""))
            # a known finding explains only the failure kinds it is about
            allowed = {CL_TAIL: ("must-return", "random-raises", "quantile", "random-quantile", "inverse"),
                       CL_LASTBIT: ("monotone-last-bit",)}
            eff = [cl for cl in classes if kind_ in allowed.get(cl, ())]
            if c.get("pin") and not eff:
                pin_fail.append((c["pin"], "[%s] %s" % (kind_, msg)))
            ctx.failure("oracle", "[%s] %s" % (kind_, msg), c, classes=eff, impl={"failures": [list(f) for f in fails[:4]]})
        cc = coq_case(c, ro)
        if cc:
            coq_cases.append(cc)
            coq_idx.append(i)
        if i % 23 == 0:
            small = {"kind": c["kind"], "prior": c.get("prior"), "derived": c.get("derived"), "priors": c.get("priors"),
                     "n_obs": len(c.get("obs", [])), "first_obs": c.get("obs", [])[:3], "us": c.get("us")}
            ctx.sample({k: v for k, v in small.items() if v is not None}, limit=8)
    # former findings must stay repaired: their pinned cases pass without a single oracle failure (failures explained by
    # a finding that is still open do not count) and, below, agree with the model
    for sig in sorted(set(PINS.values()) | {"with-limits-keeps-message"}):
        bad_pins = [p for p in pin_fail if p[0] == sig]
        n = sum(1 for c in cases if c.get("pin") == sig)
        ctx.obligation("regression:" + sig, "regression", not bad_pins and (n > 0 or bool(ctx.replay)),
                       "%d pinned cases pass" % n if not bad_pins else "; ".join(p[1] for p in bad_pins)[:600])
    if os.path.exists(os.path.join(common.COQ, "C02", "Model.vo")):
        hdr = ctx.header(["Common.PyFloat", "Model"])
        bad, log = ctx.eval_cases(hdr, "case", "check_case", coq_cases, shard=40 if ctx.tier == "thorough" else 20)
        if bad:
            for n_bad, b in enumerate(bad[:5]):
                i = coq_idx[b]
                c, ro = cases[i], results[i]["ok"]
                detail = None
                if c["kind"] == "prior" and n_bad < 2:     # name the disagreeing observations of the first two
                    single, idx = [], []
                    for k in range(len(c["obs"])):
                        if coq_obs(c["obs"][k], ro["obs"][k], (c.get("msg_prior") or c["prior"])["family"]):
                            single.append(coq_case(c, ro, only_obs=k))
                            idx.append(k)
                    bad1, _ = common.coq_eval_cases("C02", hdr, "case", "check_case", single, ctx.rundir, tag="diag%d" % b, shard=400)
                    if bad1:
                        detail = [{"obs": c["obs"][idx[j]], "impl": ro["obs"][idx[j]]} for j in bad1[:4]]
                fails = oracle_prior(c, ro) if c["kind"] == "prior" else oracle_vector(c, ro)
                unexplained = [f for f in fails if not f[2]]
                ctx.failure("correspondence", "model and implementation disagree on a %s case%s" % (
                    c["kind"] if c["kind"] == "vector" else c["prior"]["family"],
                    (": " + json.dumps(detail)[:600]) if detail else ""),
                    c, impl={"disagreeing_observations": detail}, broken={"kind": "correspondence", "name": "C02.check_case"},
                    found_input=bool(unexplained))
    else:
        ctx.obligation("correspondence:cases", "correspondence", False, "Model.vo not built")


MANIFEST = {
    "text": "Coq 8.16 theorems over one generic Gallina model of the four prior families (the transform stack the code builds: "
            "erfinv-based normal quantile, phi / linear-shift / log10 / log transforms, limit gate, 14-digit rounding, unit limits, "
            "random draws, derived priors, vector_from_unit_vector): monotonicity, cdf-inverse, declared quantile, limit gate, "
            "end points and never-raising random draws for all parameters and all unit values in (0,1) over the reals (special "
            "functions as hypotheses), a by-induction theorem for arbitrary transform stacks, the rounding/gate interplay over Q; "
            "the prior OBJECT as a state machine (uses, in-place re-assignment of the limits, an arbitrary memo): for every sound "
            "memo policy every history answers as the memo-less object, each answer a function of (message, limits in force, "
            "query) only, returned values within the limits in force; a memo keyed by the query alone refuted; "
            "the same Gallina terms instantiated with binary64 + oracle tables from scipy are compared bit-for-bit (vm_compute) with "
            "the running code, plus a direct property oracle with stdlib references that demands a return wherever the declared "
            "quantile lies inside the limits, on every generated case; every case also carries use / derive-or-change / use-again "
            "histories compared with fresh objects, the same unit value in numpy containers and binary32, dyadic unit values and "
            "cdf points deep in both tails with condition-number-scaled relative tolerances, shared and equal-but-distinct priors "
            "in vectors",
    "note": "Trusted: Coq kernel + vm_compute + stdlib Reals axioms, the harness, scipy/numpy special functions (hypotheses over R; "
            "oracle tables in the correspondence). The theorems are over exact reals: in binary64 the property still fails in two "
            "recorded ways (known findings with float witnesses: lower-tail cancellation of the normal quantile below 6e-8, "
            "last-bit non-monotonicity); three former findings are repaired in /repo (rounding after the limit check 9c8aefe, "
            "log-uniform ratio overflow e638353, with_limits keeping the old message d755794) and pinned by regression "
            "obligations. JAX path not covered.",
    "technique": "machine-checked proof in Coq (generic model instantiated over R, Q and binary64) + vm_compute correspondence",
}
