"""C02 -- priors map the unit interval monotonically onto their support (DESIGN.md section 5, C02).

Generator (stdlib only; the check runs under the system python which has no numpy), property
oracle (independent reference: statistics.NormalDist / math.erfc, never scipy and never autofit),
Coq case printer and the run(ctx) pipeline.  The implementation and the oracle tables of the special
functions are produced by harness/impl/c02_impl.py + c02_oracle.py under /venv/bin/python.
"""
import json
import math
import os
from statistics import NormalDist

from . import common
from .common import cfloat, cbool, clist

INF = float("inf")
STD = NormalDist()
FAMILIES = ["uniform", "loguniform", "gaussian", "loggaussian"]
COQ_FAMILY = {"uniform": "Uniform", "loguniform": "LogUniform", "gaussian": "Gaussian", "loggaussian": "LogGaussian"}
KNOWN_CLASS = "uniform-limits-not-14dp"


def hexf(x):
    x = float(x)
    if math.isnan(x):
        return "nan"
    if math.isinf(x):
        return "inf" if x > 0 else "-inf"
    return x.hex()


def unhex(s):
    if isinstance(s, (int, float)):
        return float(s)
    if s in ("nan", "inf", "-inf"):
        return float(s)
    return float.fromhex(s)


def np_round14(x):
    """numpy scalar round(x, 14): rint(x * 1e14) / 1e14 in binary64 (value only; sign of zero ignored)."""
    y = x * 1e14
    if math.isnan(y) or math.isinf(y):
        return y
    if abs(y) < 2.0 ** 52:
        y = float(round(y))            # Python round(float) -> int is exact half-even
    return y / 1e14


def ulp(x):
    return math.ulp(x) if math.isfinite(x) else 0.0


# ---------------------------------------------------------------------------
# generator
# ---------------------------------------------------------------------------

def some_number(rng):
    r = rng.random()
    if r < 0.25:
        return rng.randint(-40, 40) / 4.0
    if r < 0.5:
        return round(rng.uniform(-100, 100), rng.randint(0, 6))
    if r < 0.8:
        return rng.uniform(-1, 1) * 10.0 ** rng.randint(-8, 8)
    return rng.uniform(-1, 1) * 10.0 ** rng.randint(-30, 30)


def gen_uniform(rng):
    shape = rng.choice(["ordinary", "ordinary", "decimal", "tiny-width", "tiny-width", "many-decimals", "huge",
                        "zero-based-tiny", "asymmetric", "unit", "overflow"])
    if shape == "ordinary":
        lo = some_number(rng)
        hi = lo + abs(some_number(rng)) + 10.0 ** rng.randint(-3, 3)
    elif shape == "decimal":
        d = rng.randint(0, 12)
        lo = round(rng.uniform(-50, 50), d)
        hi = round(lo + rng.uniform(10.0 ** -d, 100), d)
    elif shape == "tiny-width":
        lo = rng.choice([0.0, 1.0, -1.0, rng.uniform(-10, 10), round(rng.uniform(-1, 1), 3)])
        hi = lo + rng.uniform(1, 10) * 10.0 ** rng.randint(-17, -9)
    elif shape == "many-decimals":
        lo = rng.uniform(-1, 1) * 10.0 ** rng.randint(-3, 2)
        hi = lo + rng.uniform(0, 1) * 10.0 ** rng.randint(-13, 1)
    elif shape == "huge":
        lo = rng.uniform(-1, 1) * 10.0 ** rng.randint(10, 290)
        hi = lo + rng.uniform(0.1, 1) * 10.0 ** rng.randint(10, 290)
    elif shape == "zero-based-tiny":
        lo = 0.0
        hi = rng.choice([8e-15, 1.6e-14, 2.5e-14, 6e-15, 1e-13, rng.uniform(1, 9) * 10.0 ** rng.randint(-16, -12)])
    elif shape == "asymmetric":
        lo = -rng.uniform(1, 10) * 10.0 ** rng.randint(0, 12)
        hi = rng.uniform(1, 10) * 10.0 ** rng.randint(-12, 0)
    elif shape == "unit":
        lo, hi = rng.choice([(0.0, 1.0), (-1.0, 1.0), (0.0, 2.0), (10.0, 20.0), (0.0, 1e-6), (-0.5, 0.5)])
    else:  # overflow of the rounding product x * 1e14
        lo = rng.choice([0.0, -1e295, 1e290])
        hi = rng.choice([1e300, 1e295, 5e299, 1.7e308])
    if not lo < hi:
        hi = lo + max(1.0, abs(lo) * 0.5)
    return {"family": "uniform", "lo": hexf(lo), "hi": hexf(hi)}, shape


def gen_loguniform(rng):
    shape = rng.choice(["ordinary", "ordinary", "narrow", "many-decades", "many-decades", "extreme-lo", "unit", "ratio-overflow"])
    if shape == "ordinary":
        lo = rng.uniform(1, 10) * 10.0 ** rng.randint(-8, 4)
        hi = lo * 10.0 ** rng.uniform(0.1, 8)
    elif shape == "narrow":
        lo = rng.uniform(1, 10) * 10.0 ** rng.randint(-20, 20)
        hi = lo * (1 + rng.uniform(1, 10) * 10.0 ** rng.randint(-14, -2))
    elif shape == "many-decades":
        a = rng.randint(-300, 0)
        lo = rng.uniform(1, 10) * 10.0 ** a
        hi = rng.uniform(1, 10) * 10.0 ** min(306, a + rng.randint(10, 300))
    elif shape == "extreme-lo":
        lo = rng.choice([5e-324, 1e-320, 1e-310, 2.2250738585072014e-308, 1e-300])
        hi = rng.choice([1e-300 * 10, 1.0, 1e-290, 1e5])
    elif shape == "unit":
        lo, hi = rng.choice([(1e-6, 1.0), (10.0, 1000.0), (1.0, 10.0), (1e-3, 1e3), (0.5, 2.0)])
    else:
        lo = rng.uniform(1, 10) * 10.0 ** rng.randint(-300, -200)
        hi = rng.uniform(1, 10) * 10.0 ** rng.randint(200, 300)
    if not lo < hi:
        hi = lo * 2
    return {"family": "loguniform", "lo": hexf(lo), "hi": hexf(hi)}, shape


def gen_gaussian(rng):
    shape = rng.choice(["unlimited", "unlimited", "central", "one-sided", "upper-tail", "lower-tail", "far-tail",
                        "narrow", "offset-mean", "tiny-sigma", "huge-sigma"])
    mean = some_number(rng) if rng.random() < 0.7 else 0.0
    sigma = rng.choice([1.0, 2.0, 0.5, abs(some_number(rng)) + 1e-3, 10.0 ** rng.randint(-6, 6)])
    lo, hi = -INF, INF
    if shape == "central":
        lo, hi = mean - rng.uniform(0.1, 6) * sigma, mean + rng.uniform(0.1, 6) * sigma
    elif shape == "one-sided":
        if rng.random() < 0.5:
            lo = mean + rng.uniform(-5, 5) * sigma
        else:
            hi = mean + rng.uniform(-5, 5) * sigma
    elif shape == "upper-tail":
        z = rng.uniform(2, 8)
        lo, hi = mean + z * sigma, mean + (z + rng.uniform(0.1, 4)) * sigma
    elif shape == "lower-tail":
        z = rng.uniform(2, 8)
        lo, hi = mean - (z + rng.uniform(0.1, 4)) * sigma, mean - z * sigma
    elif shape == "far-tail":
        z = rng.uniform(8, 40) * rng.choice([-1, 1])
        a, b = mean + z * sigma, mean + (z + rng.uniform(0.1, 5)) * sigma
        lo, hi = min(a, b), max(a, b)
    elif shape == "narrow":
        c = mean + rng.uniform(-2, 2) * sigma
        lo, hi = c, c + sigma * 10.0 ** rng.randint(-14, -3)
    elif shape == "offset-mean":
        mean = rng.choice([-1, 1]) * 10.0 ** rng.randint(3, 12)
        sigma = 10.0 ** rng.randint(-6, 2)
        if rng.random() < 0.5:
            lo, hi = mean - 3 * sigma, mean + 3 * sigma
    elif shape == "tiny-sigma":
        sigma = 10.0 ** rng.randint(-300, -12)
    elif shape == "huge-sigma":
        sigma = 10.0 ** rng.randint(12, 300)
    if not lo < hi:
        lo, hi = -INF, INF
    return {"family": "gaussian", "mean": hexf(mean), "sigma": hexf(sigma), "lo": hexf(lo), "hi": hexf(hi)}, shape


def gen_loggaussian(rng):
    shape = rng.choice(["unlimited", "unlimited", "central", "upper-tail", "lower-tail", "far-tail", "wide", "extreme-mean"])
    mean = rng.choice([0.0, 1.0, rng.uniform(-5, 5), rng.uniform(-50, 50)])
    sigma = rng.choice([1.0, 0.5, 2.0, rng.uniform(0.01, 3), 10.0 ** rng.randint(-6, 0)])
    lo, hi = 0.0, INF

    def ex(z):
        y = mean + z * sigma
        return math.exp(y) if y < 709 else INF

    if shape == "central":
        lo, hi = ex(-rng.uniform(0.1, 6)), ex(rng.uniform(0.1, 6))
    elif shape == "upper-tail":
        z = rng.uniform(2, 8)
        lo, hi = ex(z), ex(z + rng.uniform(0.1, 4))
    elif shape == "lower-tail":
        z = rng.uniform(2, 8)
        lo, hi = ex(-z - rng.uniform(0.1, 4)), ex(-z)
    elif shape == "far-tail":
        z = rng.uniform(8, 30) * rng.choice([-1, 1])
        a, b = ex(z), ex(z + rng.uniform(0.1, 5))
        lo, hi = min(a, b), max(a, b)
    elif shape == "wide":
        sigma = rng.uniform(3, 15)
    elif shape == "extreme-mean":
        mean = rng.choice([-1, 1]) * rng.uniform(300, 700)
        sigma = rng.uniform(0.1, 2)
    if not lo < hi:
        lo, hi = 0.0, INF
    return {"family": "loggaussian", "mean": hexf(mean), "sigma": hexf(sigma), "lo": hexf(lo), "hi": hexf(hi)}, shape


GEN = {"uniform": gen_uniform, "loguniform": gen_loguniform, "gaussian": gen_gaussian, "loggaussian": gen_loggaussian}

SPECIAL_U = [0.0, 1.0, 2.0 ** -53, 1 - 2.0 ** -53, 2.0 ** -54, 5e-324, 1e-300, 0.5, 1e-14, 1 - 1e-14, 5e-15,
             1e-17, 1 - 1e-16, 0.25, 0.75, 2.0 ** -52, 1e-15, 0.5 + 2.0 ** -53, 0.5 - 2.0 ** -54]
MALFORMED_U = [-1e-15, 1 + 2.0 ** -52, -0.5, 2.0, -5e-324, float("nan")]


def gen_units(rng, n):
    us = set(rng.sample(SPECIAL_U, min(len(SPECIAL_U), max(4, n // 3))))
    us.update([0.0, 1.0])
    while len(us) < n:
        r = rng.random()
        if r < 0.45:
            us.add(rng.random())
        elif r < 0.6:
            us.add(10.0 ** -rng.uniform(0, 20))
        elif r < 0.75:
            us.add(1 - 10.0 ** -rng.uniform(0, 16))
        elif r < 0.9:
            us.add(rng.randint(0, 16) / 16.0)
        else:  # neighbours: monotonicity at the last bit
            u = rng.random()
            us.add(u)
            us.add(math.nextafter(u, 2.0))
    return sorted(us)


def gen_prior_case(rng, fam, n_units):
    spec, shape = GEN[fam](rng)
    lo, hi = unhex(spec["lo"]), unhex(spec["hi"])
    obs = []
    for k, u in enumerate(gen_units(rng, n_units)):
        obs.append({"t": "raw", "u": hexf(u)})
        obs.append({"t": "value", "u": hexf(u), "ignore": False})
        if k % 3 == 0:
            obs.append({"t": "value", "u": hexf(u), "ignore": True})
        if k % 2 == 0:
            obs.append({"t": "rt", "u": hexf(u)})
    for u in rng.sample(MALFORMED_U, 2):
        obs.append({"t": "value", "u": hexf(u), "ignore": rng.random() < 0.3})
    obs.append({"t": "limits"})
    xs = []
    for x in (lo, hi):
        if math.isfinite(x):
            xs.append(x)
    if math.isfinite(lo) and math.isfinite(hi):
        xs += [lo + (hi - lo) * rng.random(), (lo + hi) / 2 if math.isfinite(lo + hi) else lo]
        xs += [math.nextafter(lo, -INF), math.nextafter(hi, INF)]
    else:
        m, s = unhex(spec.get("mean", 0.0)), unhex(spec.get("sigma", 1.0))
        c = m + s * rng.uniform(-3, 3)
        xs.append(math.exp(c) if fam == "loggaussian" and c < 700 else c)
    for x in sorted(set(xs)):
        if fam in ("loguniform", "loggaussian") and x < 0:
            continue
        obs.append({"t": "unit", "x": hexf(x)})
    for _ in range(3):
        if rng.random() < 0.6:
            l, u = 0.0, 1.0
        else:
            a, b = sorted([rng.random(), rng.random()])
            l, u = rng.choice([(a, b), (0.0, b), (a, 1.0)])
        obs.append({"t": "random", "l": hexf(l), "u": hexf(u), "seed": rng.randint(0, 10 ** 6)})
    return {"kind": "prior", "prior": spec, "shape": shape, "obs": obs}


def gen_vector_case(rng):
    k = rng.randint(1, 6)
    specs = []
    for _ in range(k):
        fam = rng.choice(FAMILIES)
        specs.append(GEN[fam](rng)[0])
    order = list(range(k))
    rng.shuffle(order)
    us = [rng.choice([rng.random(), rng.random(), rng.choice(SPECIAL_U)]) for _ in range(k)]
    return {"kind": "vector", "priors": specs, "attr_order": order, "us": [hexf(u) for u in us],
            "ignore": rng.random() < 0.3}


def gen_cases(ctx):
    rng = ctx.rng
    thorough = ctx.tier == "thorough"
    per_family = 260 if thorough else 56
    n_units = 28 if thorough else 20
    cases = []
    # fixed regression cases first (reading-time suspicion of DESIGN.md section 6 and its neighbours)
    fixed = [
        ({"family": "uniform", "lo": hexf(0.12345678901234568), "hi": hexf(0.123456789012346)}, "many-decimals"),
        ({"family": "uniform", "lo": hexf(0.0), "hi": hexf(8e-15)}, "zero-based-tiny"),
        ({"family": "uniform", "lo": hexf(0.0), "hi": hexf(1e300)}, "overflow"),
        ({"family": "uniform", "lo": hexf(0.0), "hi": hexf(1.0)}, "unit"),
        ({"family": "loguniform", "lo": hexf(1e-6), "hi": hexf(1.0)}, "unit"),
        ({"family": "gaussian", "mean": hexf(0.0), "sigma": hexf(1.0), "lo": hexf(-INF), "hi": hexf(INF)}, "unlimited"),
        ({"family": "loggaussian", "mean": hexf(0.0), "sigma": hexf(1.0), "lo": hexf(0.0), "hi": hexf(INF)}, "unlimited"),
    ]
    for spec, shape in fixed:
        c = gen_prior_case(rng, spec["family"], n_units)
        c["prior"], c["shape"] = spec, shape
        lo, hi = unhex(spec["lo"]), unhex(spec["hi"])
        c["obs"] = [o for o in c["obs"] if o["t"] != "unit"]
        for x in (lo, hi):
            if math.isfinite(x):
                c["obs"].append({"t": "unit", "x": hexf(x)})
        cases.append(c)
    for fam in FAMILIES:
        for _ in range(per_family):
            cases.append(gen_prior_case(rng, fam, n_units))
    for _ in range(200 if thorough else 60):
        cases.append(gen_vector_case(rng))
    return cases


# ---------------------------------------------------------------------------
# classes (computed from the case only)
# ---------------------------------------------------------------------------

def prior_classes(spec):
    if spec["family"] != "uniform":
        return []
    lo, hi = unhex(spec["lo"]), unhex(spec["hi"])
    if np_round14(lo) != lo or np_round14(hi) != hi:
        return [KNOWN_CLASS]
    return []


def case_classes(c):
    if c["kind"] == "prior":
        return prior_classes(c["prior"])
    out = []
    for s in c["priors"]:
        out += prior_classes(s)
    return sorted(set(out))


# ---------------------------------------------------------------------------
# property oracle (direct statement of C02 on the implementation's outputs)
# ---------------------------------------------------------------------------

def ref_cdf_lower(z):
    """Phi(z), relatively accurate in the lower tail."""
    return 0.5 * math.erfc(-z / math.sqrt(2))


def ref_cdf_upper(z):
    """1 - Phi(z), relatively accurate in the upper tail."""
    return 0.5 * math.erfc(z / math.sqrt(2))


def unit_mismatch(z, u, slack):
    """Does the standard-normal score z disagree with unit value u (beyond binary64 resolution of u)?"""
    if math.isnan(z):
        return True
    if u <= 0.5:
        return abs(ref_cdf_lower(z) - u) > 2.3e-16 + 1e-9 * u + slack
    return abs(ref_cdf_upper(z) - (1.0 - u)) > 2.3e-16 + 1e-9 * (1.0 - u) + slack


def mono_noise(fam, lo, hi, mean, sigma, v1, v2):
    """Is the decrease v1 -> v2 (v2 < v1) explained by last-bit noise of the special functions?  scipy's
    ndtr(sqrt2*erfinv(.)) is monotone only up to about one ulp of the probability; the transforms scale that noise by
    the width (uniform), by ln(10)*decades (log-uniform), by sigma (gaussian families).  Accuracy of the special
    functions is a hypothesis of the theorems, not a subject of this check."""
    if not (math.isfinite(v1) and math.isfinite(v2)):
        return False
    m = max(abs(v1), abs(v2))
    if fam == "uniform":
        return v1 - v2 <= 8e-16 * (hi - lo) + 4 * ulp(m) + 1.01e-14   # + one rounding step of the 14-decimal grid
    if fam == "loguniform":
        if not (v1 > 0 and v2 > 0 and math.isfinite(hi / lo)):
            return False
        dec = math.log10(hi / lo)
        return v1 - v2 <= m * (8e-16 * 2.31 * (dec + abs(math.log10(lo)) + abs(math.log10(hi))) + 2e-15)
    if fam == "gaussian":
        z = abs(v1 - mean) / sigma
        return v1 - v2 <= sigma * 8e-16 * max(1.0, z) + 4 * ulp(m) + 4 * ulp(mean)
    if not (v1 > 0 and v2 > 0):
        return False
    y = math.log(v1)
    z = abs(y - mean) / sigma
    return v1 - v2 <= m * (sigma * 8e-16 * max(1.0, z) + 4.5e-16 * (2 + abs(y) + abs(mean)))


class Failures:
    def __init__(self):
        self.items = []   # (kind, message)

    def add(self, kind, msg):
        if len(self.items) < 6:
            self.items.append((kind, msg))


def within(lo, v, hi):
    return lo <= v <= hi


def oracle_prior(c, r):
    """Returns a list of (failure kind, message)."""
    F = Failures()
    spec = c["prior"]
    fam = spec["family"]
    lo, hi = unhex(spec["lo"]), unhex(spec["hi"])
    mean, sigma = unhex(spec.get("mean", 0.0)), unhex(spec.get("sigma", 1.0))
    width = hi - lo
    raw_at, val_at, ign_at = {}, {}, {}
    # the cdf at a limit is clamped inside a window of 1e-14 around 0 / 1; when the conditioning of (log10 x - shift) / scale
    # is worse than that window (very narrow log-uniform ranges) or the scale overflows, unit values at the limits are not
    # required to land in [0, 1]
    degenerate = (fam == "uniform" and not math.isfinite(width)) or (
        fam == "loguniform" and (not math.isfinite(hi / lo) or
                                 9e-16 * (2 + abs(math.log10(lo)) + abs(math.log10(hi))) / math.log10(hi / lo) > 5e-15))
    for o, x in zip(c["obs"], r["obs"]):
        t = o["t"]
        if t == "raw":
            if "ok" not in x:
                F.add("exception", "message.value_for(%r) raised %s" % (unhex(o["u"]), x.get("exc")))
            else:
                raw_at[o["u"]] = unhex(x["ok"])
        elif t == "value":
            u = unhex(o["u"])
            if "ok" in x:
                v = unhex(x["ok"])
                if not o["ignore"]:
                    val_at[o["u"]] = v
                    if not within(lo, v, hi):
                        F.add("out-of-limit", "value_for(%r) silently returned %r outside the limits [%r, %r]" % (u, v, lo, hi))
                else:
                    ign_at[o["u"]] = v
            elif x.get("exc") != "PriorLimitException":
                F.add("exception", "value_for(%r, ignore=%s) raised %s: %s" % (u, o["ignore"], x.get("exc"), x.get("msg")))
            elif o["ignore"]:
                F.add("gate", "value_for(%r, ignore_prior_limits=True) raised the limit exception" % u)
            else:
                val_at[o["u"]] = None
        elif t == "rt":
            u = unhex(o["u"])
            if "v" not in x:
                F.add("exception", "round trip at %r raised %s (%s)" % (u, x.get("exc"), x.get("at", "value_for")))
                continue
            v, w = unhex(x["v"]), unhex(x["w"])
            if not (0 < u < 1) or not math.isfinite(v):
                continue
            if fam == "uniform":
                # a rounded value outside the limits is reported as out-of-limit; its cdf is undefined (nan)
                if not (width > 0 and math.isfinite(width)) or not within(lo, v, hi):
                    continue
                tol = 1.01e-14 + (5.1e-15 + 4.5e-16 * max(abs(lo), abs(hi))) / width
            elif fam == "loguniform":
                if not (v > 1e-300 and math.isfinite(hi / lo)):   # subnormal results carry few bits
                    continue
                dec = math.log10(hi / lo)
                tol = 1.01e-14 + 9e-16 * (2 + abs(math.log10(lo)) + abs(math.log10(hi))) / dec
            elif fam == "gaussian":
                tol = 1e-15 + 1e-13 * min(u, 1 - u) + 1e-15 * (abs(v) + abs(mean)) / sigma
            else:
                if not v > 0:
                    continue
                tol = 1e-15 + 1e-13 * min(u, 1 - u) + 1e-15 * (2 + abs(math.log(v)) + abs(mean)) / sigma
            # nan = the recomputed unit argument fell outside the clamp window [-1e-14, 1+1e-14] of transform.ndtri; that is
            # within the conditioning error of the computation when u is this close to an end (narrow log-uniform ranges)
            cond = tol - 1.01e-14
            if math.isnan(w) and fam == "loguniform" and (u + cond > 1 + 1e-14 or u - cond < -1e-14):
                continue
            if not abs(w - u) <= tol:
                F.add("inverse", "unit_value_for(value_for(%r)) = %r (value %r), off by %.3g > %.3g" % (u, w, v, abs(w - u), tol))
        elif t == "unit":
            xx = unhex(o["x"])
            if "ok" not in x:
                F.add("exception", "unit_value_for(%r) raised %s" % (xx, x.get("exc")))
            else:
                w = unhex(x["ok"])
                if within(lo, xx, hi) and not (0.0 <= w <= 1.0) and not degenerate:
                    F.add("unit-range", "unit_value_for(%r) = %r is not in [0, 1]" % (xx, w))
        elif t == "limits":
            if "lower" not in x:
                F.add("exception", "unit limits raised %s" % x.get("exc"))
            else:
                a, b = unhex(x["lower"]), unhex(x["upper"])
                if not degenerate and not (0.0 <= a <= b <= 1.0):
                    F.add("unit-range", "unit limits (%r, %r) are not ordered inside [0, 1]" % (a, b))
        elif t == "random":
            if "ok" in x:
                v = unhex(x["ok"])
                if not within(lo, v, hi):
                    F.add("out-of-limit", "random(%r, %r) [seed %d] drew %r outside the limits [%r, %r]" % (
                        unhex(o["l"]), unhex(o["u"]), o["seed"], v, lo, hi))
            elif x.get("exc") != "PriorLimitException":
                F.add("exception", "random() raised %s: %s" % (x.get("exc"), x.get("msg")))
    # gate consistency: raise exactly when the message value is outside the limits; returned value is that value
    for uh, raw in raw_at.items():
        if uh in val_at:
            v = val_at[uh]
            inside = within(lo, raw, hi)
            if v is None and inside:
                F.add("gate", "value_for(%r) raised although the mapped value %r lies within [%r, %r]" % (unhex(uh), raw, lo, hi))
            if v is not None and not inside:
                F.add("gate", "value_for(%r) returned %r although the mapped value %r is outside [%r, %r]" % (unhex(uh), v, raw, lo, hi))
            if v is not None and inside:
                if fam != "uniform" and hexf(v) != hexf(raw):
                    F.add("gate", "value_for(%r) returned %r, the message maps to %r" % (unhex(uh), v, raw))
                if fam == "uniform" and not abs(v - raw) <= 5.01e-15 + 2 * ulp(raw):
                    F.add("out-of-limit" if not within(lo, v, hi) else "quantile",
                          "value_for(%r) returned %r, more than 5e-15 from the mapped value %r" % (unhex(uh), v, raw))
        if uh in ign_at and math.isfinite(raw):
            v = ign_at[uh]
            if fam != "uniform" and hexf(v) != hexf(raw):
                F.add("gate", "value_for(%r, ignore) returned %r, the message maps to %r" % (unhex(uh), v, raw))
            if fam == "uniform" and math.isfinite(raw * 1e14) and not abs(v - raw) <= 5.01e-15 + 2 * ulp(raw):
                F.add("quantile", "value_for(%r, ignore) returned %r, mapped value %r" % (unhex(uh), v, raw))
    # monotone in the unit value (message values and returned values)
    for name, table in (("message value", raw_at), ("returned value", val_at), ("returned value (limits ignored)", ign_at)):
        pts = sorted((unhex(uh), v) for uh, v in table.items() if v is not None and 0.0 <= unhex(uh) <= 1.0 and not math.isnan(v))
        for (u1, v1), (u2, v2) in zip(pts, pts[1:]):
            if v2 < v1 and not mono_noise(fam, lo, hi, mean, sigma, v1, v2):
                F.add("monotone", "%s decreases: f(%r) = %r > f(%r) = %r" % (name, u1, v1, u2, v2))
                break
    # quantile of the declared distribution (only for values that were returned through the gate)
    for uh, v in val_at.items():
        u = unhex(uh)
        if v is None or not (0.0 < u < 1.0):
            continue
        raw = raw_at.get(uh, v)
        if fam == "uniform":
            if not math.isfinite(width):
                continue
            q = lo + u * width
            if not abs(raw - q) <= 1e-9 * width + 1e-12 * max(abs(lo), abs(hi)):
                F.add("quantile", "uniform quantile at %r is %r, value_for maps to %r" % (u, q, raw))
        elif fam == "loguniform":
            if not (raw > 0) or not math.isfinite(hi / lo):
                F.add("quantile", "log-uniform value %r at %r is not positive/finite" % (raw, u))
                continue
            if raw < 1e-300:       # subnormal results carry few bits
                continue
            l0, l1 = math.log10(lo), math.log10(hi)
            q = l0 + u * (l1 - l0)
            if not abs(math.log10(raw) - q) <= 1e-9 * (l1 - l0) + 1e-12 * (1 + abs(l0) + abs(l1)):
                F.add("quantile", "log10 of the log-uniform quantile at %r is %r, value_for maps to 10**%r" % (u, q, math.log10(raw)))
        elif fam == "gaussian":
            z = (raw - mean) / sigma
            slack = 0.4 * 9e-16 * (abs(raw) + abs(mean)) / sigma
            if unit_mismatch(z, u, slack):
                F.add("quantile", "normal quantile: value_for(%r) = %r has score %r, i.e. cdf %r" % (u, raw, z, ref_cdf_lower(z)))
        else:
            y_ref = mean + sigma * STD.inv_cdf(u) if 1e-300 < u < 1 else None
            if y_ref is None or not (-690 < y_ref < 700):
                continue           # exp under/overflows legitimately; subnormal results carry few bits
            if raw < 0 or math.isnan(raw):
                F.add("quantile", "log-normal value_for(%r) = %r but the quantile is exp(%r)" % (u, raw, y_ref))
                continue
            # exp(-inf) = 0 for u below the resolution 2^-54 of `1 - 2(1 - u)`: score -inf, cdf 0, compared in unit space
            y = -INF if raw == 0 else (INF if math.isinf(raw) else math.log(raw))
            z = (y - mean) / sigma
            slack = 0.4 * 9e-16 * (2 + (abs(y) if math.isfinite(y) else 0.0) + abs(mean)) / sigma
            if unit_mismatch(z, u, slack):
                F.add("quantile", "log-normal quantile: value_for(%r) = %r has score %r, i.e. cdf %r" % (u, raw, z, ref_cdf_lower(z)))
    return F.items


def oracle_vector(c, r):
    F = Failures()
    k = len(c["priors"])
    if r["id_order"] != list(range(k)):
        F.add("vector", "priors ordered by id are %s, creation order is 0..%d" % (r["id_order"], k - 1))
    if r["prior_count"] != k:
        F.add("vector", "prior_count %s for %d distinct priors" % (r["prior_count"], k))
    single = r["single"]
    any_exc = [s for s in single if "ok" not in s]
    vec = r["vector"]
    for s in any_exc:
        if s.get("exc") != "PriorLimitException":
            F.add("exception", "value_for raised %s" % s.get("exc"))
    if "ok" in vec:
        if any_exc:
            F.add("gate", "vector_from_unit_vector returned although a prior raised the limit exception")
        elif [hexf(unhex(x)) for x in vec["ok"]] != [hexf(unhex(s["ok"])) for s in single]:
            F.add("vector", "vector %s differs from the per-prior values %s" % (vec["ok"], [s["ok"] for s in single]))
        if not c["ignore"]:
            for spec, x in zip(c["priors"], vec["ok"]):
                lo, hi, v = unhex(spec["lo"]), unhex(spec["hi"]), unhex(x)
                if not within(lo, v, hi):
                    # tagged with the class of THIS prior only, so that the known finding cannot hide another family
                    F.add("out-of-limit" if prior_classes(spec) else "out-of-limit-other",
                          "vector entry %r outside the limits [%r, %r] of its %s prior" % (v, lo, hi, spec["family"]))
    else:
        if vec.get("exc") != "PriorLimitException":
            F.add("exception", "vector_from_unit_vector raised %s: %s" % (vec.get("exc"), vec.get("msg")))
        elif not any_exc:
            F.add("gate", "vector_from_unit_vector raised although every prior returns a value")
    return F.items


# ---------------------------------------------------------------------------
# Coq printer
# ---------------------------------------------------------------------------

def cf(h):
    return cfloat(unhex(h))


def coq_prior(spec):
    return "(mkPrior %s %s %s %s %s)" % (COQ_FAMILY[spec["family"]], cf(spec.get("mean", 0.0)), cf(spec.get("sigma", 1.0)),
                                        cf(spec["lo"]), cf(spec["hi"]))


def coq_table(rows):
    return clist(["(%d%%positive, %s, %s)" % (fn, cf(a), cf(v)) for fn, a, v in rows])


def coq_result(x):
    if "ok" in x:
        return "(Ok %s)" % cf(x["ok"])
    if x.get("exc") == "PriorLimitException":
        return "LimitExc"
    return None


def coq_obs(o, x):
    """Coq terms (possibly several) for one observation; [] when the outcome is not expressible
    (unexpected exception: already reported by the oracle)."""
    t = o["t"]
    if t == "value":
        e = coq_result(x)
        return ["OValue %s %s %s" % (cf(o["u"]), cbool(o["ignore"]), e)] if e else []
    if t == "raw":
        return ["ORaw %s %s" % (cf(o["u"]), cf(x["ok"]))] if "ok" in x else []
    if t == "rt":
        if "v" not in x:
            return []
        return ["OValue %s true (Ok %s)" % (cf(o["u"]), cf(x["v"])), "OUnit %s %s" % (cf(x["v"]), cf(x["w"]))]
    if t == "unit":
        return ["OUnit %s %s" % (cf(o["x"]), cf(x["ok"]))] if "ok" in x else []
    if t == "limits":
        return ["OLimits %s %s" % (cf(x["lower"]), cf(x["upper"]))] if "lower" in x else []
    if t == "random":
        e = coq_result(x)
        return ["ORandom %s %s %s %s" % (cf(o["l"]), cf(o["u"]), cf(x["r"]), e)] if e else []
    return []


def coq_case(c, r, only_obs=None):
    if c["kind"] == "prior":
        terms = []
        for k, (o, x) in enumerate(zip(c["obs"], r["obs"])):
            if only_obs is not None and k != only_obs:
                continue
            terms += coq_obs(o, x)
        return "CPrior %s %s %s" % (coq_prior(c["prior"]), coq_table(r["table"]), clist(terms))
    vec = r["vector"]
    if "ok" in vec:
        e = "(VOk %s)" % clist([cf(x) for x in vec["ok"]])
    elif vec.get("exc") == "PriorLimitException":
        e = "VLimitExc"
    else:
        return None
    return "CVector %s %s %s %s %s" % (clist([coq_prior(s) for s in c["priors"]]), coq_table(r["table"]),
                                      clist([cf(u) for u in c["us"]]), cbool(c["ignore"]), e)


def nontrivial(c):
    if c["kind"] == "prior":
        us = {o["u"] for o in c["obs"] if o["t"] == "raw" and 0.0 < unhex(o["u"]) < 1.0}
        return len(us) >= 8
    return len(c["priors"]) >= 2 and c["attr_order"] != sorted(c["attr_order"])


def case_key(c):
    return {k: v for k, v in c.items() if k not in ("shape",)}


# ---------------------------------------------------------------------------
# run
# ---------------------------------------------------------------------------

def run(ctx):
    ctx.rule = ("a case is one prior (family uniform / log-uniform / gaussian / log-gaussian, finite parameters, limits incl. far "
                "tails, tiny widths, >14-decimal limits, up to 600 decades) with a sorted set of unit values (0, 1, 2^-53, 1-2^-53, "
                "denormals, grid, random, last-bit neighbours, a few malformed) observed through message.value_for, Prior.value_for "
                "(limits enforced / ignored), unit_value_for round trips, lower/upper_unit_limit and seeded Prior.random; or one "
                "Collection of 1-6 priors through vector_from_unit_vector.  A prior case is non-trivial when it carries >= 8 distinct "
                "unit values strictly inside (0,1); a vector case when it has >= 2 priors whose attribute order differs from id "
                "order; distinct = distinct abstract input (prior parameters + observations)")
    ctx.trusted = [
        "Coq 8.16.1 kernel incl. vm_compute; primitive floats are kernel primitives; Reals axioms of the standard library "
        "(ClassicalDedekindReals.sig_forall_dec, sig_not_dec, functional_extensionality_dep)",
        "scipy.special erfinv/ndtr/ndtri, numpy log10/power/exp/log: modelled as Section variables with hypotheses (Phi strictly "
        "increasing with inverse PhiInv, sqrt2*erfinv(t) = PhiInv((1+t)/2)); in the correspondence they are finite oracle tables "
        "taken directly from the library by harness/impl/c02_oracle.py",
        "numpy scalar round(x, 14) modelled as rint(x*1e14)/1e14 in binary64 (bit-exact in the correspondence); over the reals an "
        "arbitrary monotone function within 5e-15 of the identity; over Q the exact decimal rounding",
        "correspondence harness c02.py / impl/c02_impl.py / impl/c02_oracle.py; Python float.hex, random.Random(seed).random()",
        "not modelled: the JAX code path (USE_JAX=1), array-valued unit arguments, prior construction errors",
    ]
    ctx.assumptions = [
        "theorems over R hold for unit values strictly inside (0,1) (erfinv is infinite at the ends); the ends, nan and binary64 "
        "rounding are covered by the bit-exact correspondence and by the oracle only",
        "the property oracle compares with stdlib references (statistics.NormalDist, math.erfc) within conditioning-aware tolerances; "
        "it is a search aid, not evidence",
        "C02_uniform_within_limits is refuted for the current code (rounding after the limit check); the guarded theorem needs "
        "limits that are fixed points of the rounding; the repaired variant is proved without guard",
    ]
    built = ctx.build()
    cases = gen_cases(ctx)
    if ctx.replay:
        rp = json.load(open(ctx.replay))
        if rp.get("case"):
            cases = [rp["case"]]
    chunks = [cases[i::common.NCPU] for i in range(common.NCPU)]
    chunks = [ch for ch in chunks if ch]
    outs = common.run_impl_parallel("c02_impl", [{"cases": ch} for ch in chunks], timeout=1500)
    results = [None] * len(cases)
    for ci, (ch, out) in enumerate(zip(chunks, outs)):
        if "__error__" in out:
            ctx.obligation("impl-driver", "harness", False, out["__error__"][-800:])
            return
        for k, res in enumerate(out["results"]):
            results[ci + k * len(chunks)] = res
    coq_cases, coq_idx = [], []
    for i, (c, r) in enumerate(zip(cases, results)):
        kind = c["kind"] if c["kind"] == "vector" else c["prior"]["family"]
        ctx.count_case(case_key(c), nontrivial(c), kind)
        ctx.oracle["cases"] += 1
        if c["kind"] == "prior":
            ctx.hist("shape:" + c["prior"]["family"], c.get("shape"))
            ctx.hist("observations", len(c["obs"]))
        else:
            ctx.hist("vector-size", len(c["priors"]))
        classes = case_classes(c)
        for cl in classes:
            ctx.hist("class", cl)
        if "exc" in r or "ctor_exc" in r.get("ok", {}):
            ctx.oracle["failures"] += 1
            ctx.failure("oracle", "driver/constructor raised: %s" % json.dumps(r)[:300], c, impl=r)
            continue
        ro = r["ok"]
        fails = oracle_prior(c, ro) if c["kind"] == "prior" else oracle_vector(c, ro)
        if c["kind"] == "prior":
            for o, x in zip(c["obs"], ro["obs"]):
                ctx.hist("outcome:" + o["t"], "ok" if ("ok" in x or "v" in x or "lower" in x) else x.get("exc"))
        seen = set()
        for kind_, msg in fails:
            if kind_ in seen:
                continue
            seen.add(kind_)
            ctx.oracle["failures"] += 1
            # the known finding explains silent out-of-limit values only; every other failure kind stays a violation
            ctx.failure("oracle", "[%s] %s" % (kind_, msg), c, classes=classes if kind_ == "out-of-limit" else [],
                        impl={"failures": fails[:4]})
        cc = coq_case(c, ro)
        if cc:
            coq_cases.append(cc)
            coq_idx.append(i)
        if i % 23 == 0:
            small = {"kind": c["kind"], "prior": c.get("prior"), "priors": c.get("priors"), "n_obs": len(c.get("obs", [])),
                     "first_obs": c.get("obs", [])[:3], "us": c.get("us")}
            ctx.sample({k: v for k, v in small.items() if v is not None}, limit=8)
    if os.path.exists(os.path.join(common.COQ, "C02", "Model.vo")):
        hdr = ctx.header(["Common.PyFloat", "Model"])
        bad, log = ctx.eval_cases(hdr, "case", "check_case", coq_cases, shard=24 if ctx.tier == "thorough" else 12)
        if bad:
            for n_bad, b in enumerate(bad[:5]):
                i = coq_idx[b]
                c, ro = cases[i], results[i]["ok"]
                detail = None
                if c["kind"] == "prior" and n_bad < 2:     # name the disagreeing observations of the first two
                    single, idx = [], []
                    for k in range(len(c["obs"])):
                        if coq_obs(c["obs"][k], ro["obs"][k]):
                            single.append(coq_case(c, ro, only_obs=k))
                            idx.append(k)
                    bad1, _ = common.coq_eval_cases("C02", hdr, "case", "check_case", single, ctx.rundir, tag="diag%d" % b, shard=400)
                    if bad1:
                        detail = [{"obs": c["obs"][idx[j]], "impl": ro["obs"][idx[j]]} for j in bad1[:4]]
                fails = oracle_prior(c, ro) if c["kind"] == "prior" else oracle_vector(c, ro)
                ctx.failure("correspondence", "model and implementation disagree on a %s case%s" % (
                    c["kind"] if c["kind"] == "vector" else c["prior"]["family"],
                    (": " + json.dumps(detail)[:600]) if detail else ""),
                    c, impl={"disagreeing_observations": detail}, broken={"kind": "correspondence", "name": "C02.check_case"},
                    found_input=bool(fails))
    else:
        ctx.obligation("correspondence:cases", "correspondence", False, "Model.vo not built")


MANIFEST = {
    "text": "Coq 8.16 theorems over one generic Gallina model of the four prior families (the transform stack the code builds: "
            "erfinv-based normal quantile, phi / linear-shift / log10 / log transforms, limit gate, 14-digit rounding, unit limits, "
            "random draws, vector_from_unit_vector): monotonicity, cdf-inverse, declared quantile, limit gate and random-draw "
            "containment for all parameters and all unit values in (0,1) over the reals (special functions as hypotheses), a "
            "by-induction theorem for arbitrary transform stacks, the rounding-after-check defect refuted/guarded/repaired over Q; "
            "the same Gallina terms instantiated with binary64 + oracle tables from scipy are compared bit-for-bit (vm_compute) with "
            "the running code, plus a direct property oracle with stdlib references on every generated case",
    "note": "Trusted: Coq kernel + vm_compute + stdlib Reals axioms, the harness, scipy/numpy special functions (hypotheses over R; "
            "oracle tables in the correspondence). Theorems over R cover unit values strictly inside (0,1); end points, nan, "
            "binary64 rounding effects are covered only by correspondence and oracle on generated cases. JAX path not covered.",
    "technique": "machine-checked proof in Coq (generic model instantiated over R, Q and binary64) + vm_compute correspondence",
}
