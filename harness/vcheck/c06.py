"""C06 -- fits resume, complete once, and survive crashes (DESIGN.md section 5, C06).

A case is a *history*: output settings + a list of runs of the same fit (same search, model,
tag, output folder), each either run to its end or killed at a chosen file-system mutation
(symbolic crash point: the occ-th event of kind K on file role R; variant before / empty / half).
The implementation driver (impl/c06_impl.py) executes every run in its own process with a
`sys.addaudithook` fault injector; the Coq model (coq/C06/Model.v) predicts, for the same history,
the mutation trace of every run, its outcome, and the folder / archive left behind."""
import json
import os

from . import common
from .common import cnat, cbool, clist

ROLES = ["Ident", "ModelInfo", "Graph", "SearchJson", "ModelJson", "Metadata", "Log", "StartTime", "Time",
         "Dill", "DillTmp", "Summary", "SamplesInfo", "SamplesCsv", "Results", "SearchSummary", "Marker",
         "SearchJsonTmp", "ModelJsonTmp", "SummaryTmp", "SamplesInfoTmp", "Attr", "AttrTmp", "ResultExtra", "ResultExtraTmp"]
JSON_TMP = {"SearchJsonTmp>SearchJson": "SearchJson", "ModelJsonTmp>ModelJson": "ModelJson",
            "SummaryTmp>Summary": "Summary", "SamplesInfoTmp>SamplesInfo": "SamplesInfo",
            "AttrTmp>Attr": "Attr", "ResultExtraTmp>ResultExtra": "ResultExtra"}
TAGGED = ("Summary", "SamplesCsv", "Dill", "DillTmp", "SummaryTmp", "ResultExtra", "ResultExtraTmp")
EXC = {"UnboundLocalError": "UnboundLocal", "SearchException": "SearchExc", "BadZipFile": "BadZip", "KeyError": "KeyErr", "EOFError": "EOFErr", "UnpicklingError": "Unpickling",
       "ValueError": "ValueErr", "JSONDecodeError": "JSONDecode", "FileNotFoundError": "FileNotFound"}
WRITE_KINDS = ("W", "A", "ZW", "ZTW")


# ---------------------------------------------------------------------------
# generator
# ---------------------------------------------------------------------------

def cfg_key(c):
    return ("db-" if c.get("db") else "") + "%s%s-rm%d-csv%d-keep%d-chk%d" % (
        c["search"], c.get("updates", ""), c["remove_files"], c["csv"], c["keep_internal"], int(bool(c.get("chk"))))


def all_configs():
    out = []
    for chk in (0, 1):
        for rm in (1, 0):
            for csv in (0, 1):
                for keep in (1, 0):
                    out.append({"search": "drawer", "remove_files": rm, "csv": csv, "keep_internal": keep, "chk": chk})
                    for u in (1, 2):
                        out.append({"search": "lbfgs", "updates": u, "remove_files": rm, "csv": csv, "keep_internal": keep, "chk": chk})
    return out


# the model variant that describes /repo as it is (Model.v `repaired` = repaired_all): all eight repairs are in.
EXPECTED = {"fx_zip": True, "fx_resume": True, "fx_timer": True, "fx_dill": True, "fx_chk": True, "fx_json": True,
            "fx_drawer": True, "fx_zero": True}

# searches judged by the oracle only (no Coq model): a checkpointing nested sampler and a particle swarm
ORACLE_ONLY = [
    {"search": "dynesty", "remove_files": 1, "csv": 1, "keep_internal": 1, "chk": 0},
    {"search": "dynesty", "remove_files": 0, "csv": 0, "keep_internal": 0, "chk": 1},
    {"search": "pyswarms", "remove_files": 1, "csv": 1, "keep_internal": 0, "chk": 0},
    {"search": "pyswarms", "remove_files": 0, "csv": 0, "keep_internal": 1, "chk": 0},
]


def history(cfg, runs, salt=0):
    h = dict(cfg)
    h["runs"] = runs
    h["salt"] = salt
    return h


FULL = {"crash": None}


def points_of(trace):
    """Symbolic crash points (kind, role, occ) of every event of an observed trace."""
    seen = {}
    pts = []
    for kind, role in trace:
        n = seen.get((kind, role), 0)
        seen[(kind, role)] = n + 1
        pts.append((kind, role.split(">")[-1] if kind == "MV" else role, n))
    return pts


def variants_of(kind):
    return ("before", "empty", "half") if kind in WRITE_KINDS else ("before",)


def crash(pt, variant):
    return {"crash": {"kind": pt[0], "role": pt[1], "occ": pt[2], "variant": variant}}


def probe_cases(configs):
    """Per configuration: an uninterrupted fit followed by a re-run (gives the event vocabulary), and the
    two behavioural probes that tell which of the proposed repairs the code under test contains."""
    cases = []
    for c in configs:
        cases.append(history(c, [FULL, FULL]))
    return cases


def detect_code(probes, extra):
    """Which model variant describes the code under test (Model.v `code` flags), decided from behaviour:
    fx_zip      -- an os.replace onto the archive was observed
    fx_dill     -- search_internal.dill is written through search_internal.dill.tmp
    fx_resume   -- an LBFGS fit killed just before `.completed` resumes normally
    fx_timer    -- a fit killed while creating `.start_time` resumes normally
    fx_json     -- samples_summary.json is written through samples_summary.json.tmp
    fx_drawer   -- (proposed) a fresh Drawer run returns its search internal in memory
    fx_zero     -- (proposed) LBFGS with maxiter = 0 terminates normally
    fx_chk      -- with check_likelihood_function, an LBFGS fit killed just before `.completed` does not fail the sanity check"""
    fx_zip = any(ev == ["MV", "ZipTmp>Zip"] for c, r in probes for run in r["runs"] for ev in run["trace"])
    fx_dill = any(ev == ["MV", "DillTmp>Dill"] for c, r in probes for run in r["runs"] for ev in run["trace"])
    fx_resume = extra[0]["runs"][1]["outcome"] == "ok"
    fx_timer = extra[1]["runs"][1]["outcome"] == "ok"
    fx_chk = extra[2]["runs"][1]["outcome"] != "exc:SearchException"
    fx_json = any(ev == ["MV", "SummaryTmp>Summary"] for c, r in probes for run in r["runs"] for ev in run["trace"])
    dr = [r for c, r in probes if c["search"] == "drawer" and r["runs"][0]["outcome"] == "ok"]
    fx_drawer = bool(dr) and all(r["runs"][0]["result"]["internal_in_memory"] for r in dr)
    fx_zero = extra[3]["runs"][0]["outcome"] == "ok"
    return {"fx_zip": fx_zip, "fx_resume": fx_resume, "fx_timer": fx_timer, "fx_dill": fx_dill, "fx_chk": fx_chk, "fx_json": fx_json,
            "fx_drawer": fx_drawer, "fx_zero": fx_zero}


def gen_cases(ctx, configs, probes):
    rng = ctx.rng
    thorough = ctx.tier == "thorough"
    by_key = {cfg_key(c): (c, r) for c, r in probes}
    cases = []
    # (1) exhaustive single crashes for some configurations (all of them in the thorough tier)
    keys = sorted(k for k in by_key if k.startswith(("drawer", "lbfgs")))
    if thorough:
        # half of the 24 configurations per run (all 8 Drawer settings or a random half, plus LBFGS ones), seed-dependent
        drawers = [k for k in keys if k.startswith("drawer")]
        lb = [k for k in keys if k.startswith("lbfgs")]
        chosen = rng.sample(drawers, min(4, len(drawers))) + rng.sample(lb, min(8, len(lb)))
    else:
        drawers = [k for k in keys if k.startswith("drawer")]
        lb = [k for k in keys if k.startswith("lbfgs")]
        chosen = rng.sample(drawers, 1) + rng.sample(lb, 1)
    vocab = {}
    for k in sorted(by_key):
        c, r = by_key[k]
        fresh = points_of(r["runs"][0]["trace"])
        rerun = points_of(r["runs"][1]["trace"]) if len(r["runs"]) > 1 else []
        vocab[k] = (fresh, rerun)
    for k in chosen:
        c, _ = by_key[k]
        fresh, rerun = vocab[k]
        for pt in fresh:
            for v in variants_of(pt[0]):
                cases.append(history(c, [crash(pt, v), FULL, FULL]))
        for pt in rerun:
            for v in variants_of(pt[0]):
                cases.append(history(c, [FULL, crash(pt, v), FULL]))
    # (1a) the truncated-summary window under the library's default check_likelihood_function = true
    chk_keys = [k for k in keys if k.endswith("chk1")]
    for k in rng.sample(chk_keys, min(len(chk_keys), 6 if thorough else 2)):
        c, _ = by_key[k]
        srole = "Summary" if any(pt[0] == "W" and pt[1] == "Summary" for pt in vocab[k][0]) else "SummaryTmp"
        for occ in (0, 1):
            for v in ("empty", "half"):
                cases.append(history(c, [crash(("W", srole, occ), v), FULL, FULL]))
    # (1b) DatabasePaths (oracle only, not modelled): re-runs, kills at the n-th likelihood call and at the few file events
    dbs = [{"search": sr, "updates": u, "remove_files": 1, "csv": csv, "keep_internal": 1, "chk": chk, "db": 1}
           for (sr, u) in (("lbfgs", 1), ("lbfgs", 2), ("drawer", 0)) for csv in (0, 1) for chk in (0, 1)]
    for c in (dbs if thorough else rng.sample(dbs, 3) + [dbs[-1]]):
        c = dict(c)
        if c["search"] == "drawer":
            c.pop("updates")
        cases.append(history(c, [FULL, FULL, FULL]))
        cases.append(history(c, [crash(("LL", "LL", rng.randint(0, 6)), "before"), FULL, FULL]))
        cases.append(history(c, [FULL, crash(rng.choice([("A", "Log", 0), ("R", "Log", 0), ("W", "Other:db.info", 0)]), "before"), FULL]))
    # (1d) oracle-only searches: Dynesty (checkpoint file savestate.save) and PySwarms; symbolic kill points from the probe
    for k in sorted(by_key):
        if not k.startswith(("dynesty", "pyswarms")):
            continue
        c, _ = by_key[k]
        fresh, rerun = vocab[k]
        cases.append(history(c, [FULL, FULL, FULL]))
        prio = [pt for pt in fresh if "savestate" in pt[1] or pt[1] in ("Marker", "ZipTmp", "Zip", "DillTmp", "Dill", "ResultExtraTmp")]
        n = (10 if thorough else 2)
        for pt in rng.sample(prio, min(n, len(prio))) + rng.sample(fresh, min(n, len(fresh))):
            cases.append(history(c, [crash(pt, rng.choice(variants_of(pt[0]))), FULL, FULL]))
        for pt in rng.sample(rerun, min(n // 2, len(rerun))):
            cases.append(history(c, [FULL, crash(pt, rng.choice(variants_of(pt[0]))), FULL]))
        cases.append(history(c, [crash(("LL", "LL", rng.randint(0, 300)), "before"), FULL, FULL]))
    # (1c) LBFGS update-block counts outside the enumerated configurations (0 = maxiter 0, 3, 4), kills at likelihood calls
    for u in ((0, 3, 4) if thorough else (0, 3)):
        c = {"search": "lbfgs", "updates": u, "remove_files": rng.randint(0, 1), "csv": rng.randint(0, 1), "keep_internal": rng.randint(0, 1),
             "chk": rng.randint(0, 1)}
        cases.append(history(c, [FULL, FULL]))
        if u:
            pts = [pt for pt in vocab["lbfgs2-rm%d-csv%d-keep%d-chk%d" % (c["remove_files"], c["csv"], c["keep_internal"], c["chk"])][0]]
            for j in range(6 if thorough else 2):
                pt = rng.choice(pts)
                cases.append(history(c, [crash(pt, rng.choice(variants_of(pt[0]))), FULL, FULL]))
            cases.append(history(c, [crash(("LL", "LL", rng.randint(0, 40)), "before"), FULL, FULL]))
    # (2) random multi-crash histories over every configuration
    n_multi = 600 if thorough else 45
    for i in range(n_multi):
        k = rng.choice(keys)
        c, _ = by_key[k]
        fresh, rerun = vocab[k]
        pool = fresh + rerun
        runs = []
        n_runs = rng.choice([2, 2, 3, 3, 4, 6] if thorough else [2, 2, 3, 3, 4])
        for j in range(n_runs):
            if rng.random() < 0.2:
                runs.append(FULL)
            else:
                src = pool if rng.random() < 0.6 else (rerun or pool)
                pt = rng.choice(src)
                if rng.random() < 0.08:
                    runs.append(crash(("LL", "LL", rng.randint(0, 12)), "before"))
                else:
                    runs.append(crash(pt, rng.choice(variants_of(pt[0]))))
        runs += [FULL, FULL]
        cases.append(history(c, runs, salt=i))
    # (3) several different fits in one output directory
    cases += gen_neighbours(ctx, by_key, vocab)
    return cases


# ---------------------------------------------------------------------------
# translator (fail-closed) of the naming functions into coq/C06/Gen.v
# ---------------------------------------------------------------------------

class Untranslatable(Exception):
    pass


def _find(tree, cls, fn):
    import ast
    for node in ast.walk(tree):
        if isinstance(node, ast.ClassDef) and node.name == cls:
            for it in node.body:
                if isinstance(it, ast.FunctionDef) and it.name == fn:
                    return it
    if cls is None:
        for node in tree.body:
            if isinstance(node, ast.FunctionDef) and node.name == fn:
                return node
    raise Untranslatable("%s.%s not found" % (cls, fn))


def _body(fn):
    import ast
    body = list(fn.body)
    if body and isinstance(body[0], ast.Expr) and isinstance(getattr(body[0], "value", None), ast.Constant) and isinstance(body[0].value.value, str):
        body = body[1:]
    return body


def _suffix_of(expr, base_dump, what):
    """expr must be the f-string f"{<base>}<literal>" (or str(<base>) + <literal>): returns the literal."""
    import ast
    if isinstance(expr, ast.JoinedStr) and len(expr.values) == 2:
        a, b = expr.values
        if (isinstance(a, ast.FormattedValue) and a.conversion == -1 and a.format_spec is None and ast.dump(a.value) == base_dump
                and isinstance(b, ast.Constant) and isinstance(b.value, str)):
            return b.value
    if isinstance(expr, ast.BinOp) and isinstance(expr.op, ast.Add) and isinstance(expr.right, ast.Constant) and isinstance(expr.right.value, str):
        l = expr.left
        if isinstance(l, ast.Call) and isinstance(l.func, ast.Name) and l.func.id == "str" and len(l.args) == 1 and ast.dump(l.args[0]) == base_dump:
            return expr.right.value
    raise Untranslatable("%s is not <path> + literal suffix: %s" % (what, ast.unparse(expr)))


OUTPUT_PATH_BODY = (
    "strings = list(filter(None, [str(conf.instance.output_path), str(self.path_prefix), self.unique_tag, str(self.name)]))\n"
    "if self.is_identifier_in_paths:\n    strings.append(self.identifier)\n"
    "return Path(path.join('', *strings))")


def translate_names(repo):
    import ast
    src = lambda rel: ast.parse(open(os.path.join(repo, rel)).read())
    ab = src("autofit/non_linear/paths/abstract.py")
    self_out = ast.dump(ast.parse("self.output_path", mode="eval").body)
    zp = _body(_find(ab, "AbstractPaths", "_zip_path"))
    if len(zp) != 1 or not isinstance(zp[0], ast.Return):
        raise Untranslatable("_zip_path is not a single return")
    zip_suffix = _suffix_of(zp[0].value, self_out, "_zip_path")
    op = "\n".join(ast.unparse(x) for x in _body(_find(ab, "AbstractPaths", "output_path")))
    if op != OUTPUT_PATH_BODY:
        raise Untranslatable("output_path is not <output>/<path_prefix>/<unique_tag>/<name>[/<identifier>]: %s" % op)
    ut = src("autofit/tools/util.py")
    zd = _body(_find(ut, None, "zip_directory"))
    tmp_suffix = None
    out_default = None
    for st in zd:
        if isinstance(st, ast.Assign) and len(st.targets) == 1 and isinstance(st.targets[0], ast.Name):
            if st.targets[0].id == "temporary":
                tmp_suffix = _suffix_of(st.value, ast.dump(ast.parse("output", mode="eval").body), "zip_directory.temporary")
            elif st.targets[0].id == "output":
                if not (isinstance(st.value, ast.BoolOp) and isinstance(st.value.op, ast.Or) and len(st.value.values) == 2
                        and ast.dump(st.value.values[0]) == ast.dump(ast.parse("output", mode="eval").body)):
                    raise Untranslatable("zip_directory: output = %s" % ast.unparse(st.value))
                out_default = _suffix_of(st.value.values[1], ast.dump(ast.parse("source_directory", mode="eval").body), "zip_directory.output")
    text = "\n".join(ast.unparse(x) for x in zd)
    if tmp_suffix is None or "zipfile.ZipFile(temporary, 'w'" not in text or "os.replace(temporary, output)" not in text:
        raise Untranslatable("zip_directory does not write <output><suffix> and os.replace it onto <output>")
    if out_default is not None and out_default != zip_suffix:
        raise Untranslatable("zip_directory default archive suffix %r differs from _zip_path %r" % (out_default, zip_suffix))
    dr = src("autofit/non_linear/paths/directory.py")
    hc = _body(_find(dr, "DirectoryPaths", "_has_completed_path"))
    if len(hc) != 1 or not isinstance(hc[0], ast.Return) or not (
            isinstance(hc[0].value, ast.BinOp) and isinstance(hc[0].value.op, ast.Div) and ast.dump(hc[0].value.left) == self_out
            and isinstance(hc[0].value.right, ast.Constant) and isinstance(hc[0].value.right.value, str)):
        raise Untranslatable("_has_completed_path is not self.output_path / <literal>")
    return {"zip_suffix": zip_suffix, "tmp_suffix": tmp_suffix, "marker_name": hc[0].value.right.value}


GEN_TEMPLATE = """(* GENERATED by harness/vcheck/c06.py (regenerate) from /repo -- do not edit.
   autofit/non_linear/paths/abstract.py  AbstractPaths._zip_path : f"{self.output_path}%(zip_suffix)s"
   autofit/tools/util.py                 zip_directory           : temporary = f"{output}%(tmp_suffix)s"
   autofit/non_linear/paths/abstract.py  AbstractPaths.output_path / DirectoryPaths._has_completed_path *)
From Coq Require Import List Ascii String.
Import ListNotations.
Definition zip_suffix : list ascii := list_ascii_of_string "%(zip_suffix)s".
Definition tmp_suffix : list ascii := list_ascii_of_string "%(tmp_suffix)s".
Definition marker_name : list ascii := list_ascii_of_string "%(marker_name)s".
(* output_path = join(filter(None, [output, path_prefix, unique_tag, name]) + [identifier if is_identifier_in_paths]) *)
Definition layout_prefix_tag_name_ident : bool := true.
"""


def regenerate(repo=None):
    """Writes coq/C06/Gen.v from the naming functions of the code under test. Fail-closed: a shape the translator does not
    know leaves Gen.v as it is (so that the rest still builds and the failing input is searched for) and reports it."""
    path = os.path.join(common.COQ, "C06", "Gen.v")
    try:
        d = translate_names(repo or common.REPO)
        for v in d.values():
            if any(ord(ch) < 32 or ord(ch) > 126 or ch == '"' for ch in v):
                raise Untranslatable("literal %r" % v)
    except (Untranslatable, OSError, SyntaxError) as e:
        return False, "untranslatable: %s" % e
    text = GEN_TEMPLATE % d
    if not os.path.exists(path) or open(path).read() != text:
        with open(path, "w") as f:
            f.write(text)
    return True, json.dumps(d)


# ---------------------------------------------------------------------------
# several DIFFERENT fits in one output directory (`neighbours` histories)
# ---------------------------------------------------------------------------

STEMS = ["gauss", "fit", "chain_v2", "m", "run-3", "a b", "x.y", "1"]
ENDS = ["0", "5", "1", "25", "x", "final", "zipped", "tmpl", "10"]


def name_pair(rng, kind):
    """Two different legal names (no '/', not ending in '.zip' / '.tmp') that are as close as names get."""
    s = rng.choice(STEMS)
    a, b = rng.sample(ENDS, 2)
    if kind == "dot-sibling":        # differ only after the last dot
        return s + "_v1." + a, s + "_v1." + b
    if kind == "dot-extends":        # one is the other plus a dotted suffix
        return s, s + "." + a
    if kind == "two-dots":
        return s + ".a." + a, s + ".a." + b
    if kind == "plain-prefix":       # one is a proper prefix of the other
        return s, s + "_" + a
    if kind == "suffix-inside":      # archive / temporary suffixes inside the name, not at its end
        return s + ".zip." + a, s + ".zip." + b
    if kind == "hidden":             # leading dot
        return "." + s, "." + s + "." + a
    if kind == "trailing-dot":
        return s + ".", s + ".." + a
    raise ValueError(kind)


PAIR_KINDS = ["dot-sibling", "dot-extends", "two-dots", "plain-prefix", "suffix-inside", "hidden", "trailing-dot"]


def fit_pair(rng, kind=None, where=None, ident=None):
    """Two (sometimes three) fit specifications sharing one output directory."""
    kind = kind or rng.choice(PAIR_KINDS + ["same-name-other-model"])
    if kind == "same-name-other-model":
        f = {"name": rng.choice(STEMS) + rng.choice(["", ".5"]), "prefix": rng.choice(["", "p", "p/q.1"]),
             "tag": rng.choice(["", "t.1"]), "ident": True}
        return kind, [dict(f, variant=0), dict(f, variant=1)]
    where = where or rng.choice(["name", "name", "name", "tag", "prefix"])
    ident = rng.random() < 0.25 if ident is None else ident
    a, b = name_pair(rng, kind)
    base = {"name": rng.choice(STEMS), "prefix": rng.choice(["", "demo", "p/q.1", "grid.2/cells"]), "tag": rng.choice(["", "", "tag.7"]),
            "ident": bool(ident)}
    fits = []
    for x in (a, b):
        f = dict(base)
        if where == "prefix":
            f["prefix"] = (base["prefix"] + "/" if base["prefix"] else "") + x
        else:
            f[where] = x
        fits.append(f)
    if rng.random() < 0.25 and kind in ("dot-sibling", "two-dots"):
        c = dict(fits[0])
        key = "prefix" if where == "prefix" else where
        c[key] = fits[0][key].rsplit(".", 1)[0]          # the common part up to the last dot, as a third fit
        fits.append(c)
    return kind + "@" + where + ("+id" if ident else ""), fits


def illegal_names(case):
    """Some fit's folder name (last path component; never the identifier) ends in the archive / temporary suffix: outside the
    guard `legal` of the naming theorems (Naming.v), where the folder of one fit IS the archive name of another."""
    return any(not f.get("ident") and f["name"].endswith((".zip", ".tmp")) for f in case.get("fits") or [])


def neighbour_history(cfg, fits, runs, salt, shape):
    h = dict(cfg)
    h.update({"fits": fits, "runs": runs, "salt": salt, "shape": shape})
    return h


def gen_neighbours(ctx, by_key, vocab):
    """Histories of 2-3 different fits run in one output directory, in any order, with crashes in between. Every fit ends with
    two uninterrupted runs. Shapes: S1 plain alternation; S2 a completed fit's re-run dies between extraction and
    re-compression, the neighbour runs, then the fit again; S3 random interleaving with random crash points."""
    rng = ctx.rng
    thorough = ctx.tier == "thorough"
    keys = sorted(k for k in by_key if k.startswith(("drawer", "lbfgs")) and k.endswith("chk0"))
    cases = []

    def tail(n):
        return [{"fit": i, "crash": None} for _ in range(2) for i in range(n)]

    def window(k):
        """kill points of a completed re-run after the archive was extracted and removed, before it is back"""
        rerun = vocab[k][1]
        idx = [i for i, pt in enumerate(rerun) if pt[0] == "R" and pt[1] == "Zip"]
        end = [i for i, pt in enumerate(rerun) if pt[0] == "MV" and pt[1] == "Zip"]
        if not idx:
            return rerun
        return rerun[idx[0] + 1:(end[0] + 1 if end else len(rerun))] or rerun

    plan = [("S1", "dot-sibling", "name", False), ("S2", "dot-sibling", "name", False), ("S1", "dot-extends", "name", False),
            ("S2", "dot-extends", "name", False), ("S3", "two-dots", "name", False), ("S3", None, "tag", None), ("S3", None, "prefix", None),
            ("S1", "same-name-other-model", None, None)]
    plan += [(rng.choice(["S1", "S2", "S3", "S3"]), None, None, None) for _ in range(60 if thorough else 4)]
    for n, (shape, kind, where, ident) in enumerate(plan):
        k = rng.choice(keys)
        c, _ = by_key[k]
        label, fits = fit_pair(rng, kind, where, ident)
        nf = len(fits)
        order = list(range(nf))
        rng.shuffle(order)
        if shape == "S1":
            runs = [{"fit": i, "crash": None} for i in order]
        elif shape == "S2":
            a = order[0]
            pt = rng.choice(window(k))
            runs = [{"fit": a, "crash": None}, dict(crash(pt, rng.choice(variants_of(pt[0]))), fit=a)]
            runs += [{"fit": i, "crash": None} for i in order[1:]] + [{"fit": a, "crash": None}]
        else:
            runs = []
            fresh, rerun = vocab[k]
            for j in range(rng.randint(3, 6)):
                i = rng.choice(order)
                if rng.random() < 0.35:
                    runs.append({"fit": i, "crash": None})
                else:
                    pt = rng.choice(fresh + rerun if rng.random() < 0.5 else window(k))
                    runs.append(dict(crash(pt, rng.choice(variants_of(pt[0]))), fit=i))
        runs += tail(nf)
        cs = neighbour_history(c, fits, runs, 1000 + n, shape + ":" + label)
        cases.append(cs)
    # names ending in the archive / temporary suffix beside the fit named by the stem (outside the guard of the naming
    # theorems; known finding archive-suffix-name): uninterrupted alternation only
    for n in range(6 if thorough else 1):
        c, _ = by_key[rng.choice(keys)]
        stem = rng.choice(STEMS)
        names = [stem, stem + rng.choice([".zip", ".zip", ".zip.tmp"])]
        rng.shuffle(names)
        fits = [{"name": x, "prefix": "demo", "tag": "", "ident": False} for x in names]
        cases.append(neighbour_history(c, fits, [{"fit": i, "crash": None} for _ in range(3) for i in (0, 1)], 2000 + n, "S1:archive-suffix-name"))
    return cases


# ---------------------------------------------------------------------------
# classes (computed from the case only) and the property oracle
# ---------------------------------------------------------------------------

LBFGS_WINDOW = ("Time", "Summary", "SummaryTmp", "SamplesInfo", "SamplesInfoTmp", "SamplesCsv", "Results", "SearchSummary",
                "ResultExtra", "ResultExtraTmp", "DillTmp")


def in_lbfgs_window(cr):
    """The kill falls between the first saved search state and `.completed` (from the crash specification alone)."""
    k, r, occ, v = cr["kind"], cr["role"], cr.get("occ", 0), cr["variant"]
    if k in ("W", "MV") and r in LBFGS_WINDOW and not (r == "DillTmp" and occ == 0):
        return True
    if r == "Dill" and ((k == "W" and (occ >= 1 or v == "half")) or (k == "MV" and (occ >= 1 or v != "before"))):
        return True
    return k == "W" and r == "Marker" and v == "before"


def labels(case):
    """Labels of the situations a history contains, from its specification alone."""
    out = set()
    if case.get("db"):
        return ["database-paths"]
    if case.get("fits"):
        out.add("neighbours")
        if illegal_names(case):
            return ["archive-suffix-name"]
    crashes = [r["crash"] for r in case["runs"] if r.get("crash")]
    for cr in crashes:
        if cr["kind"] in ("ZW",) and cr["variant"] in ("empty", "half"):
            out.add("zip-interrupted")
        if cr["kind"] == "W" and cr["role"] == "StartTime" and cr["variant"] == "empty":
            out.add("start-time-empty")
        if cr["kind"] == "W" and cr["role"] == "Time" and cr["variant"] == "empty" and case["search"] == "drawer":
            out.add("drawer-time-empty")
        if cr["kind"] == "W" and cr["role"] == "Dill" and cr["variant"] in ("empty", "half"):
            out.add("search-internal-truncated")
        if case.get("chk") and cr["kind"] == "W" and cr["role"] == "Summary" and cr["variant"] in ("empty", "half"):
            out.add("summary-truncated")
        if case["search"] == "lbfgs" and in_lbfgs_window(cr):
            out.add("lbfgs-interrupted")
    return sorted(out)


def copy_ok(files, tag, csv):
    """Does a file listing [(role, status, tag)] hold the complete result `tag`?"""
    d = {r: (st, t) for r, st, t in files}

    def full(role):
        return role in d and d[role][0] == "full"
    if not (full("Marker") and full("Summary") and d["Summary"][1] == tag and full("Results") and full("SearchSummary")):
        return False
    if not (full("ResultExtra") and d["ResultExtra"][1] == tag):      # what Analysis.save_results wrote
        return False
    if csv and not (full("SamplesCsv") and d["SamplesCsv"][1] == tag and full("SamplesInfo")):
        return False
    return True


def stored(fs, tag, csv):
    if fs["zip"]["state"] == "full" and copy_ok(fs["zip"]["members"], tag, csv):
        return True
    return fs["zip"]["state"] != "full" and copy_ok(fs["files"], tag, csv)


def dill_of(fs):
    src = fs["zip"]["members"] if fs["zip"]["state"] == "full" else fs["files"]
    for r, st, t in src:
        if r == "Dill":
            return (st, t)
    return None


def close(a, b):
    a, b = float.fromhex(a), float.fromhex(b)
    return a == b or abs(a - b) <= 1e-12 * max(abs(a), abs(b))


def sample_rows(r):
    return [tuple(float.fromhex(v) for v in [ll] + list(par) + list(w))
            for ll, par, w in zip(r["samples_ll"], r["samples_par"], r.get("samples_w") or [[]] * len(r["samples_ll"]))]


def row_close(a, b):
    return len(a) == len(b) and all(x == y or abs(x - y) <= 1e-12 * max(abs(x), abs(y)) for x, y in zip(a, b))


def samples_differ(o, r, o_in_memory):
    """The re-run returns the persisted samples (likelihood, parameters, weight, log prior). The run that sampled returns
    its in-memory samples, of which the table is the part above the weight threshold: then the re-run must be a sub-list."""
    A, B = sample_rows(o), sample_rows(r)
    if not o_in_memory:
        if len(A) != len(B) or not all(row_close(a, b) for a, b in zip(A, B)):
            return "two re-runs of the completed fit return different samples"
        return None
    k = 0
    for b in B:
        while k < len(A) and not row_close(A[k], b):
            k += 1
        if k == len(A):
            return "a returned sample is not one of the samples of the completed run (in order)"
        k += 1
    if not B:
        return "no samples returned"
    return None


def stored_tag(fs, csv):
    """The generation g of a complete result on disk (archive if there is a readable one, else folder), or None."""
    src = fs["zip"]["members"] if fs["zip"]["state"] == "full" else fs["files"]
    for r, st, t in src:
        if r == "Summary" and st == "full" and isinstance(t, int) and stored(fs, t, csv):
            return t
    return None


def oracle_db(case, res):
    """DatabasePaths (session=...): uninterrupted runs only; the re-run must return what the first run returned."""
    fails = []
    runs = res["runs"]
    for i, run in enumerate(runs):
        if run["outcome"] not in ("ok", "crashed"):
            fails.append((run["outcome"], "run %d with a database session did not terminate normally: %s %s" % (i, run["outcome"], run.get("msg"))))
        if run.get("bad_rename"):
            fails.append(("rename-incomplete", "run %d renamed an unfinished temporary file: %s" % (i, run["bad_rename"])))
    oks = [r for r in runs if r["outcome"] == "ok"]
    if oks and oks[0]["evals"] == 0:
        fails.append(("no-sampling", "the first run that returned a result never evaluated the likelihood"))
    if len(oks) >= 2:
        o = oks[0]["result"]
        for i, run in enumerate(oks[1:], 1):
            r = run["result"]
            if run["evals"] != 0:
                fails.append(("resampled", "re-run %d evaluated the likelihood although the fit was complete in the database" % i))
            if r["summary_ll"] is None:
                fails.append(("no-summary", "re-run %d returns a result without samples summary / best-fit instance (first run: %s)" % (i, o["summary_ll"])))
            elif r["summary_ll"] != o["summary_ll"] or r["instance"] != o["instance"]:
                fails.append(("result-changed", "re-run %d reports best fit %s, the first run %s" % (i, r["summary_ll"], o["summary_ll"])))
            # the database keeps the samples it was asked to keep (save_all_samples = False: the minimised list), so the re-run
            # returns a sub-list of what the sampling run returned from memory; two re-runs return the same list
            if r["samples_ll"] is None:
                fails.append(("samples-changed", "re-run %d returns no samples" % i))
            else:
                msg = samples_differ(o, r, oks[0]["evals"] != 0) or (i >= 2 and samples_differ(oks[1]["result"], r, False))
                if msg:
                    fails.append(("samples-changed", "re-run %d: %s" % (i, msg)))
    return fails


def fit_label(f):
    return "/".join(x for x in (f.get("prefix"), f.get("tag"), f.get("name")) if x) + ("/<identifier>" if f.get("ident") else "") + (
        " (model variant %d)" % f["variant"] if f.get("variant") else "")


def oracle_neighbours(case, res):
    """Several different fits in one output directory: C06 must hold for each of them, whatever the others do in between.
    Each fit is judged on the whole history: its own runs as usual, the runs of the other fits as events after which its
    completed result must still be there (looked for under the documented names and, independently of any naming rule,
    anywhere under the output directory)."""
    fails = []
    for f, spec in enumerate(case["fits"]):
        own = {i for i, r in enumerate(case["runs"]) if r["fit"] == f}
        pc = dict(case)
        pc.pop("fits")
        pc["own_runs"] = own
        pc["fit_label"] = "fit %d '%s'" % (f, fit_label(spec))
        runs = []
        for i, run in enumerate(res["runs"]):
            run = dict(run)
            if run["outcome"] != "driver-error":
                run["fs"] = run["fs_all"][f]
                if i not in own:
                    run["outcome"] = "other"
                    run["bad_rename"] = None
            runs.append(run)
        for sig, msg in oracle(pc, {"runs": runs}):
            fails.append((sig, "%s: %s" % (pc["fit_label"], msg)))
    seen, out = set(), []
    for sig, msg in fails:
        if sig not in seen:
            seen.add(sig)
            out.append((sig, msg))
    return out


def anywhere(run, tag, csv):
    """A complete copy of generation `tag` in some folder or readable archive anywhere under the output directory (consulted
    only when the implementation used names outside the documented ones: otherwise the documented places are all there is)."""
    if not run.get("foreign"):
        return False
    return any(copy_ok(c["files"], tag, csv) for c in run.get("copies") or [])


def oracle(case, res):
    """Direct statement of C06 on what the implementation did. Returns a list of (signature, message)."""
    if case.get("db"):
        return oracle_db(case, res)
    if case.get("fits"):
        return oracle_neighbours(case, res)
    own = case.get("own_runs")      # projection of a neighbours history onto one fit: the runs that are this fit's
    fails = []
    done = None          # (run index, generation) at which the fit became complete (.completed with its result files)
    ref = None           # first result returned after / at completion
    dill_ref = None
    for i, (spec, run) in enumerate(zip(case["runs"], res["runs"])):
        out = run["outcome"]
        if out == "driver-error":
            fails.append(("driver", "run %d: driver error %s" % (i, run.get("msg"))))
            continue
        if run["fs"]["inconsistent"]:
            fails.append(("driver", "run %d: truncation bookkeeping disagrees with file contents %s" % (i, run["fs"]["inconsistent"])))
        if run.get("bad_rename"):
            fails.append(("rename-incomplete", "run %d renamed a temporary file that was not closed and complete onto its final name: %s "
                          "(a kill before it is closed leaves a truncated file under the final name)" % (i, run["bad_rename"])))
        was_done = done
        if done is None:
            g = stored_tag(run["fs"], case["csv"])
            if g is not None:
                done = (i, g)
            elif own is not None and out == "ok" and run["result_tag"] is not None:
                done = (i, run["result_tag"])       # it returned a result: complete from here on, wherever it was put
        if out.startswith("exc:"):
            # (resume) a run that is not killed terminates normally with a complete result
            fails.append((out, "run %d (after %s) did not terminate normally: %s %s" % (
                i, "a crashed run" if i and res["runs"][i - 1]["outcome"] == "crashed" else "earlier runs", out[4:], run.get("msg"))))
        if out == "ok":
            r = run["result"]
            if run["result_tag"] is None or not (stored(run["fs"], run["result_tag"], case["csv"]) or anywhere(run, run["result_tag"], case["csv"])):
                fails.append(("incomplete", "run %d returned a result but its files are not completely on disk" % i))
            if own is not None:
                # run numbers are global and every run's likelihood carries its number: what a fit returns was evaluated by
                # one of ITS runs
                for what, t in (("result", run["result_tag"]), ("samples", run["samples_tag"])):
                    if t is not None and t not in own:
                        fails.append(("foreign-result", "run %d returned the %s evaluated by run %s, which is a run of ANOTHER fit "
                                      "in the same output directory" % (i, what, t)))
            if was_done is None:
                if run["evals"] == 0:
                    fails.append(("no-sampling", "run %d completed the fit without evaluating the likelihood" % i))
                if r["samples_ll"] is None:
                    fails.append(("no-samples", "run %d completed the fit but returned no samples" % i))
            else:
                j, g = was_done
                # (complete once) no sampling is repeated; same best fit, summary statistics, persisted samples
                if run["evals"] != 0:
                    fails.append(("resampled", "run %d evaluated the likelihood %d times although the fit was complete since run %d" % (i, run["evals"], j)))
                if run["result_tag"] != g:
                    fails.append(("result-changed", "run %d reports a best fit of generation %s, run %d had completed generation %s" % (i, run["result_tag"], j, g)))
                if case["csv"]:
                    if r["samples_ll"] is None:
                        fails.append(("samples-missing", "run %d returns no samples although the samples table was written" % i))
                    elif run["samples_tag"] != g:
                        fails.append(("samples-changed", "run %d returns samples of generation %s, not %s" % (i, run["samples_tag"], g)))
                elif r["samples_ll"] is not None:
                    fails.append(("samples-unexpected", "run %d returns samples although no samples table is persisted" % i))
            if done is not None:
                if ref is None:
                    ref = (i, r)
                else:
                    j, o = ref
                    if r["summary_ll"] != o["summary_ll"] or r["instance"] != o["instance"] or r.get("median") != o.get("median"):
                        fails.append(("result-changed", "run %d reports best fit %s / %s, run %d reported %s / %s" % (
                            i, r["summary_ll"], r["instance"], j, o["summary_ll"], o["instance"])))
                    elif r.get("stats") != o.get("stats"):
                        diff = [k for k in (r.get("stats") or {}) if (o.get("stats") or {}).get(k) != r["stats"][k]]
                        fails.append(("summary-changed", "run %d reports other summary statistics than run %d: %s" % (i, j, diff)))
                    if case["csv"] and r["samples_ll"] is not None and o["samples_ll"] is not None:
                        msg = samples_differ(o, r, res["runs"][j]["evals"] != 0)
                        if msg:
                            fails.append(("samples-changed", "run %d vs run %d: %s" % (i, j, msg)))
        if done is not None:
            # (durable) the completed result is never lost, corrupted or replaced -- whatever happens to later runs
            j, g = done
            if not stored(run["fs"], g, case["csv"]) and not anywhere(run, g, case["csv"]):
                fails.append(("lost", "after run %d (%s) the result completed by run %d is no longer on disk (folder %s, archive %s)" % (
                    i, "a run of another fit" if out == "other" else out, j, "with .completed" if any(f[0] == "Marker" for f in run["fs"]["files"]) else "without .completed",
                    run["fs"]["zip"]["state"])))
            if out == "ok":
                dl = dill_of(run["fs"])
                if dill_ref is None:
                    dill_ref = (dl,)
                elif dl != dill_ref[0]:
                    fails.append(("internal-replaced", "run %d replaced the persisted search state %s of the completed fit by %s" % (i, dill_ref[0], dl)))
    last = res["runs"][-1]
    if last["outcome"] == "ok" and done is None:
        fails.append(("incomplete", "the last run returned a result but no complete result is on disk"))
    # one report per signature
    seen, out = set(), []
    for sig, msg in fails:
        if sig not in seen:
            seen.add(sig)
            out.append((sig, msg))
    return out


# ---------------------------------------------------------------------------
# Coq printing
# ---------------------------------------------------------------------------

def c_code(flags):
    return "(mkcode %s %s %s %s %s %s %s %s)" % tuple(cbool(flags[k]) for k in (
        "fx_zip", "fx_resume", "fx_timer", "fx_dill", "fx_chk", "fx_json", "fx_drawer", "fx_zero"))


def c_cfg(c):
    return "(mkcfg %s %s %s %s %s %s)" % ("Drawer" if c["search"] == "drawer" else "LBFGS", cnat(c.get("updates", 0)),
                                         cbool(c["remove_files"]), cbool(c["csv"]), cbool(c["keep_internal"]), cbool(c.get("chk")))


class Unprintable(Exception):
    pass


def c_event(ev):
    kind, role = ev
    if kind in ("W", "A", "R"):
        if role == "Zip" and kind == "R":
            return "ERZ"
        if role not in ROLES:
            raise Unprintable("event %s on %s" % (kind, role))
        return "E%s %s" % (kind, role)
    if kind == "ZW" and role == "Zip":
        return "EZW"
    if kind == "ZTW" and role == "ZipTmp":
        return "EZTW"
    if kind == "MV" and role == "ZipTmp>Zip":
        return "EZMV"
    if kind == "MV" and role == "DillTmp>Dill":
        return "EDMV"
    if kind == "MV" and role in JSON_TMP:
        return "EJMV %s" % JSON_TMP[role]
    raise Unprintable("event %s on %s" % (kind, role))


def c_fstate(role, st, tag):
    if st == "empty":
        return "Part PEmpty"
    if st == "half":
        return "Part PHalf"
    if st != "full":
        raise Unprintable("file status %s" % st)
    if role in TAGGED:
        if tag == "none":
            return "Full NoneObj"
        if isinstance(tag, int):
            return "Full (Gen %s)" % cnat(tag)
        return "Full Plain"   # unreadable although nothing truncated it: will disagree with the model
    return "Full Plain"


def c_files(files):
    items = []
    for role, st, tag in files:
        if role not in ROLES:
            raise Unprintable("file %s" % role)
        items.append("(%s, %s)" % (role, c_fstate(role, st, tag)))
    return clist(items)


def c_run(run):
    out = run["outcome"]
    if out == "crashed":
        k = run["crash_index"]
        variant = {"before": "VBefore", "empty": "VEmpty", "half": "VHalf"}[run["variant"]]
        cr = "(Some (%s, %s))" % (cnat(k), variant)
        oc = "RCrashed"
        sampled = "None"
    else:
        cr = "None"
        sampled = "(Some %s)" % cbool((run["evals"] or 0) > 0)
        if out == "ok":
            r = run["result"]
            if run["result_tag"] is None:
                raise Unprintable("ok without summary")
            oc = "(ROk (mkres %s %s %s))" % (cnat(run["result_tag"]),
                                            "None" if run["samples_tag"] is None else "(Some %s)" % cnat(run["samples_tag"]),
                                            cbool(bool(r["internal_in_memory"])))
        elif out.startswith("exc:"):
            oc = "(RExc %s)" % EXC.get(out[4:], "OtherExc")
        else:
            raise Unprintable(out)
    z = run["fs"]["zip"]
    if run["fs"]["nzips"] > 1:
        raise Unprintable("two archives")
    if z["state"] not in ("absent", "partial", "full"):
        raise Unprintable("archive name is %s" % z["state"])
    zo = {"absent": "ZOAbsent", "partial": "ZOPartial"}.get(z["state"]) or "(ZOFull %s)" % c_files(z["members"])
    strays = run["fs"]["strays"]
    if any(not s.endswith(".zip.tmp") for s in strays):
        raise Unprintable("stray files %s" % strays)
    return "(mkobs %s %s %s %s %s %s %s)" % (cr, clist([c_event(e) for e in run["trace"]]), oc, sampled,
                                             c_files(run["fs"]["files"]), zo, cbool(bool(strays)))


def coq_case(case, res, flags):
    runs = []
    for spec, run in zip(case["runs"], res["runs"]):
        run = dict(run)
        run["variant"] = (spec.get("crash") or {}).get("variant")
        runs.append(c_run(run))
    return "CHistory %s %s %s %s" % (c_code(flags), c_cfg(case), cbool(not case.get("chk")), clist(runs))


def cstr(x):
    if any(ord(ch) < 32 or ord(ch) > 126 for ch in x):
        raise Unprintable("name %r" % x)
    return '(S_ "%s")' % x.replace('"', '""')


def cpath(rel):
    return "None" if rel is None else "(Some %s)" % clist([cstr(x) for x in rel.split("/") if x])


def fs_key(fs):
    return json.dumps([fs["files"], fs["zip"], fs["strays"], fs["nzips"]], sort_keys=True)


def coq_neighbours(case, res, flags):
    """Coq terms (type ncase) of a neighbours history: per fit, its own runs with the global run numbers as tags (NHistory)
    and the names it really used against the modelled naming scheme (NNames). Also the direct check, on the observations,
    of what Naming.neighbours_independent says: a run of one fit leaves folder / archive of every other fit as they were."""
    terms, problems = [], []
    for i, run in enumerate(res["runs"]):
        if run.get("foreign"):
            problems.append("run %d left names outside <folder>, <folder>.zip, <folder>.zip.tmp of the fits: %s" % (i, run["foreign"]))
            break
    for f, spec in enumerate(case["fits"]):
        own = [i for i, r in enumerate(case["runs"]) if r["fit"] == f]
        before = None
        for i, run in enumerate(res["runs"]):
            if run["outcome"] == "driver-error":
                continue
            k = fs_key(run["fs_all"][f])
            if i not in own and k != (before if before is not None else fs_key({"files": [], "zip": {"state": "absent", "members": []}, "strays": [], "nzips": 0})):
                problems.append("run %d (fit %d) changed folder / archive of fit %d '%s'" % (i, case["runs"][i]["fit"], f, fit_label(spec)))
                break
            before = k
        runs, names = [], {}
        for i in own:
            run = dict(res["runs"][i])
            run["variant"] = (case["runs"][i].get("crash") or {}).get("variant")
            runs.append("(%s, %s)" % (cnat(i), c_run(run)))
            names.update(run.get("names") or {})
        terms.append("NHistory %s %s %s" % (c_code(flags), c_cfg(case), clist(runs)))
        folder = res["folders"][f]
        ident = "(Some %s)" % cstr(folder.split("/")[-1]) if spec.get("ident") else "None"
        fit = "(mkfit %s %s %s %s)" % (clist([cstr(x) for x in (spec.get("prefix") or "").split("/") if x]),
                                       cstr(spec.get("tag") or "") if spec.get("tag") else "[]", cstr(spec["name"]), ident)
        marker = names.get("marker")
        terms.append("NNames %s %s %s %s %s" % (fit, cpath(os.path.dirname(marker) if marker else None), cpath(marker),
                                               cpath(names.get("zip")), cpath(names.get("ziptmp"))))
    return terms, problems


# ---------------------------------------------------------------------------
# run
# ---------------------------------------------------------------------------

def run_histories(cases, chunk=None):
    """Run histories through the driver in parallel chunks; returns a list aligned with `cases`."""
    if not cases:
        return []
    n = common.NCPU
    size = chunk or max(1, min(8, (len(cases) + n - 1) // n))
    chunks = [cases[i:i + size] for i in range(0, len(cases), size)]
    outs = common.run_impl_parallel("c06_impl", [{"cases": ch} for ch in chunks], timeout=1500)
    res = []
    for ch, o in zip(chunks, outs):
        if "__error__" in o:
            res += [{"exc": "driver", "msg": o["__error__"][-600:]}] * len(ch)
        else:
            res += o["results"]
    return res


def nontrivial(case, res):
    """At least one run was really killed, and a later run ran to its end (neighbours: at least two fits returned a result)."""
    outs = [r["outcome"] for r in res["runs"]]
    if case.get("fits"):
        return len({s["fit"] for s, o in zip(case["runs"], outs) if o == "ok"}) >= 2
    if case.get("db"):
        return len(outs) >= 2
    if "crashed" not in outs:
        return False
    i = outs.index("crashed")
    return any(o != "crashed" for o in outs[i + 1:])


def short(case):
    def cs(r):
        cr = r.get("crash")
        return "full" if not cr else "%s:%s#%d/%s" % (cr["kind"], cr["role"], cr["occ"], cr["variant"])
    if case.get("fits"):
        return {"config": cfg_key(case), "fits": [fit_label(f) for f in case["fits"]],
                "runs": ["fit%d:%s" % (r["fit"], cs(r)) for r in case["runs"]]}
    return {"config": cfg_key(case), "runs": [cs(r) for r in case["runs"]]}


def run(ctx):
    ctx.rule = ("a case is a history: settings (search Drawer | LBFGS with 1-2 update blocks, remove_files, samples_to_csv, "
                "search_internal kept, check_likelihood_function) + a list of runs of the same fit, each run to its end or killed at a symbolic mutation point "
                "(occ-th event of a kind on a file role; killed before it, with the file created empty, or with the file cut to half). "
                "Single crashes are enumerated exhaustively over every mutation event of a fresh run and of a completed re-run for the "
                "chosen configurations (2 in the quick tier, 12 of the 48 in the thorough tier, seed-dependent); multi-crash histories are random. Every history ends with two "
                "uninterrupted runs; two DatabasePaths histories (uninterrupted runs through a database session) are judged by the oracle "
                "only. Neighbours histories: 2-3 DIFFERENT fits (own name / path prefix / unique tag / model, with or without the identifier "
                "folder; names with dots, one a prefix of the other, differing only after the last dot, '.zip'/'.tmp' inside) run in one output "
                "directory in any order with kills in between (12 per quick run, 4 shapes fixed: dotted siblings without identifier folder), each "
                "fit judged on the whole history; plus one pair <stem> / <stem>.zip (known finding). Non-trivial = some run was really killed and a later run ran to its end (database histories: at least two runs); "
                "distinct = distinct (settings, run list)")
    ctx.trusted = [
        "Coq 8.16.1 kernel incl. vm_compute",
        "correspondence harness c06.py / impl/c06_impl.py: sys.addaudithook fault injector (open-for-write, unlink, rename under the "
        "output folder), os._exit at the chosen event, truncation of the interrupted file, content-based reading of the folder/archive",
        "POSIX process-death semantics: effects of completed system calls persist, the interrupted write leaves a prefix (empty or half); "
        "no power-loss reordering, no concurrent writers",
        "modelled not verified: zipfile (an archive without central directory raises BadZipFile), dill/json loaders on truncated files, "
        "scipy L-BFGS-B performing one iteration per update block, directory walk orders (supplied to the model as hints from the trace)",
    ]
    ctx.assumptions = [
        "the model covers DirectoryPaths with the Drawer and LBFGS searches; DatabasePaths is covered by the oracle only (re-run of a "
        "completed fit, no crashes); dynesty/emcee checkpoints are not covered",
        "output settings are fixed along a history; LBFGS runs >= 1 update block; visualisation is off",
        "several fits in one output directory: no fit's folder lies inside another fit's folder (the flat disk model of Naming.v does not "
        "express nesting); folder names ending in '.zip' / '.tmp' are outside the guard `legal` of the naming theorems (oracle only, known "
        "finding archive-suffix-name); fits run one after the other (no concurrent writers)",
        "theorems named *_repaired are about the model with the four file-system repairs switched on (proposed_fixes/C06-*.diff); the "
        "correspondence is pinned to Model.repaired (obligation model-variant: behavioural probes must show every repair present)",
    ]
    ok, detail = regenerate()
    ctx.obligation("translator:Gen.v", "translator", ok, detail)
    built = ctx.build()
    configs = all_configs()
    if ctx.replay:
        rp = json.load(open(ctx.replay))
        if rp.get("case"):
            # probes for a replay: one standard configuration (exhibits every repair) + the case's own if it is a modelled one
            configs = [{"search": "drawer", "remove_files": 1, "csv": 1, "keep_internal": 1, "chk": 0}]
            own = {k: rp["case"][k] for k in ("search", "updates", "remove_files", "csv", "keep_internal", "chk") if k in rp["case"]}
            if own.get("search") in ("drawer", "lbfgs") and own.get("updates", 1) in (1, 2) and own != configs[0]:
                configs.append(own)
    # stage 1: probes
    lb = {"search": "lbfgs", "updates": 1, "remove_files": 0, "csv": 0, "keep_internal": 1, "chk": 0}
    extra_cases = [
        history(lb, [crash(("W", "Marker", 0), "before"), FULL]),
        history({"search": "drawer", "remove_files": 0, "csv": 0, "keep_internal": 1, "chk": 0}, [crash(("W", "StartTime", 0), "empty"), FULL]),
        history(dict(lb, chk=1), [crash(("W", "Marker", 0), "before"), FULL]),
        history(dict(lb, updates=0), [FULL]),
    ]
    extra_cfgs = [] if ctx.replay else ORACLE_ONLY
    configs = configs + extra_cfgs
    pcs = probe_cases(configs)
    pres = run_histories(pcs + extra_cases, chunk=2)
    for attempt in range(2):      # a probe lost to a driver hiccup (time-out on a loaded machine) is simply run again
        lost = [i for i, r in enumerate(pres) if "ok" not in r]
        if not lost:
            break
        again = run_histories([(pcs + extra_cases)[i] for i in lost], chunk=1)
        for i, r in zip(lost, again):
            pres[i] = r
    bad = [r for r in pres if "ok" not in r]
    if bad:
        ctx.obligation("impl-driver", "harness", False, json.dumps(bad[0])[:800])
        return
    probes = [(c, r["ok"]) for c, r in zip(configs, pres[:len(pcs)])]
    flags = detect_code(probes, [r["ok"] for r in pres[len(pcs):]])
    ctx.notes["code_flags_detected"] = flags
    # every repair is in /repo: the correspondence is pinned to the `repaired` variant of the model (the one the *_repaired
    # theorems are about); a regression of a repair shows up here, in the correspondence and in the oracle
    expected = dict(EXPECTED)
    for k in filter(None, os.environ.get("C06_EXPECT_PROPOSED", "").split(",")):     # trying a proposed repair on a scratch copy
        expected[k] = True
    ctx.notes["model_variant"] = expected
    ctx.obligation("model-variant", "correspondence", flags == expected,
                   "behavioural probes: %s; expected (Model.repaired): %s" % (json.dumps(flags), json.dumps(expected)))
    flags = expected
    ctx.notes["events_fresh_run"] = {cfg_key(c): len(r["runs"][0]["trace"]) for c, r in probes}
    # stage 2: histories
    if ctx.replay and rp.get("case"):
        cases = [rp["case"]]
    else:
        cases = []
        cdir = os.path.join(common.VERIF, "corpus", "C06")
        if os.path.isdir(cdir):
            for f in sorted(os.listdir(cdir)):
                if f.endswith(".json"):
                    d = json.load(open(os.path.join(cdir, f)))
                    d["case"]["regression"] = d.get("regression") or f[:-5]
                    cases.append(d["case"])
        cases += gen_cases(ctx, configs, probes)
    results = run_histories(cases)
    cases = pcs + extra_cases + cases
    results = pres + results
    coq_cases, coq_idx = [], []
    ncases, nidx = [], []
    for i, (c, r) in enumerate(zip(cases, results)):
        key = {k: v for k, v in c.items() if k not in ("salt", "regression", "shape")}
        if "ok" not in r:
            ctx.count_case(key, False, "driver-failure")
            ctx.failure("oracle", "driver failed: %s" % r.get("msg"), c, impl=r)
            continue
        res = r["ok"]
        nt = nontrivial(c, res)
        ctx.count_case(key, nt, ("neighbours-" if c.get("fits") else "") + cfg_key(c))
        if c.get("fits"):
            ctx.hist("neighbours", c.get("shape", "replay"))
        ctx.hist("runs", len(c["runs"]))
        for spec, run_ in zip(c["runs"], res["runs"]):
            cr = spec.get("crash")
            ctx.hist("crash", "none" if not cr else "%s/%s/%s" % (cr["kind"], cr["variant"], "fired" if run_["outcome"] == "crashed" else "not-reached"))
            ctx.hist("outcome", run_["outcome"])
        ctx.oracle["cases"] += 1
        lab = labels(c)
        fails = oracle(c, res)
        if c.get("regression"):       # pinned case of a former finding / a critical window: must pass on the repaired code
            ctx.obligation("regression:" + c["regression"], "regression", not fails, "; ".join(m for _, m in fails)[:400])
        for sig, msg in fails:
            ctx.oracle["failures"] += 1
            ctx.failure("oracle", msg, c, classes=["%s:%s" % (l, sig) for l in lab], impl=compact(res))
        if c.get("db") or c["search"] in ("dynesty", "pyswarms"):
            continue
        if c.get("fits") and illegal_names(c):
            continue          # outside the guard `legal` of the naming model: oracle only
        if c.get("fits"):
            try:
                terms, problems = coq_neighbours(c, res, flags)
                for t in terms:
                    ncases.append(t)
                    nidx.append((i, bool(fails)))
                if problems:
                    ctx.failure("correspondence", "the modelled naming scheme / independence of neighbouring fits does not hold: %s" % "; ".join(problems), c,
                                impl=compact(res), broken={"kind": "correspondence", "name": "C06.check_ncase"}, found_input=bool(fails),
                                classes=["%s:%s" % (l, s) for l in lab for s, _ in fails])
            except Unprintable as e:
                ctx.failure("correspondence", "the implementation did something the model has no vocabulary for: %s" % e, c,
                            impl=compact(res), broken={"kind": "correspondence", "name": "C06.check_ncase"}, found_input=bool(fails),
                            classes=["%s:%s" % (l, s) for l in lab for s, _ in fails])
            continue
        try:
            coq_cases.append(coq_case(c, res, flags))
            coq_idx.append((i, bool(fails)))
        except Unprintable as e:
            ctx.failure("correspondence", "the implementation did something the model has no vocabulary for: %s" % e, c,
                        impl=compact(res), broken={"kind": "correspondence", "name": "C06.check_case"}, found_input=bool(fails),
                        classes=["%s:%s" % (l, s) for l in lab for s, _ in fails])
        if i % 97 == 0 or (nt and len(ctx.samples) < 3):
            ctx.sample({"history": short(c), "outcomes": [x["outcome"] for x in res["runs"]]}, limit=8)
    if os.path.exists(os.path.join(common.COQ, "C06", "Model.vo")):
        hdr = ctx.header(["Model"])
        bad, log = ctx.eval_cases(hdr, "case", "check_case", coq_cases, shard=80)
        if bad:
            for b in bad[:5]:
                i, failed = coq_idx[b]
                ctx.failure("correspondence", "model and implementation disagree on history %s" % json.dumps(short(cases[i])),
                            cases[i], impl=compact(results[i]["ok"]), model=ctx.show(hdr, model_term(coq_cases[b]), tag="show%d" % b)[:3000],
                            broken={"kind": "correspondence", "name": "C06.check_case"}, found_input=False)
    else:
        ctx.obligation("correspondence:cases", "correspondence", False, "Model.vo not built")
    if os.path.exists(os.path.join(common.COQ, "C06", "Naming.vo")):
        hdr = ctx.header(["Model", "Gen", "Naming"])
        bad, log = ctx.eval_cases(hdr, "ncase", "check_ncase", ncases, tag="neighbours", shard=60)
        for b in (bad or [])[:5]:
            i, failed = nidx[b]
            what = ("names" if ncases[b].startswith("NNames") else "runs of one fit")
            ctx.failure("correspondence", "model and implementation disagree on the %s of neighbours history %s: %s" % (
                what, json.dumps(short(cases[i])), ncases[b][:400] if what == "names" else ""),
                cases[i], impl=compact(results[i]["ok"]), broken={"kind": "correspondence", "name": "C06.check_ncase"}, found_input=failed)
    elif ncases:
        ctx.obligation("correspondence:neighbours", "correspondence", False, "Naming.vo not built")


def model_term(case_term):
    """For a replay: the model's own trace / outcome of each run of a disagreeing history."""
    return ("match (%s) with CHistory cd c tagged runs => (fix go (tag : nat) (l : list runobs) (s : fs) := match l with [] => [] | o :: r => "
            "let '(s', out, tr) := run_spec cd c tag (o_trace o) (o_crash o) s in "
            "(tr, out, map (fun x => (x, fd s' x)) all_roles, match fz s' with ZAbsent => 0%%nat | ZPartial => 1%%nat | ZFull _ => 2%%nat end) :: go (if tagged then S tag else tag) r s' end) "
            "0%%nat runs empty_fs end" % case_term)


def compact(res):
    out = []
    for r in res["runs"]:
        out.append({"outcome": r["outcome"], "msg": r.get("msg"), "evals": r.get("evals"), "result_tag": r.get("result_tag"),
                    "samples_tag": r.get("samples_tag"), "trace": " ".join("%s:%s" % (a, b) for a, b in r["trace"]),
                    "truncated": r.get("truncated"), "crash_index": r.get("crash_index"),
                    "folder": " ".join("%s=%s%s" % (f[0], f[1], "" if f[2] is None else "(%s)" % f[2]) for f in r["fs"]["files"]),
                    "archive": r["fs"]["zip"]["state"], "strays": r["fs"]["strays"]})
        if "fit" in r:
            out[-1].update({"fit": r["fit"], "names": r.get("names"), "foreign": r.get("foreign"),
                            "copies": [[c["where"], c["kind"]] for c in r.get("copies") or []]})
    return out


MANIFEST = {
    "text": "Coq 8.16 model of the file-system life-cycle of a fit (restore, pre-fit files, likelihood sanity check, sampling updates, "
            "result files, .completed last, search_internal, zip, optional rmtree) as micro-operations with crash = any prefix + interrupted "
            "file empty/half; theorems for every state, walk order, crash point and history length: a stored result is found again without "
            "sampling and with the same best fit / samples (complete once), stays stored under every crash outside the archive-write window "
            "and under every crash once the archive write is atomic (durable), a reachability invariant holds along every history and "
            "recoverable states resume to a complete result (resume; unconditional for the repaired code), with _refuted witnesses for the "
            "archive-write window, LBFGS resume, truncated search state / summary, empty timer files; vm_compute correspondence of the model "
            "with real killed/re-run fits (trace, outcome, folder, archive) and a direct property oracle; "
            "naming model (folder / archive / temporary archive / marker of a fit; suffixes translated fail-closed from _zip_path, zip_directory, "
            "_has_completed_path, output_path pinned) with theorems: the archive name determines the folder, two different legal fits share no "
            "name, and in any interleaving of runs and crashes of several fits in one directory each fit sees exactly its own history (hence "
            "durable / complete-once / never handed a neighbour's output); correspondence on generated neighbour histories (names really used, "
            "per-fit runs, no run touches another fit's folder or archive) and a per-fit oracle incl. a name-agnostic search for the completed result",
    "note": "Trusted: Coq kernel + vm_compute, the audit-hook fault injector and file readers of the harness, POSIX process-death "
            "semantics (no power loss, no concurrent writers). Model: Drawer and LBFGS with DirectoryPaths (incl. the user files of "
            "Analysis.save_attributes / save_results); DatabasePaths, DynestyStatic and PySwarms by the oracle only; every os.replace is "
            "checked to move a closed, complete file. The correspondence is pinned to Model.repaired (= /repo now). Defects of the pinned tree (interrupted archive write, LBFGS "
            "resume, truncated search state / samples summary, empty timer files, likelihood sanity check, DatabasePaths re-run) are listed "
            "as known findings with proposed repairs; theorems named *_repaired hold for the model with those repairs.",
    "technique": "machine-checked proof in Coq (state-machine model, invariants over all crash prefixes) + vm_compute correspondence with fault-injected real fits",
}
