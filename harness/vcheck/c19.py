"""C19 -- opening an older database migrates it exactly once (DESIGN.md section 5, C19)."""
import hashlib
import json
import os
import sys

from . import common
from .common import cstr, cnat, cbool, clist, copt

sys.path.insert(0, os.path.join(common.VERIF, "harness", "impl"))
import c19_ddl as D  # noqa: E402  (pure Python, no autofit import)

STEPS_PY = "autofit/database/migration/steps.py"
GEN = os.path.join(common.COQ, "C19", "Gen.v")
# PINNED history (committed, never regenerated; see its "comment"): released step texts and ids, the schema
# before the first step, the schema of the historical test database (copy: corpus/C19/historical_database.sqlite)
PIN_PATH = os.path.join(common.VERIF, "corpus", "C19", "pinned_history.json")


def load_pin():
    return json.load(open(PIN_PATH))


# ---------------------------------------------------------------------------
# Coq printers
# ---------------------------------------------------------------------------

def c_stmt(st):
    if st[0] == "add":
        return "AddColumn %s %s" % (cstr(st[1]), cstr(st[2]))
    if st[0] == "rename":
        return "RenameColumn %s %s %s" % (cstr(st[1]), cstr(st[2]), cstr(st[3]))
    return "CreateTable %s %s" % (cstr(st[1]), clist([cstr(c) for c in st[2]]))


def c_steps(raw_steps, parsed, sep="\n   "):
    if not raw_steps:
        return "(@nil step)"
    return clist([sep + clist(["(%s, %s)" % (cstr(r), c_stmt(p)) for r, p in zip(rs, ps)])
                  for rs, ps in zip(raw_steps, parsed)])


def c_schema(schema):
    return clist(["(%s, %s)" % (cstr(t), clist([cstr(c) for c in cols])) for t, cols in schema])


def c_rev(rev):
    if rev == "notable":
        return "RNoTable"
    if rev == []:
        return "REmpty"
    if isinstance(rev, list) and len(rev) == 1:
        return "(RRow %s)" % copt(rev[0], cstr)
    raise ValueError("revision table in a state outside the model: %r" % (rev,))


def c_db(o):
    return "(mkdb %s %s %s)" % (c_schema(o["schema"]), c_rev(o["rev"]), cnat(o["nfit"] or 0))


def c_md5_table(strings):
    return clist(["(%s, %s)" % (cstr(s), cstr(D.md5(s))) for s in strings])


def md5_inputs(raw_steps):
    """The strings the model hashes for a step list: joined statements, joined ids of every prefix."""
    out = []
    for s in raw_steps:
        j = ":".join(s)
        if j not in out:
            out.append(j)
    ids = [D.step_id(s) for s in raw_steps]
    for i in range(len(ids) + 1):
        j = ":".join(ids[:i])
        if j not in out:
            out.append(j)
    return out


# ---------------------------------------------------------------------------
# translator: steps.py (AST) + Base.metadata (runtime) -> Gen.v
# ---------------------------------------------------------------------------

class TranslationError(Exception):
    pass


def _meta(repo):
    res = common.run_impl("c19_impl", {"mode": "meta"}, timeout=300, extra_env={"VERIF_REPO": repo})
    if "__error__" in res:
        raise TranslationError("cannot read Base.metadata from the implementation: " + res["__error__"][-400:])
    if "parse_error" in res:
        raise TranslationError("runtime steps outside the three DDL forms: " + res["parse_error"])
    return res["meta"]


def detect_variant(repo):
    """Three syntactic facts about the anchored code (which of the proposed repairs it contains).  Only a hint
    that selects the model variant: a wrong hint makes the correspondence fail, it cannot make it pass."""
    import ast

    def tree(rel):
        return ast.parse(open(os.path.join(repo, rel)).read())

    def func(t, name, cls=None, pred=lambda f: True):
        for node in ast.walk(t):
            if isinstance(node, ast.ClassDef) and cls and node.name == cls:
                for f in node.body:
                    if isinstance(f, ast.FunctionDef) and f.name == name and pred(f):
                        return f
            if cls is None and isinstance(node, ast.FunctionDef) and node.name == name and pred(node):
                return node
        return None

    mig = func(tree("autofit/database/migration/migration.py"), "migrate", "Migrator")
    v_commit = bool(mig) and any(isinstance(n, ast.Call) and isinstance(n.func, ast.Attribute) and n.func.attr == "commit"
                                for n in ast.walk(mig))
    is_setter = lambda f: any(isinstance(d, ast.Attribute) and d.attr == "setter" for d in f.decorator_list)
    setter = func(tree("autofit/database/migration/session_wrapper.py"), "revision_id", "SessionWrapper", is_setter)
    v_insert = bool(setter) and any(isinstance(n, ast.Constant) and isinstance(n.value, str) and "INSERT INTO revision" in n.value
                                    for n in ast.walk(setter))
    od = func(tree("autofit/database/__init__.py"), "open_database")
    v_stamp = bool(od) and any(isinstance(n, ast.Assign) and any(isinstance(t, ast.Attribute) and t.attr == "revision_id" for t in n.targets)
                               for n in ast.walk(od))
    return [v_commit, v_insert, v_stamp]


def exact_upto(parsed, base):
    """Smallest k such that opening an UNSTAMPED file at schema revision k makes a statement of an already
    applied step take effect again (reference semantics); len(steps)+1 when there is none."""
    n = len(parsed)
    for k in range(n + 1):
        cur = {t: list(c) for t, c in base}
        for st in parsed[:k]:
            for x in st:
                D.apply_stmt(cur, x)
        took = [(i, j) for i, st in enumerate(parsed) for j, x in enumerate(st) if D.apply_stmt(cur, x)]
        if took != [(i, j) for i, st in enumerate(parsed) for j in range(len(st)) if i >= k]:
            return k
    return n + 1


def gen_text(raw_steps, line, meta, variant=(False, False, False)):
    parsed = []
    for i, step in enumerate(raw_steps):
        if not step:
            raise TranslationError("step %d has no statement" % i)
        try:
            parsed.append([D.parse_stmt(s) for s in step])
        except D.DDLError as e:
            raise TranslationError("step %d: %s" % (i, e))
    if meta["steps"] != raw_steps:
        raise TranslationError("steps imported at run time differ from the literal list in steps.py")
    for t, cols in meta["orm"]:
        for name in [t] + cols:
            if name != name.lower() or '"' in name:
                raise TranslationError("ORM identifier %r is not lower case (SQLite compares case-insensitively)" % name)
    orm = sorted(meta["orm"])
    # historical schemas are PINNED, not derived from the current mappers: a mapper column added without a
    # migration step is then a gap (broken proof + failing opens), not part of "the original schema"
    pin = load_pin()
    base = [[t, list(c)] for t, c in pin["base_schema"]]
    art_schema = [[t, list(c)] for t, c in pin["artifact_schema"]]
    art = meta.get("artifact")
    if not art or sorted(art["schema"]) != sorted(art_schema):
        raise TranslationError("corpus/C19/historical_database.sqlite does not have the pinned schema")
    for t, cols in base + art_schema:
        for name in [t] + list(cols):
            if name != name.lower():
                raise TranslationError("pinned identifier %r is not lower case" % name)
    pinned_ids = list(pin["revision_ids"])
    def gaps_of(start):
        cur = {t: list(c) for t, c in start}
        for st in parsed:
            for x in st:
                D.apply_stmt(cur, x)
        return [(t, c) for t, cols in orm for c in cols if t not in cur or c not in cur[t]]
    orm_gaps = gaps_of(base)
    art_gaps = gaps_of(art_schema)
    upto = exact_upto(parsed, base)
    c_gaps = lambda g: clist(["(%s, %s)" % (cstr(t), cstr(c)) for t, c in g])
    digest = hashlib.sha1(json.dumps([raw_steps, orm, base, art_schema, pinned_ids, list(variant)], sort_keys=True).encode()).hexdigest()
    lines = [
        "(* GENERATED by harness/vcheck/c19.py on every run -- do not edit.",
        "   steps      : literal `steps = [Step(...), ...]` of %s (line %d), each statement with its parse" % (STEPS_PY, line),
        "   md5_table  : hashlib.md5 of the joined statements of every step and of the joined ids of every prefix",
        "   orm_schema : tables / columns of autofit.database Base.metadata (what the current mappers read and write)",
        "   base_schema: PINNED schema before the first step (corpus/C19/pinned_history.json)",
        "   artifact_schema: PINNED schema of the repository's historical test database (copy in corpus/C19)",
        "   pinned_revision_ids: PINNED ids of the released revisions 1..%d (what released versions stamped files with) *)" % len(pinned_ids),
        "From Coq Require Import List String.",
        "From PAFC19 Require Import Syntax.",
        "Import ListNotations.",
        "Open Scope string_scope.",
        "",
        "Definition steps : list step :=\n  %s." % c_steps(raw_steps, parsed),
        "",
        "Definition md5_table : list (string * string) :=\n  %s." % c_md5_table(md5_inputs(raw_steps)),
        "",
        "Definition orm_schema : schema :=\n  %s." % c_schema(orm),
        "",
        "Definition base_schema : schema :=\n  %s." % c_schema(base),
        "",
        "Definition artifact_schema : schema :=\n  %s." % c_schema(art_schema),
        "",
        "Definition pinned_revision_ids : list string :=\n  %s." % clist([cstr(x) for x in pinned_ids]),
        "",
        "(* mapper columns that base_schema / artifact_schema + all steps do NOT provide (computed by the reference",
        "   semantics of the harness; Proofs3.v proves each listed gap real and the rest of the ORM covered) *)",
        "Definition orm_gaps : list (string * string) :=\n  %s." % c_gaps(orm_gaps),
        "",
        "Definition artifact_gaps : list (string * string) :=\n  %s." % c_gaps(art_gaps),
        "",
        "(* unstamped files at schema revision k < exact_upto are migrated by exactly the missing steps; at",
        "   k = exact_upto a statement of an applied step takes effect again (length steps + 1: never) *)",
        "Definition exact_upto : nat := %d." % upto,
        "",
        "(* which proposed repairs the anchored code contains (syntactic reading of migrate / setter / open_database) *)",
        "Definition code_variant : variant := mkvariant %s %s %s." % tuple(cbool(b) for b in variant),
        "",
        "Definition src_digest : string := %s." % cstr(digest),
        "",
    ]
    info = {"steps.py:steps": {"source": json.dumps(raw_steps), "line": line},
            "Base.metadata": {"source": json.dumps(orm), "line": 0},
            "artifact": {"source": json.dumps(art_schema), "line": 0}}
    info["orm_gaps"] = {"source": json.dumps(orm_gaps), "line": 0}
    info["artifact_gaps"] = {"source": json.dumps(art_gaps), "line": 0}
    info["exact_upto"] = {"source": str(upto), "line": 0}
    info["code_variant"] = {"source": "commit=%s insert=%s stamp_new=%s" % tuple(variant), "line": 0}
    info["pinned_revision_ids"] = {"source": json.dumps(pinned_ids), "line": 0}
    info["_gaps"] = {"orm": ["%s.%s" % g for g in orm_gaps], "artifact": ["%s.%s" % g for g in art_gaps]}
    return "\n".join(lines), info, parsed, orm, base, art_schema, upto


def regenerate(repo=None, meta=None):
    repo = repo or common.REPO
    try:
        raw_steps, line = D.extract_steps_source(os.path.join(repo, STEPS_PY))
    except (D.DDLError, OSError, SyntaxError) as e:
        raise TranslationError(str(e))
    meta = meta or _meta(repo)
    try:
        variant = detect_variant(repo)
    except (OSError, SyntaxError) as e:
        raise TranslationError("cannot read the anchored migration code: %s" % e)
    text, info, parsed, orm, base, art, upto = gen_text(raw_steps, line, meta, variant)
    old = open(GEN).read() if os.path.exists(GEN) else None
    if old != text:
        with open(GEN, "w") as f:
            f.write(text)
    gaps = info.pop("_gaps")
    return {"info": info, "raw": raw_steps, "parsed": parsed, "orm": orm, "base": base, "artifact": art, "meta": meta,
            "exact_upto": upto, "variant": variant, "gaps": gaps}


# ---------------------------------------------------------------------------
# generator
# ---------------------------------------------------------------------------

OPS_CHOICES = [([], 30), (["commit"], 14), (["write", "commit"], 22), (["write"], 10), (["commit", "write"], 6),
               (["write", "write", "commit"], 6), (["write", "commit", "write"], 6), (["commit", "commit"], 3),
               (["write", "commit", "write", "commit"], 3), (["rollback"], 4), (["write", "rollback"], 4),
               (["write", "rollback", "commit"], 3), (["write", "commit", "write", "rollback"], 3), (["rollback", "write", "commit"], 3)]


def pick_ops(rng):
    tot = sum(w for _, w in OPS_CHOICES)
    x = rng.uniform(0, tot)
    for ops, w in OPS_CHOICES:
        x -= w
        if x <= 0:
            return list(ops)
    return []


def gen_sessions(rng, lo=1, hi=4, first=None):
    n = rng.randint(lo, hi)
    out = []
    for i in range(n):
        ops = first if (i == 0 and first is not None) else pick_ops(rng)
        out.append({"via": rng.choice(["open_database", "aggregator"]), "ops": list(ops)})
    return out


def with_url(rng, sessions, p=0.5):
    """Open (some of) the sessions through the URL branch of open_database ("sqlite:////abs/file.db")."""
    for s_ in sessions:
        if rng.random() < p:
            s_["via"] = "url"
    if not any(s_["via"] == "url" for s_ in sessions):
        sessions[0]["via"] = "url"
    return sessions


def gen_history_cases(ctx, n, has_artifact):
    rng = ctx.rng
    thorough = ctx.tier == "thorough"
    cases = []

    def mk(base, k, rev, sessions, nfits=None, start="file", features=False):
        return {"kind": "history", "start": start, "base": base, "k": k, "rev": rev,
                "nfits": rng.choice([0, 1, 2, 2]) if nfits is None else nfits, "sessions": sessions, "features": features,
                "relpath": rng.random() < 0.3}

    # systematic: every revision x every reachable revision-table state x {read-only, committing} first session
    for k in range(n + 1):
        revs = ["notable", "empty"] + (["stamp:%d" % k] if k >= 1 else [])
        for rev in revs:
            for first in ([], ["commit"], ["write", "commit"]):
                if first == ["write", "commit"] and not thorough and (k + len(rev)) % 3:
                    continue
                cases.append(mk("derived", k, rev, gen_sessions(rng, 2, 3, first=first),
                                features=(first != ["write", "commit"]) and (thorough or (rev != "empty" and (first == [] or k % 2 == 0)) or k % 4 == 0)))
    if has_artifact:
        for k in ([1, 4, n] if not thorough else range(1, n + 1)):
            for rev in ["notable", "empty", "stamp:%d" % k]:
                for first in ([], ["commit"]):
                    cases.append(mk("artifact", k, rev, gen_sessions(rng, 2, 3, first=first),
                                    features=(rev == "notable" or thorough)))
    # the URL branch of open_database (no ".sqlite" suffix: exists is assumed, no directory / prefix handling)
    for k in ([0, 3, 7, n - 1, n] if not thorough else range(n + 1)):
        for rev in ["notable"] + (["stamp:%d" % k] if k >= 1 else ["empty"]):
            cases.append(mk("derived", k, rev, with_url(rng, gen_sessions(rng, 2, 3, first=rng.choice([[], ["commit"]]))), features=False))
    # an existing zero-byte file (a valid empty SQLite database; outside the property: correspondence only)
    def no_writes(sessions):
        for s_ in sessions:
            s_["ops"] = [o for o in s_["ops"] if o != "write"]
        return sessions
    cases.append(mk("derived", 0, "notable", no_writes(gen_sessions(rng, 2, 3)), nfits=0, start="emptyfile", features=False))
    cases.append(mk("derived", 0, "notable", with_url(rng, no_writes(gen_sessions(rng, 1, 2))), nfits=0, start="emptyfile", features=False))
    # files created by the current code (create_all), then reopened
    for first in ([], ["commit"], ["write", "commit"], ["write"]):
        cases.append(mk("derived", n, "notable", gen_sessions(rng, 2, 4, first=first), nfits=0, start="fresh", features=True))
    # random histories, including malformed revision-table states
    for _ in range(30 if not thorough else 400):
        base = "artifact" if (has_artifact and rng.random() < 0.2) else "derived"
        k = rng.randint(1 if base == "artifact" else 0, n)
        r = rng.random()
        if r < 0.25:
            rev = "notable"
        elif r < 0.4:
            rev = "empty"
        elif r < 0.6 and k >= 1:
            rev = "stamp:%d" % k
        elif r < 0.7:
            rev = "null"
        elif r < 0.9:
            rev = "stamp:%d" % rng.randint(1, n)
        else:
            rev = "unknown:" + rng.choice(["deadbeef", "", D.step_id(["x"]), "None"])
        if rng.random() < 0.08:
            cases.append(mk("derived", n, "notable", gen_sessions(rng, 1, 4), nfits=0, start="fresh",
                            features=rng.random() < 0.3))
        else:
            sess = gen_sessions(rng, 1, 4)
            if rng.random() < 0.15:
                cases.append(mk(base, k, rev, with_url(rng, sess), features=False))
            else:
                cases.append(mk(base, k, rev, sess, features=rng.random() < (0.5 if thorough else 0.15)))
    return cases


TOY_TABLES = ["fit", "t1", "t2", "t3"]
TOY_COLS = ["c0", "c1", "c2", "c3", "c4"]


def toy_stmt(rng):
    r = rng.random()
    if r < 0.45:
        t, c = rng.choice(TOY_TABLES), rng.choice(TOY_COLS)
        return "ALTER TABLE %s ADD %s%s VARCHAR;" % (t, "COLUMN " if rng.random() < 0.5 else "", c)
    if r < 0.7:
        t = rng.choice(TOY_TABLES[1:])
        cols = rng.sample(TOY_COLS, rng.randint(0, 3))
        defs = ", ".join(["id INTEGER NOT NULL"] + ["%s VARCHAR" % c for c in cols])
        return "CREATE TABLE %s (%s, PRIMARY KEY (id));" % (t, defs)
    t = rng.choice(TOY_TABLES)
    a, b = rng.sample(TOY_COLS + ["c5"], 2)
    return "ALTER TABLE %s RENAME COLUMN %s TO %s;" % (t, a, b)


def toy_steps(rng, allow_dup=True, allow_empty=False):
    steps = []
    for _ in range(0 if (allow_empty and rng.random() < 0.04) else rng.randint(1, 5)):
        if allow_dup and steps and rng.random() < 0.12:
            steps.append(list(rng.choice(steps)))
        else:
            steps.append([toy_stmt(rng) for _ in range(rng.randint(1, 3))])
    return steps


def gen_toy_cases(ctx):
    rng = ctx.rng
    thorough = ctx.tier == "thorough"
    cases = []
    for _ in range(100 if not thorough else 1500):
        steps = toy_steps(rng, allow_empty=True)
        schema = [["fit", ["id"] + rng.sample(TOY_COLS, rng.randint(0, 2))]]
        for t in TOY_TABLES[1:]:
            if rng.random() < 0.5:
                schema.append([t, ["id"] + rng.sample(TOY_COLS, rng.randint(0, 3))])
        r = rng.random()
        n = len(steps)
        if r < 0.3:
            rev = "notable"
        elif r < 0.45:
            rev = "empty"
        elif r < 0.55:
            rev = "null"
        elif r < 0.9:
            rev = "stamp:%d" % rng.randint(0, n)
        else:
            rev = "unknown:" + rng.choice(["deadbeef", ""] + [D.step_id(st) for st in steps[:1]])
        cases.append({"kind": "toy", "steps": steps, "schema": schema, "rev": rev, "nfits": rng.randint(0, 2),
                      "sessions": [{"ops": pick_ops(rng)} for _ in range(rng.randint(1, 3))]})
    return cases


def gen_get_steps_cases(ctx, raw_steps):
    rng = ctx.rng
    thorough = ctx.tier == "thorough"
    n = len(raw_steps)
    cases = [{"kind": "ids"}]
    rids = [None, "", "unknown", D.revision_id([])] + [D.revision_id(raw_steps[:i]) for i in range(1, n + 1)]
    rids += [D.step_id(s) for s in raw_steps[:2]]
    for rid in rids:
        cases.append({"kind": "get_steps", "steps": None, "rid": rid})
    for _ in range(60 if not thorough else 600):
        steps = toy_steps(rng)
        m = len(steps)
        r = rng.random()
        if r < 0.1:
            rid = None
        elif r < 0.85:
            rid = D.revision_id(steps[:rng.randint(0, m)])
        elif r < 0.93:
            rid = D.step_id(steps[rng.randrange(m)])
        else:
            rid = "junk"
        cases.append({"kind": "get_steps", "steps": steps, "rid": rid})
    return cases


# ---------------------------------------------------------------------------
# property oracle (direct statement on the implementation's observables; independent of the model)
# ---------------------------------------------------------------------------

def flat(steps):
    return [(i, j) for i, s in enumerate(steps) for j in range(len(s))]


def covers(schema, need):
    have = {t: set(c) for t, c in schema}
    missing = []
    for t, cols in need:
        if t not in have:
            missing.append(t + ".*")
        else:
            missing += ["%s.%s" % (t, c) for c in cols if c not in have[t]]
    return missing


def valid_start(c):
    if c["start"] == "fresh":
        return True
    if c["start"] == "emptyfile":
        return False
    rev = c["rev"]
    return rev in ("notable", "empty") or rev == "stamp:%d" % c["k"]


def case_labels(c, n, upto=None):
    """Labels computed from the abstract case only (upto: static fact about the step list, see exact_upto).
    The only recorded finding left: a file WITHOUT stamp whose schema is at or past the rename step."""
    upto = n if upto is None else upto
    lab = set()
    if c["kind"] == "history" and c["start"] == "file" and c["k"] >= upto and c["rev"] in ("notable", "empty"):
        lab.add("unstamped-past-rename")
    return lab


def predicted_effect(parsed, schema):
    """Reference semantics (c19_ddl.apply_stmt): which statements take effect when every step is run on `schema`."""
    cur = {t: list(cols) for t, cols in schema}
    return [(i, j) for i, st in enumerate(parsed) for j, x in enumerate(st) if D.apply_stmt(cur, x)]


def norm_feature(v):
    return v if not v.startswith("exc:") else ":".join(v.split(":")[:2])


def is_schema_error(v):
    return v.startswith("exc:OperationalError") or "no such column" in v or "no such table" in v


def oracle_history(c, r, env):
    """Returns (failures, notes): failures = list of (message, classes).  env: raw steps, orm, latest id (computed
    without the code's migrator: md5 via hashlib on the literal step strings)."""
    steps, orm, latest = env["raw"], env["orm"], env["latest"]
    n = len(steps)
    out, notes = [], []
    labels = case_labels(c, n, env.get("exact_upto"))
    fresh = c["start"] == "fresh"
    valid = valid_start(c)
    k = n if fresh else c["k"]
    missing_stmts = [(i, j) for (i, j) in flat(steps) if i >= k]
    disk = r["initial"]
    migrated_once = False       # a session has already had to migrate
    stamped_before = (not fresh) and disk["rev"] == [latest]
    sr_of = lambda o: (o["schema"], o["rev"])
    for si, (s, sc) in enumerate(zip(r["sessions"], c["sessions"])):
        tr = s["trace"]
        step_ev = [(e[1], e[2], e[3]) for e in tr if e[0] == "step"]
        side = [e[0] for e in tr if e[0] in ("create_rev", "insert_null", "insert_rev", "update_rev", "create_all")]
        creating = fresh and si == 0
        # (d) a database stamped with the current revision: the open changes nothing and executes nothing
        if disk["rev"] == [latest]:
            if step_ev or side:
                out.append(("session %d: database stamped current, yet the open executed %s %s" % (si, step_ev[:3], side), []))
            if s["after_open"] != disk:
                out.append(("session %d: open of a stamped-current database changed it" % si, []))
        # (e) rows survive the open (every table); committed writes persist, uncommitted / rolled back ones do not
        if not creating:
            for t, cnt in disk["rows"].items():
                if s["after_open"]["rows"].get(t) != cnt:
                    out.append(("session %d: table %s had %s rows before the open, %s after" % (si, t, cnt, s["after_open"]["rows"].get(t)), []))
        pending = committed = 0
        for op in sc["ops"]:
            if op == "write":
                pending += 1
            elif op == "commit":
                committed, pending = committed + pending, 0
            else:
                pending = 0
        before = 0 if creating else disk["nfit"]
        if c["start"] != "emptyfile" and s["after_close"]["nfit"] != before + committed:
            out.append(("session %d: %d committed writes on %d rows left %s rows" % (si, committed, before, s["after_close"]["nfit"]), []))
        if valid and creating:
            # a file made by open_database is at the current revision from the start
            miss = covers(s["after_close"]["schema"], orm)
            if miss or s["after_close"]["rev"] != [latest]:
                out.append(("session 0: new file: revision %r (current %s), mapper columns missing: %s" % (s["after_close"]["rev"], latest, miss), []))
            stamped_before = True
        if valid and not creating:
            first_migration = not migrated_once and not stamped_before
            if first_migration:
                migrated_once = True
                # (a) reaches the current schema and revision inside the session
                miss = covers(s["after_open"]["schema"], orm)
                if miss:
                    out.append(("session %d: after migration the mappers' %s missing" % (si, ", ".join(miss)), []))
                if s["after_open"]["rev"] != [latest]:
                    out.append(("session %d: revision inside the migrating session is %r, not the current %s" % (si, s["after_open"]["rev"], latest), []))
                # (b) exactly the missing steps, each once, in order
                succ = [(i, j) for i, j, ok in step_ev if ok]
                if succ != missing_stmts:
                    # the recorded finding explains exactly one outcome: the one the reference semantics predicts
                    cl = []
                    if "unstamped-past-rename" in labels and env.get("parsed") and succ == predicted_effect(env["parsed"], r["initial"]["schema"]):
                        cl = ["unstamped-past-rename"]
                    out.append(("session %d: statements that took effect %s, missing steps are %s" % (si, succ, missing_stmts), cl))
                if c["rev"].startswith("stamp:") and not fresh and [(i, j) for i, j, _ in step_ev] != missing_stmts:
                    out.append(("session %d: stamped revision %d, attempted %s" % (si, k, [(i, j) for i, j, _ in step_ev]), []))
            else:
                # (c) fixed point after the first open: nothing more is executed, nothing changes
                if step_ev:
                    out.append(("session %d: steps executed again on a later open: %s" % (si, [(i, j) for i, j, _ in step_ev][:4]), []))
                if sr_of(s["after_open"]) != sr_of(disk):
                    out.append(("session %d: a later open changed schema / revision" % si, []))
            # the stamp and the migrated schema are stored once the migrating session is over, commit or no commit
            if s["after_close"]["rev"] != [latest]:
                out.append(("session %d: after the session the file's revision is %r, not %s" % (si, s["after_close"]["rev"], latest), []))
            miss = covers(s["after_close"]["schema"], orm)
            if miss:
                out.append(("session %d: after the session the file lacks the mappers' %s" % (si, ", ".join(miss)), []))
        disk = s["after_close"]
    f = r.get("features")
    if f and valid:
        base = env.get("features_baseline") or {"write": {}, "read": {}}
        for phase in ("write", "read"):
            for name, v in f[phase].items():
                if v == "ok":
                    continue
                b = base[phase].get(name, "ok")
                if is_schema_error(v) or norm_feature(v) != norm_feature(b):
                    out.append(("feature %s (%s) on the migrated database: %s (on a database made by create_all: %s)" % (name, phase, v, b), []))
                else:
                    notes.append("feature %s (%s) fails in the same way on a database made by create_all: %s" % (name, phase, norm_feature(v)))
    old = r.get("old_fits", f["old_fits"] if f else None)
    if old is not None and valid and old != env["expected_old"][str(c["nfits"])]:
        out.append(("fits stored before the migration do not read back: %s" % json.dumps(old)[:300], []))
    return out, notes


def oracle_get_steps(c, r, raw_steps):
    """Steps returned for a known prefix revision are exactly the remaining ones (distinct steps)."""
    steps = raw_steps if c.get("steps") is None else c["steps"]
    ids = [D.step_id(s) for s in steps]
    if len(set(ids)) != len(ids):
        return None  # duplicate steps: outside the property (steps are distinct)
    n = len(steps)
    for i in range(1, n + 1):
        if c["rid"] == D.revision_id(steps[:i]):
            return None if r["ids"] == ids[i:] else "get_steps(revision %d) returned %d steps, expected the last %d" % (i, len(r["ids"]), n - i)
    return None if r["ids"] == ids else "get_steps(unknown / None) did not return every step"


# ---------------------------------------------------------------------------
# correspondence terms
# ---------------------------------------------------------------------------

def c_ev(e, real=True):
    k = e[0]
    if k == "step":
        return "%s %d %d %s" % ("R" if real else "T ss", e[1], e[2], cbool(e[3]))
    return {"select_rev": "ESelectRev %s", "select_one": "ESelectOne %s", "create_rev": "ECreateRev%.0s",
            "insert_null": "EInsertNull%.0s", "update_rev": "EUpdateRev %s", "create_all": "ECreateAll%.0s", "insert_rev": "EInsertRev%.0s",
            "other": "EStmt \"?other\" %s"}[k] % cbool(e[3])


def c_ops(ops):
    return clist([{"commit": "OpCommit", "write": "OpWrite", "rollback": "OpRollback"}[o] for o in ops])


def c_seen(sessions, prev, real=True):
    out = []
    for s in sessions:
        parts = []
        for key in ("after_open", "before_close", "after_close"):
            o = s[key]
            cmp_o = {"schema": o["schema"], "rev": o["rev"], "nfit": o["nfit"] or 0}
            if prev is not None and cmp_o == prev:
                parts.append("None")
            else:
                parts.append("(Some %s)" % c_db(o))
            prev = cmp_o
        out.append("mkseen %s %s" % (clist([c_ev(e, real) for e in s["trace"]]), " ".join(parts)))
    return clist(["\n    " + x for x in out])


def coq_case(c, r):
    k = c["kind"]
    if k == "ids":
        return "CIds %s %s %s" % (clist([cstr(x) for x in r["step_ids"]]), clist([cstr(x) for x in r["revision_ids"]]), cstr(r["latest"]))
    if k == "get_steps":
        ids = clist([cstr(x) for x in r["ids"]])
        if c["steps"] is None:
            return "CGetSteps %s %s" % (copt(c["rid"], cstr), ids)
        parsed = [[D.parse_stmt(s) for s in st] for st in c["steps"]]
        return "CToyGetSteps %s %s %s %s" % (c_md5_table(md5_inputs(c["steps"])), c_steps(c["steps"], parsed, " "), copt(c["rid"], cstr), ids)
    h = clist([c_ops(s["ops"]) for s in c["sessions"]])
    init = r["initial"]
    if k == "history":
        if init["rev"] == "nofile":
            start, prev = "NoFile", None
        else:
            start, prev = "(File %s)" % c_db(init), {"schema": init["schema"], "rev": init["rev"], "nfit": init["nfit"] or 0}
        return "CHistory %s %s %s" % (start, h, c_seen(r["sessions"], prev))
    parsed = [[D.parse_stmt(s) for s in st] for st in c["steps"]]
    prev = {"schema": init["schema"], "rev": init["rev"], "nfit": init["nfit"] or 0}
    return "(let ss := %s in CToyHistory %s ss %s %s %s)" % (
        c_steps(c["steps"], parsed, " "), c_md5_table(md5_inputs(c["steps"])), c_db(init), h, c_seen(r["sessions"], prev, real=False))


def nontrivial(c, n):
    k = c["kind"]
    if k == "history":
        # at least one step is missing or the file is unstamped, and there is a reopen after the first session
        fresh = c["start"] == "fresh"
        return len(c["sessions"]) >= 2 and (fresh or c["rev"] != "stamp:%d" % n)
    if k == "toy":
        return len(c["steps"]) >= 2
    if k == "get_steps":
        return c["rid"] is not None
    return False


def kind_of(c):
    if c["kind"] == "history":
        return "history:" + (c["start"] if c["start"] != "file" else c["base"])
    if c["kind"] == "get_steps":
        return "get_steps:" + ("real" if c["steps"] is None else "toy")
    return c["kind"]


# ---------------------------------------------------------------------------
# run
# ---------------------------------------------------------------------------

def chunk(lst, n):
    n = max(1, min(n, len(lst)))
    size = (len(lst) + n - 1) // n
    return [lst[i:i + size] for i in range(0, len(lst), size)]


def run(ctx):
    ctx.rule = ("cases: (history) a real SQLite file at schema revision k -- the PINNED original schema or the PINNED copy of the "
                "repository's historical database + the first k RELEASED steps, built with raw sqlite3 -- in a revision-table state "
                "(none / empty / NULL row / stamped with the PINNED id of revision k / mismatched or unknown stamp), or a zero-byte "
                "file, or no file (create_all); opened 1-4 times through open_database (absolute name, name relative to the output "
                "path, or a sqlite:/// URL = the non-.sqlite branch) / Aggregator.from_database with commit / write / rollback "
                "operations; (toy) random step lists over the three DDL forms run through Migrator.migrate on toy files; (get_steps) "
                "real and toy step lists incl. duplicates. Non-trivial: history with >= 2 sessions on a file not stamped current; toy "
                "with >= 2 steps; get_steps with a revision id. distinct = distinct abstract input")
    ctx.trusted = [
        "Coq 8.16.1 kernel incl. vm_compute",
        "translator in harness/vcheck/c19.py + harness/impl/c19_ddl.py: literal step list of steps.py (AST) parsed by a fail-closed "
        "parser for the three DDL forms; Base.metadata read at run time; hashlib.md5 as a finite table (md5 is a Section variable in "
        "the proofs); a syntactic reading of which repairs the code contains (code_variant)",
        "corpus/C19/pinned_history.json + historical_database.sqlite: the pinned history (released step texts and ids, original schema, "
        "historical file) -- committed data, never regenerated",
        "correspondence harness c19.py / impl/c19_impl.py (raw sqlite3 observations, SQLAlchemy engine events for the statement trace)",
        "modelled, covered by correspondence only: SQLite's evaluation of the three DDL forms (failing statement = no-op), pysqlite "
        "legacy transaction control (DML opens a transaction, DDL does not), SQLAlchemy Session.commit / rollback / close (= rollback)",
    ]
    ctx.assumptions = [
        "sessions are sequential: one connection at a time, a session is closed before the next open (no concurrent writers, no "
        "second open while a session is alive); identifiers lower case; md5 injective on the finitely many joined strings (checked "
        "for the generated steps by vm_compute); a revision table with more than one row is outside the model (reported, never generated)",
        "C19_reaches_* / C19_code_* are statements about the generated step list and mappers against the PINNED historical schemas "
        "(finite family: every prefix); a behaviour-preserving reordering inside migrate changes the statement trace and is reported "
        "as a correspondence disagreement without failing input",
        "feature oracle is differential: a storage feature must behave on a migrated database as it does on one made by create_all "
        "in the same run, and never raise a schema error",
    ]
    import time
    t0 = time.time()
    timing = ctx.notes.setdefault("timing_s", {})
    # 1. translator
    env = None
    try:
        env = regenerate()
        ctx.translated = env["info"]
        ctx.obligation("translator:Gen.v", "translator", True, "%d steps, %d ORM tables" % (len(env["raw"]), len(env["orm"])))
        known_k = len(env["parsed"]) + 1
        for i, st in enumerate(env["parsed"]):
            if ("rename", "object", "latent_variables_for_id", "latent_samples_for_id") in st:
                known_k = i + 1
        ctx.obligation("translator:exact_upto-is-the-recorded-finding", "translator", env["exact_upto"] >= known_k,
                       "unstamped files are migrated exactly below revision %d (recorded finding: %d)" % (env["exact_upto"], known_k))
        extra = sorted(set(env["gaps"]["orm"]) | set(env["gaps"]["artifact"]))
        ctx.obligation("translator:no-mapper-column-without-step", "translator", not extra,
                       "mapper columns that the PINNED historical schemas + all steps do not provide: %s" % (extra or "none"))
        # append-only history: what released versions stamped files with must stay recognisable
        pin = load_pin()
        run_ids = [D.revision_id(env["raw"][:j]) for j in range(1, len(env["raw"]) + 1)]
        ok_ids = run_ids[:len(pin["revision_ids"])] == pin["revision_ids"]
        ok_txt = env["raw"][:len(pin["steps"])] == pin["steps"]
        ctx.obligation("translator:released-revisions-are-a-prefix", "translator", ok_ids and ok_txt,
                       "%d pinned revision ids / step texts (corpus/C19/pinned_history.json) %s a prefix of the %d current ones"
                       % (len(pin["revision_ids"]), "are" if ok_ids and ok_txt else "are NOT", len(run_ids)))
    except TranslationError as e:
        ctx.obligation("translator:Gen.v", "translator", False, str(e)[:800])
    timing["translator"] = round(time.time() - t0, 1)
    # 2. proofs
    t1 = time.time()
    built = ctx.build() if env else False
    timing["build+audit"] = round(time.time() - t1, 1)
    if env:
        ctx.notes["code_variant"] = env["info"]["code_variant"]["source"]
        ctx.notes["exact_upto"] = env["exact_upto"]
    if env is None:
        # fail closed, but still search for a failing input with whatever the runtime reports
        res = common.run_impl("c19_impl", {"mode": "meta"}, timeout=300)
        if "__error__" in res or "meta" not in res:
            return
        meta = res["meta"]
        env = {"raw": meta["steps"], "orm": sorted(meta["orm"]), "artifact": meta.get("artifact"), "parsed": None}
    raw = env["raw"]
    n = len(raw)
    env["latest"] = D.revision_id(raw)
    has_art = True   # the historical file is pinned in corpus/C19
    # 3. cases
    if ctx.replay:
        rp = json.load(open(ctx.replay))
        cases = [rp["case"]] if rp.get("case") else []
    else:
        cases = []
        cdir = os.path.join(common.VERIF, "corpus", "C19")
        if os.path.isdir(cdir):
            for f in sorted(os.listdir(cdir)):
                if f.endswith(".json"):
                    doc = json.load(open(os.path.join(cdir, f)))
                    if "case" in doc:
                        cases.append(doc["case"])
        cases += gen_get_steps_cases(ctx, raw) + gen_history_cases(ctx, n, has_art) + gen_toy_cases(ctx)
    order = sorted(range(len(cases)), key=lambda i: (i % common.NCPU))
    chunks = chunk([cases[i] for i in order], common.NCPU)
    t2 = time.time()
    outs = common.run_impl_parallel("c19_impl", [{"mode": "cases", "cases": ch} for ch in chunks], timeout=1500)
    timing["implementation"] = round(time.time() - t2, 1)
    results = [None] * len(cases)
    pos = 0
    for ch, o in zip(chunks, outs):
        if "__error__" in o:
            ctx.obligation("impl-driver", "harness", False, o["__error__"][-800:])
            return
        env.setdefault("expected_old", {}).update(o["expected_old"])
        if o.get("features_baseline"):
            env.setdefault("features_baseline", o["features_baseline"])
        if o["meta"]["steps"] != raw:
            ctx.obligation("translator:runtime-steps", "translator", False, "steps at run time differ from the translated list")
        for r in o["results"]:
            results[order[pos]] = r
            pos += 1
    coq_cases, coq_idx = [], []
    for i, (c, r) in enumerate(zip(cases, results)):
        ctx.count_case(c, nontrivial(c, n), kind_of(c))
        ctx.oracle["cases"] += 1
        if c["kind"] == "history":
            ctx.hist("start", c["start"] if c["start"] != "file" else "%s k=%d %s" % (c["base"], c["k"], c["rev"].split(":")[0]))
            ctx.hist("sessions", len(c["sessions"]))
            ctx.hist("features", bool(c.get("features")))
            ctx.hist("relative_filename", bool(c.get("relpath")))
            ctx.hist("url_branch", any(x["via"] == "url" for x in c["sessions"]))
            ctx.hist("ops", " ".join(sorted(set(o_ for x in c["sessions"] for o_ in x["ops"]))) or "-")
        if "exc" in r:
            ctx.oracle["failures"] += 1
            ctx.failure("oracle", "driver raised %s: %s" % (r["exc"], r.get("msg")), c, impl=r)
            continue
        r = r["ok"]
        fails = []
        if c["kind"] == "history":
            fails, notes = oracle_history(c, r, env)
            for nt in notes:
                ctx.hist("feature-failure-unrelated-to-migration", nt[:120])
        elif c["kind"] == "get_steps":
            m = oracle_get_steps(c, r, raw)
            fails = [(m, [])] if m else []
        elif c["kind"] == "ids":
            ids = [D.step_id(s) for s in raw]
            if r["step_ids"] != ids or r["revision_ids"] != [D.revision_id(raw[:j]) for j in range(1, n + 1)] \
                    or len(set(r["revision_ids"])) != n or len(set(ids)) != n:
                fails = [("step / revision ids are not the md5 chain of the step list, or not distinct", [])]
        for msg, classes in fails:
            ctx.oracle["failures"] += 1
            ctx.failure("oracle", msg, c, classes=classes, impl=r if len(json.dumps(r)) < 20000 else {"sessions": r.get("sessions")})
        try:
            cc = coq_case(c, r)
        except (ValueError, D.DDLError) as e:
            ctx.failure("correspondence", "observation outside the model: %s" % e, c, impl=r)
            continue
        coq_cases.append(cc)
        coq_idx.append((i, bool(fails)))
        if i % 41 == 0:
            ctx.sample({"case": c if len(json.dumps(c)) < 600 else {"kind": c["kind"]}}, limit=8)
    # 4. correspondence inside Coq
    if os.path.exists(os.path.join(common.COQ, "C19", "Model.vo")):
        hdr = ctx.header(["Syntax", "Gen", "Model"])
        t3 = time.time()
        bad, log = ctx.eval_cases(hdr, "case", "check_case", coq_cases, shard=max(8, (len(coq_cases) + common.NCPU - 1) // common.NCPU))
        timing["correspondence"] = round(time.time() - t3, 1)
        for b in (bad or [])[:5]:
            i, oracle_failed = coq_idx[b]
            ctx.failure("correspondence", "model and implementation disagree on a %s case" % kind_of(cases[i]), cases[i],
                        impl=results[i].get("ok"), broken={"kind": "correspondence", "name": "C19.check_case"},
                        found_input=oracle_failed)
    else:
        ctx.obligation("correspondence:cases", "correspondence", False, "Model.vo not built")


MANIFEST = {
    "text": "Coq 8.16 theorems over a Gallina model of Migrator.get_steps / Revision.__sub__ / Migrator.migrate / SessionWrapper / "
            "open_database and of the SQLite file + one connection (transactions, failing DDL = no-op), instantiated at the code as it "
            "is: step list, mappers, md5 table and code variant are regenerated from /repo on every run and checked against a PINNED "
            "history (released step texts / revision ids, original schema, the repository's historical database). Proved: exactly the "
            "missing steps once and in order (all step lists with distinct ids; every released revision id is recognised), the three "
            "repairs are in the code, FULL fixed point after the first open for every file state and every user behaviour (commit, "
            "write, rollback, nothing; new files included), idempotence once stamped, every prefix reaches the current schema, the "
            "migrated schemas cover Base.metadata, no row / table / column lost; one refuted bound (unstamped files at or past the "
            "rename step re-add a column) with its partial theorem; plus vm_compute correspondence with real SQLite files at every "
            "historical revision and a direct property oracle incl. all storage features",
    "note": "Trusted: Coq kernel + vm_compute; the translator (AST of steps.py, fail-closed DDL parser, Base.metadata read at run time, "
            "hashlib.md5 as a finite table, a syntactic reading of which repairs the code contains); the pinned history in corpus/C19; "
            "the correspondence harness. SQLite's evaluation of the three DDL forms, pysqlite's transaction control and SQLAlchemy's "
            "commit/rollback/close are modelled and covered by correspondence only (history + toy cases). Sessions are sequential (one "
            "connection at a time); URL databases are exercised through sqlite:/// URLs only. One known finding remains "
            "(unstamped-past-rename); four defects found by this check were repaired in /repo (8b3dae9, 48cc87a).",
    "technique": "machine-checked proof in Coq (translator-regenerated step list / schema, pinned history) + vm_compute correspondence",
}
