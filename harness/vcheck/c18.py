"""C18 -- expectation-propagation bookkeeping is exact (DESIGN.md section 5, C18)."""
import json
import os
from fractions import Fraction as Fr

from . import common
from .common import cZ, cnat, cbool, clist, copt, cpair

# ---------------------------------------------------------------------------
# small exact reference used ONLY to steer the generator (mostly-valid updates, no
# projections whose validity would be decided by binary64 rounding) and to compute class
# labels from the case; it is not part of any comparison
# ---------------------------------------------------------------------------


def unhex(s):
    return float(s) if s in ("nan", "inf", "-inf") else float.fromhex(s)


_FLAGS = {}


def model_flag(name, default=True):
    if name not in _FLAGS:
        _FLAGS[name] = _model_flag(name, default)
    return _FLAGS[name]


def _model_flag(name, default=True):
    """the faithful-to-the-code switches of coq/C18/Model.v (single place to flip when a fix lands);
    here they only steer the generator"""
    try:
        import re
        txt = open(os.path.join(common.COQ, "C18", "Model.v")).read()
        m = re.search(r"Definition %s : bool := (true|false)\." % name, txt)
        return m.group(1) == "true" if m else default
    except OSError:
        return default


def natf(mean, sigma):
    """exact natural parameters of NormalMessage(mean, sigma) for float inputs"""
    mu, sg = Fr(mean), Fr(sigma)
    prec = 1 / (sg * sg)
    return (mu * prec, -prec / 2)


def add(a, b):
    return (a[0] + b[0], a[1] + b[1])


def sub(a, b):
    return (a[0] - b[0], a[1] - b[1])


def scale(s, a):
    return (s * a[0], s * a[1])


class Sim:
    """state: list of dict var -> natural parameters (Fractions)"""

    def __init__(self, state):
        self.st = [dict(m) for m in state]

    def copy(self):
        return Sim(self.st)

    def cavity(self, i):
        out = {}
        for v in self.st[i]:
            acc = None
            for j, m in enumerate(self.st):
                if j != i and v in m:
                    acc = m[v] if acc is None else add(acc, m[v])
            if acc is not None:
                out[v] = acc
        return out

    def global_(self):
        out = {}
        for m in self.st:
            for v, x in m.items():
                out[v] = add(out[v], x) if v in out else x
        return out

    def counts(self):
        c = {}
        for m in self.st:
            for v in m:
                c[v] = c.get(v, 0) + 1
        return c

    def dynamic(self, d0):
        c = self.counts()
        mn = min(c.values())
        return {v: Fr(d0) * Fr(mn, n) for v, n in c.items()}

    def candidate(self, delta, cav, last, v, nw):
        """(candidate, exponents ok)"""
        if not isinstance(delta, dict) and delta >= 1:
            return (sub(nw, cav[v]) if v in cav else nw), True
        d = delta[v] if isinstance(delta, dict) else delta
        x = scale(d, nw)
        resc = isinstance(delta, dict) and model_flag("code_pervar_delta_rescaled", False)
        ok = d >= 0 if resc else d > 0
        if v in last:
            x = add(x, scale(1 - d, last[v]))
            ok = ok and ((1 - d) >= 0 if resc else (1 - d) > 0)
        if v in cav:
            x = sub(x, scale(d, cav[v]))
        return x, ok

    def project(self, i, delta, cav, last, new):
        res, valid = {}, {}
        for v, nw in new.items():
            c, ok = self.candidate(delta, cav, last, v, nw)
            good = ok and c[1] < 0
            valid[v] = good
            res[v] = c if good else last.get(v, c)
        self.st[i] = res
        return valid


# ---------------------------------------------------------------------------
# generator
# ---------------------------------------------------------------------------
# sigmas whose square has a small odd part: natural parameters stay rationals with small denominators
# (exact arithmetic inside Coq stays cheap); 3, 5, 7 make 1/sigma**2 inexact in binary64 all the same
NICE = [c * 2.0 ** k for k in range(-14, 9) for c in (1.0, 1.5, 1.25, 1.75)]
SIGMAS = [0.25, 0.5, 1.0, 2.0, 4.0, 8.0, 3.0, 1.5, 0.75, 5.0, 6.0, 10.0, 1.25, 0.625, 7.0]
DELTAS = [1.0, 1.0, 1.0, 0.5, 0.5, 0.25, 0.75, 0.125, 2.0]
DELTA_TYPES = [None, None, None, "int", "np"]   # a 0-d array is outside Delta = Union[float, MeanField] (MeanField.__pow__ tests numbers.Real)
EXC_KINDS = ["ValueError", "ZeroDivisionError", "FloatingPointError", "OverflowError", "RuntimeError",
             "NotImplementedError", "RecursionError", "LinAlgError", "UnicodeError"]
NAMES = ["1", "0", "a.b", "x_0", "f 1", "Factor.0_1", "", "analysis.1.zip"]


def rmean(rng):
    # short dyadic means keep the exact rationals of the model small
    return rng.randint(-64, 64) / 8.0 if rng.random() < 0.8 else rng.randint(-800, 800) / 16.0


def rsigma(rng):
    return rng.choice(SIGMAS)


def hx(x):
    return float(x).hex()


def pick_new(rng, sim, i, delta, cav, last, keys, want_valid):
    """a new model distribution over `keys`; validity of every projection is decided with a
    clear margin (never by rounding)"""
    for _ in range(40):
        new = {}
        for v in keys:
            mean = rmean(rng)
            pc = float(-2 * cav[v][1]) if v in cav else 0.0
            if pc <= 0 or rng.random() < 0.25:
                sigma = rsigma(rng)
            elif want_valid.get(v, True):
                cands = sorted((s_ for s_ in NICE if 1 / (s_ * s_) >= 1.3 * pc), reverse=True)[:8]
                sigma = rng.choice(cands) if cands else rsigma(rng)
            else:
                cands = sorted(s_ for s_ in NICE if 1 / (s_ * s_) <= 0.75 * pc)[:8]
                sigma = rng.choice(cands) if cands else rsigma(rng)
            new[v] = (mean, sigma)
        ok = True
        for v, (mean, sigma) in new.items():
            c, _ = sim.candidate(delta, cav, last, v, natf(mean, sigma))
            mag = abs(natf(mean, sigma)[1]) + (abs(cav[v][1]) if v in cav else 0) + (abs(last[v][1]) if v in last else 0)
            if abs(c[1]) * 2 ** 16 < mag:
                ok = False
        if ok:
            return new
    return None


def gen_graph(rng, thorough):
    nv = rng.randint(1, 6)
    nf = rng.randint(1, 6) if rng.random() < 0.9 else rng.randint(7, 9 if thorough else 7)
    factors = []
    for _ in range(nf):
        k = rng.randint(1, min(4, nv))
        factors.append(sorted(rng.sample(range(nv), k)))
    used = sorted({v for f in factors for v in f})
    ren = {v: i for i, v in enumerate(used)}
    return [[ren[v] for v in f] for f in factors]


PLATE_W = 8   # plated cases: variable b, plate element k <-> flattened id b * PLATE_W + k


def gen_raw(rng, thorough, plate=False):
    """plate=True: some variables carry a plate of 2-3 elements (array messages); the case is written over
    flattened ids (every plate element is its own variable), which is what the model runs on"""
    factors = gen_graph(rng, thorough)
    meta = {}
    pl_n, plated, elems = 0, set(), {}
    if plate:
        while len(factors) > 5:
            factors.pop()
        used = sorted({v for f in factors for v in f})
        ren = {v: i for i, v in enumerate(used)}
        factors = [[ren[v] for v in f] for f in factors]
        basev = sorted({v for f in factors for v in f})
        pl_n = rng.choice([2, 3, 2, 3, 1])     # 1: a one-element array message instead of a scalar one
        plated = {v for v in basev if rng.random() < 0.6} or {basev[0]}
        elems = {v: ([v * PLATE_W + k for k in range(pl_n)] if v in plated else [v * PLATE_W]) for v in basev}
        meta = {"plate": {"n": pl_n, "vars": sorted(plated)}, "base_factors": factors}
        factors = [[fv for v in f for fv in elems[v]] for f in factors]
    nf = len(factors)
    allv = sorted({v for f in factors for v in f})
    init = [[[v, hx(rmean(rng)), hx(rsigma(rng))] for v in f] for f in factors]
    if rng.random() < 0.25:
        # EPMeanField.from_approx_dists: every factor starts from (a copy of) one message per variable
        one = {}
        for f in init:
            for v, mu, sg in f:
                one.setdefault(v, [v, mu, sg])
        init = [[list(one[v]) for v, _, _ in f] for f in init]
        meta = dict(meta, fad=True)
        if not plate:
            # a deterministic variable: output of one factor, input of another
            cands = [(a_, v) for a_, f in enumerate(factors) if len(f) >= 2 for v in f
                     if sum(1 for g_ in factors if v in g_) >= 2]
            if cands and rng.random() < 0.6:
                a_, v_ = rng.choice(cands)
                meta["det"] = {"factor": a_, "var": v_}
    sim = Sim([{v: natf(unhex(mu), unhex(sg)) for v, mu, sg in f} for f in init])
    base = sim.copy()
    steps = []
    key_edges = rng.random() < 0.12 and not plate
    stale_mode = rng.random() < 0.15 and not plate
    # in-place write-back on the same EPMeanField object (stochastic EP): never mixed with stale approximations,
    # whose base object would be mutated as well
    inplace_mode = not stale_mode and not key_edges and (plate or rng.random() < 0.35)
    nsteps = rng.randint(1, 8 if not thorough else 12)
    for _ in range(nsteps):
        i = rng.randrange(nf)
        if inplace_mode and sim.st[i] and rng.random() < (0.45 if plate else 0.35):
            keys = list(sim.st[i].keys())
            step = {"f": i, "stale": False, "barrier": False, "delta": {"t": "scalar", "d": hx(1.0)}, "index": None}
            pkeys = [v for v in keys if v // PLATE_W in plated] if plate else []
            if pkeys and rng.random() < 0.7:
                idx = sorted(rng.sample(range(pl_n), rng.randint(1, pl_n)))
                if rng.random() < 0.3:
                    rng.shuffle(idx)
                step["index"] = idx
                step["via"] = rng.choice(["inplace_index", "inplace_setitem", "inplace_update"])
                wkeys = [(v // PLATE_W) * PLATE_W + k for v in sorted({u - u % PLATE_W for u in pkeys}) for k in idx]
                if rng.random() < 0.4 and len({u // PLATE_W for u in pkeys}) > 1:   # only some of the plated variables
                    drop = rng.choice(sorted({u // PLATE_W for u in pkeys}))
                    wkeys = [v for v in wkeys if v // PLATE_W != drop]
            else:
                step["via"] = "inplace"
                wkeys = keys
            newd = {v: (rmean(rng), rsigma(rng)) for v in wkeys}
            step["new"] = [[v, hx(mu), hx(sg)] for v, (mu, sg) in newd.items()]
            if step["index"] is None:
                sim.st[i] = {v: natf(mu, sg) for v, (mu, sg) in newd.items()}
            else:
                for v, (mu, sg) in newd.items():
                    sim.st[i][v] = natf(mu, sg)
            steps.append(step)
            continue
        barrier = stale_mode and rng.random() < 0.35
        stale = stale_mode and rng.random() < 0.7
        if barrier:
            base = sim.copy()
        src = base if stale else sim
        cav, last = src.cavity(i), dict(src.st[i])
        r = rng.random()
        step = {"f": i, "stale": stale, "barrier": barrier}
        if r < 0.45 or not sim.st[i]:
            d = rng.choice(DELTAS)
            step["via"] = rng.choice(["project", "project", "simple", "factor", "factor_default", "fa_project"])
            if d == 1.0 and rng.random() < 0.3:
                step["via"] = "project_default"
            step["delta"] = {"t": "scalar", "d": hx(d)}
            ty = rng.choice(DELTA_TYPES)
            if ty and not plate:
                step["delta"]["ty"] = ty      # int / numpy scalar / 0-d array instead of a Python float
            step["other_delta"] = hx(rng.choice([x for x in DELTAS if x != d]))
            delta = Fr(d)
        elif r < 0.7 and not key_edges and all(sim.st):
            d0 = rng.choice([1.0, 0.5, 0.5, 0.25, 0.75])
            step["via"] = "dynamic"
            step["delta"] = {"t": "dynamic", "d0": hx(d0)}
            delta = sim.dynamic(d0)
        else:
            dsb = {v // PLATE_W if plate else v: rng.choice([0.5, 0.25, 0.75, 0.125, 0.5, 0.25, 1.0, 0.875]) for v in allv}
            ds = {v: dsb[v // PLATE_W if plate else v] for v in allv}
            step["via"] = rng.choice(["project", "project", "fa_project"])
            step["delta"] = {"t": "pervar", "ds": [[v, hx(x)] for v, x in sorted(ds.items())]}
            delta = {v: Fr(x) for v, x in ds.items()}
        keys = list(sim.st[i].keys())
        if key_edges and rng.random() < 0.3 and len(keys) > 1:
            keys.remove(rng.choice(keys))
        elif key_edges and rng.random() < 0.3:
            extra = [v for v in allv if v not in keys]
            if extra:
                keys.append(rng.choice(extra))
        want = {v: rng.random() < 0.85 for v in keys}
        new = pick_new(rng, sim, i, delta, cav, last, keys, want)
        if new is None:
            continue
        step["new"] = [[v, hx(mu), hx(sg)] for v, (mu, sg) in new.items()]
        sim.project(i, delta, cav, last, {v: natf(mu, sg) for v, (mu, sg) in new.items()})
        if not any(sim.st):
            break
        steps.append(step)
    return dict({"kind": "raw", "factors": factors, "init": init, "steps": steps}, **meta)


def gen_plate(rng, thorough):
    return gen_raw(rng, thorough, plate=True)


def gen_par(rng, thorough):
    factors = gen_graph(rng, thorough)
    nf = len(factors)
    init = [[[v, hx(rmean(rng)), hx(rsigma(rng))] for v in f] for f in factors]
    sim = Sim([{v: natf(unhex(mu), unhex(sg)) for v, mu, sg in f} for f in init])
    parallel = rng.random() < 0.6
    order = list(range(nf))
    rng.shuffle(order)
    if rng.random() < 0.3 and nf > 1:
        order = order[: rng.randint(1, nf)]
    max_steps = rng.randint(1, 3)

    def rdj():
        if rng.random() < 0.75:
            out_ = {"t": "scalar", "d": hx(rng.choice(DELTAS))}
            ty = rng.choice(DELTA_TYPES)
            if ty:
                out_["ty"] = ty
            return out_
        return {"t": "dynamic", "d0": hx(rng.choice([1.0, 0.5, 0.25]))}
    dj = rdj()
    # ONE optimiser used twice (run(a), then run(b) on what came back, same history), its updater possibly replaced
    # in between: as one run of a + b sweeps with the updater in force at each sweep
    split, dj2 = None, None
    if rng.random() < 0.45:
        split = rng.randint(0, max_steps)
        if rng.random() < 0.6:
            dj2 = rdj()
    scripts = [[] for _ in range(nf)]
    for sweep_ in range(max_steps):
        base = sim.copy()
        djk = dj2 if (dj2 and split is not None and sweep_ >= split) else dj
        for i in order:
            src = base if parallel else sim
            cav, last = src.cavity(i), dict(src.st[i])
            delta = Fr(unhex(djk["d"])) if djk["t"] == "scalar" else sim.dynamic(unhex(djk["d0"]))
            keys = list(sim.st[i].keys())
            new = pick_new(rng, sim, i, delta, cav, last, keys, {v: rng.random() < 0.9 for v in keys})
            if new is None:
                return None
            scripts[i].append({"t": "fit", "success": True, "token": 100 * i + len(scripts[i]),
                               "new": [[v, hx(mu), hx(sg)] for v, (mu, sg) in new.items()]})
            if rng.random() < 0.1:
                scripts[i][-1]["warn"] = True
            sim.project(i, delta, cav, last, {v: natf(mu, sg) for v, (mu, sg) in new.items()})
    stop = [rng.choice(order), rng.randint(1, max_steps)] if (rng.random() < 0.5 and split is None) else None
    c = {"kind": "par", "factors": factors, "init": init, "parallel": parallel, "order": order,
         "max_steps": max_steps, "delta": dj, "scripts": scripts, "stop": stop}
    if split is not None:
        c["split"] = split
        if dj2:
            c["delta2"] = dj2
    # the second way to say which optimiser fits which factor (factor_optimisers dict, with or without a default)
    c["route"] = rng.choice(["default", "default", "by_factor", "mixed"])
    if c["route"] == "mixed":
        c["own"] = sorted(rng.sample(range(nf), rng.randint(0, nf)))
    reverse_tokens(rng, scripts)
    return c


def reverse_tokens(rng, scripts):
    """half of the cases: a factor's results are numbered downwards, so that its MOST RECENT result is the falsy 0"""
    if rng.random() < 0.5:
        for i, sc in enumerate(scripts):
            fits = [oc for oc in sc if oc["t"] == "fit"]
            for k, oc in enumerate(fits):
                oc["token"] = 100 * i + (len(fits) - 1 - k)


def par_delta(c, k):
    """the updater in force at log entry k of a par case"""
    if c.get("delta2") and c.get("split") is not None and k // len(c["order"]) >= c["split"]:
        return c["delta2"]
    return c["delta"]


def who_expected(c):
    """per graph factor: which optimiser object must be asked (its own, else the default)"""
    if c["kind"] == "par":
        nf = len(c["factors"])
        if c.get("route") == "by_factor":
            return ["own%d" % i for i in range(nf)]
        if c.get("route") == "mixed":
            return ["own%d" % i if i in c["own"] else "default" for i in range(nf)]
        return ["default"] * nf
    out = []
    for mi, m in enumerate(c["mfactors"]):
        n = 1 if m["t"] == "analysis" else len(m["drawn"])
        out += ["own%d" % mi if m.get("own") else "default"] * n
    if c["entry"] == "single":
        out = out[:1]
    return out



def gen_subset(rng, thorough):
    """stochastic EP: subset of a plated graph on a batch, projections on the subset, write-back"""
    base_factors = gen_graph(rng, thorough)[:5]
    used = sorted({v for f in base_factors for v in f})
    ren = {v: i for i, v in enumerate(used)}
    base_factors = [[ren[v] for v in f] for f in base_factors]
    basev = sorted({v for f in base_factors for v in f})
    n = rng.choice([2, 3, 4, 2, 3, 4, 1])
    plated = {v for v in basev if rng.random() < 0.7}
    crash_b = rng.random() < 0.05
    crash_c = rng.random() < 0.05
    for f in base_factors:
        if not any(v in plated for v in f):
            plated.add(f[0])
    if not crash_c:
        for v in basev:
            if v not in plated and sum(1 for f in base_factors if v in f) < 2:
                plated.add(v)
    if crash_b:
        sc = [v for v in basev if v not in plated]
        if sc:
            base_factors.append([rng.choice(sc)])
    elems = {v: ([v * PLATE_W + k for k in range(n)] if v in plated else [v * PLATE_W]) for v in basev}
    factors = [[fv for v in f for fv in elems[v]] for f in base_factors]
    nf = len(factors)
    init = [[[v, hx(rmean(rng)), hx(rsigma(rng))] for v in f] for f in factors]
    meta = {}
    if rng.random() < 0.25:
        one = {}
        for f in init:
            for v, mu, sg in f:
                one.setdefault(v, [v, mu, sg])
        init = [[list(one[v]) for v, _, _ in f] for f in init]
        meta["fad"] = True
    batch = rng.sample(range(n), rng.randint(1, n))
    if rng.random() < 0.6:
        batch.sort()
    sel = sorted(fv for v in basev for fv in ([v * PLATE_W + k for k in batch] if v in plated else [v * PLATE_W]))
    scalars = sorted(v * PLATE_W for v in basev if v not in plated)
    frac = Fr(len(batch), n)
    sim = Sim([{v: natf(unhex(mu), unhex(sg)) for v, mu, sg in f if v in sel} for f in init])
    steps = []
    for _ in range(rng.randint(1, 4)):
        i = rng.randrange(nf)
        d = rng.choice(DELTAS)
        delta = Fr(d)
        cav, last = sim.cavity(i), dict(sim.st[i])
        keys = list(sim.st[i].keys())
        new = None
        for _try in range(12):
            cand = pick_new(rng, sim, i, delta, cav, last, keys, {v: rng.random() < 0.85 for v in keys})
            if cand is None:
                break
            ok = True
            for v, (mu, sg) in cand.items():
                if v in scalars and d >= 1 and frac < 1:
                    # the code tests new/(cavity*own^(1-s)); keep that on the same side as new/cavity, with a margin
                    c_, _ok = sim.candidate(delta, cav, last, v, natf(mu, sg))
                    chk = c_[1] - (1 - frac) * last[v][1]
                    mag = abs(natf(mu, sg)[1]) + abs(last[v][1]) + (abs(cav[v][1]) if v in cav else 0)
                    if (c_[1] < 0) != (chk < 0) or abs(chk) * 2 ** 16 < mag:
                        ok = False
            if ok:
                new = cand
                break
        if new is None:
            continue
        steps.append({"f": i, "via": "sub_project", "delta": {"t": "scalar", "d": hx(d)},
                      "new": [[v, hx(mu), hx(sg)] for v, (mu, sg) in new.items()]})
        sim.project(i, delta, cav, last, {v: natf(mu, sg) for v, (mu, sg) in new.items()})
    wb = rng.choice(["update", "setitem", "merge", "merge", "none"])
    if scalars and rng.random() < 0.75:
        wb = rng.choice(["merge", "merge", "none"])
    return dict({"kind": "subset", "factors": factors, "base_factors": base_factors, "plate": {"n": n, "vars": sorted(plated)},
                 "init": init, "batch": batch, "steps": steps, "writeback": wb,
                 "via_subset": rng.choice(["subset", "getitem"])}, **meta)


def subset_meta(c):
    W = PLATE_W
    plated = set(c["plate"]["vars"])
    basev = sorted({v for f in c["base_factors"] for v in f})
    sel = sorted(fv for v in basev for fv in ([v * W + k for k in c["batch"]] if v in plated else [v * W]))
    scalars = sorted(v * W for v in basev if v not in plated)
    return sel, scalars, Fr(len(c["batch"]), c["plate"]["n"])


def subset_crash_class(c):
    """the three crashes of the subset path on plate-free variables were repaired (1d542b0): none is expected, an
    exception on those shapes is a violation like any other"""
    return None, None


def expand(c):
    """model factors of a declarative case as prior occurrence lists, plus hierarchical groups"""
    fs, groups, singles = [], [], []
    for m in c["mfactors"]:
        if m["t"] == "analysis":
            singles.append(len(fs))
            fs.append(list(m["occ"]))
        else:
            dist = [v for v in m["dist"] if isinstance(v, int)]
            grp = []
            for dv in m["drawn"]:
                grp.append(len(fs))
                singles.append(len(fs))
                fs.append(dist + [dv])
            groups.append(grp)
    return fs, groups, singles


def decl_graph(c):
    """expected graph: (list of variable sets per factor, counts as the code computes them)"""
    fs, groups, singles = expand(c)
    include = c["include"] if c["entry"] == "fgm" else True
    if c["entry"] == "single":
        fs = fs[:1]
    vs = sorted({v for f in fs for v in f})
    gf = [sorted(set(f)) for f in fs] + ([[v] for v in reversed(vs)] if include else [])
    return fs, gf, include


def gen_decl(rng, thorough):
    nv = rng.randint(1, 6)
    priors = [[hx(rmean(rng)), hx(rsigma(rng))] for _ in range(nv)]
    mfactors = []
    nm = rng.randint(1, 4)
    dup_ok = rng.random() < 0.25
    for _ in range(nm):
        if rng.random() < 0.75 or nv < 2:
            k = rng.randint(1, min(5, nv + 1))
            occ = rng.sample(range(nv), min(k, nv))
            if dup_ok and rng.random() < 0.6:
                occ.insert(rng.randrange(len(occ) + 1), rng.choice(occ))
            mfactors.append({"t": "analysis", "occ": occ})
            if rng.random() < 0.3:
                mfactors[-1]["own"] = True     # the factor carries its own optimiser
        else:
            pool = list(range(nv))
            rng.shuffle(pool)
            ndist = rng.choice([1, 2, 2]) if nv >= 3 else 1
            dist_vars = pool[:ndist]
            rest = pool[ndist:]
            if not rest:
                continue
            drawn = rng.sample(rest, rng.randint(1, min(3, len(rest))))
            if ndist == 2:
                dist = dist_vars
            elif rng.random() < 0.5:
                dist = [dist_vars[0], hx(rng.choice([0.5, 1.0, 2.0]))]
            else:
                dist = [hx(rmean(rng)), dist_vars[0]]
            if rng.random() < 0.08 and ndist == 2:
                dist = [dist[0], dist[0]]        # one prior under two paths of the distribution (mean and sigma)
            if rng.random() < 0.08:
                drawn.insert(rng.randrange(len(drawn) + 1), rng.choice(drawn))   # the same variable drawn twice
            mfactors.append({"t": "hier", "dist": dist, "drawn": drawn})
    # an equal-but-distinct factor: the same model object and analysis object wrapped in a second AnalysisFactor
    an_ = [k for k, m in enumerate(mfactors) if m["t"] == "analysis"]
    if an_ and rng.random() < 0.12:
        k_ = rng.choice(an_)
        mfactors.append({"t": "analysis", "occ": list(mfactors[k_]["occ"]), "twin_of": k_})
    # explicit names with dots / digits / spaces (names key FactorGraphModel.prior_model and EPResult.model)
    if rng.random() < 0.3:
        pool_ = rng.sample(NAMES, len(NAMES))
        for m in mfactors:
            if m["t"] == "analysis" and pool_ and rng.random() < 0.7:
                m["name"] = pool_.pop()
    if not mfactors:
        mfactors.append({"t": "analysis", "occ": [0]})
    entry = "single" if (mfactors[0]["t"] == "analysis" and rng.random() < 0.12) else "fgm"
    c = {"kind": "decl", "priors": priors, "mfactors": mfactors,
         "include": rng.random() < 0.8, "entry": entry}
    if entry == "single":
        c["mfactors"] = mfactors[:1]
        c["mfactors"][0].pop("twin_of", None)
    # ids out of declaration order: the id of a prior need not grow with its index, nor creation follow the index
    if rng.random() < 0.5:
        c["ids"] = rng.sample(range(3 * nv + 2), nv)
        c["create"] = rng.sample(range(nv), nv)
    # ONE FactorGraphModel used twice: read on a smaller composition first, then grown to the full one
    if entry == "fgm" and rng.random() < 0.3:
        gr = {"n": rng.randint(1, len(c["mfactors"])), "hier_late": {}}
        for mi, m in enumerate(c["mfactors"]):
            if m["t"] == "hier" and rng.random() < 0.6:
                gr["hier_late"][str(mi)] = rng.randint(0, len(m["drawn"]) - 1)
        if gr["n"] < len(c["mfactors"]) or gr["hier_late"]:
            c["grow"] = gr
    fs, gf, include = decl_graph(c)
    used = sorted({v for f in fs for v in f})
    # the run: scripted optimisers for every factor of the graph
    ng = len(gf)
    mode = "optimise" if rng.random() < 0.5 else "epopt"
    order = list(range(ng))
    dj = {"t": "scalar", "d": hx(1.0)}
    if mode == "epopt":
        rng.shuffle(order)
        if rng.random() < 0.3 and ng > 1:
            order = order[: rng.randint(1, ng)]
        if rng.random() < 0.5:
            dj = {"t": "scalar", "d": hx(rng.choice(DELTAS))}
        elif rng.random() < 0.5:
            dj = {"t": "dynamic", "d0": hx(rng.choice([1.0, 0.5, 0.25]))}
    max_steps = rng.choice([0, 1, 2, 2, 3, 3, 4 if thorough else 3])
    # the default EPHistory (kl_tol = 0.1): the run ends when a factor's last two updated approximations are close
    kl_mode = rng.random() < 0.25
    repeat = False
    plan = []
    if kl_mode:
        max_steps = rng.choice([2, 3, 4])
        if rng.random() < 0.75:
            # one factor visited again and again; the optimiser's answers follow a pattern (letter = distribution,
            # sign = Status.success) chosen so that "last two UPDATED" and "last two SUCCESSFUL" approximations differ
            mode = "epopt"
            order = [rng.randrange(ng)]
            dj = {"t": "scalar", "d": hx(1.0)}
            repeat = True
            plan = list(rng.choice([["A+", "A+"], ["A+", "B-", "B+"], ["A+", "B+", "B+"], ["A-", "A+", "A+"],
                                    ["A+", "B-", "B+", "B+"], ["A+", "B-", "A+"], ["A+", "B+", "C+", "C+"]]))
            max_steps = max(max_steps, len(plan))
    st0 = sim_init(c, occ_variant=model_flag("code_counts_occurrences"))
    sim = Sim(st0)
    scripts = [[] for _ in range(ng)]
    stop = None
    for sweep in range(max_steps):
        for i in order:
            cav, last = sim.cavity(i), dict(sim.st[i])
            delta = Fr(unhex(dj["d"])) if dj["t"] == "scalar" else sim.dynamic(unhex(dj["d0"]))
            keys = list(sim.st[i].keys())
            if rng.random() < 0.12 and not repeat:
                scripts[i].append({"t": "raise", "exc": rng.choice(EXC_KINDS)})
                # new = model_dist: the projection gives back the factor's own message (delta >= 1)
                new = {v: add(last[v], cav[v]) if v in cav else last[v] for v in keys}
                sim.project(i, delta, cav, last, new)
                continue
            newd = None
            prev = [oc for oc in scripts[i] if oc["t"] == "fit"]
            step_plan = plan[len(scripts[i])] if len(scripts[i]) < len(plan) else None
            same_as = None
            if step_plan:
                for j_, pl_ in enumerate(plan[:len(scripts[i])]):
                    if pl_[0] == step_plan[0]:
                        same_as = j_
            if repeat and same_as is not None:
                # the optimiser returns the same distribution again: the approximation stops moving
                cand_ = {v: (unhex(mu), unhex(sg)) for v, mu, sg in scripts[i][same_as]["new"]}
                ok_ = True
                for v, (mu, sg) in cand_.items():
                    c_, _o = sim.candidate(delta, cav, last, v, natf(mu, sg))
                    mag_ = abs(natf(mu, sg)[1]) + (abs(cav[v][1]) if v in cav else 0) + (abs(last[v][1]) if v in last else 0)
                    if abs(c_[1]) * 2 ** 16 < mag_:
                        ok_ = False
                if ok_:
                    newd = cand_
            if newd is None:
                newd = pick_new(rng, sim, i, delta, cav, last, keys, {v: rng.random() < 0.9 for v in keys})
            if newd is None:
                return None
            scripts[i].append({"t": "fit", "success": (step_plan[1] == "+") if step_plan else rng.random() < 0.8,
                               "token": 100 * i + len(scripts[i]),
                               "new": [[v, hx(mu), hx(sg)] for v, (mu, sg) in newd.items()]})
            if rng.random() < 0.1:
                scripts[i][-1]["warn"] = True
            sim.project(i, delta, cav, last, {v: natf(mu, sg) for v, (mu, sg) in newd.items()})
    if max_steps >= 1 and rng.random() < 0.25 and not kl_mode:
        stop = [rng.choice(order), rng.randint(1, max_steps)]
    c["run"] = {"mode": mode, "order": order, "delta": dj, "max_steps": max_steps, "stop": stop, "scripts": scripts}
    if mode == "epopt" and stop is None and not kl_mode and rng.random() < 0.5:
        c["run"]["split"] = rng.randint(0, max_steps)     # the optimiser (and an EPResult on its history) used twice
    reverse_tokens(rng, scripts)
    if kl_mode:
        c["run"]["history"] = "default"
    return c


def sim_init(c, occ_variant):
    fs, gf, include = decl_graph(c)
    pri = {v: natf(unhex(mu), unhex(sg)) for v, (mu, sg) in enumerate(c["priors"])}
    cnt = {}
    for f in fs:
        for v in (f if occ_variant else set(f)):
            cnt[v] = cnt.get(v, 0) + 1
    st = []
    for f in gf:
        m = {}
        for v in f:
            n = cnt[v] + (1 if include else 0)
            m[v] = scale(Fr(1, n - 1), pri[v]) if n > 1 else pri[v]
        st.append(m)
    return st


# pinned cases of REPAIRED defects: each must pass oracle and correspondence (obligation regression:<signature>)
REGRESSIONS = {
    "finding-latest-result.json": "latest-result-returns-first-success",
    "finding-prior-twice.json": "prior-counts-count-occurrences",
    "finding-dynamic-delta-one.json": "per-variable-delta-one-never-updates",
    "finding-subset-crash-no-plate.json": "subset-factor-without-plate",
    "finding-subset-crash-single-owner.json": "subset-scalar-variable-single-owner",
    "finding-subset-crash-writeback.json": "subset-inplace-writeback-scalar-variable",
}


def gen_cases(ctx):
    rng = ctx.rng
    thorough = ctx.tier == "thorough"
    cases = []
    corpus = os.path.join(common.VERIF, "corpus", "C18")
    ctx.c18_pinned = {}
    if os.path.isdir(corpus):
        for f in sorted(os.listdir(corpus)):
            if f.endswith(".json"):
                if f in REGRESSIONS:
                    ctx.c18_pinned[len(cases)] = REGRESSIONS[f]
                cases.append(json.load(open(os.path.join(corpus, f))))
    n_raw, n_plate, n_par, n_decl = (120, 40, 45, 110) if not thorough else (800, 250, 300, 750)
    n_sub = 40 if not thorough else 250
    for gen, n in ((gen_raw, n_raw), (gen_plate, n_plate), (gen_subset, n_sub), (gen_par, n_par), (gen_decl, n_decl)):
        made = 0
        while made < n:
            c = gen(rng, thorough)
            if c is None or (c["kind"] in ("raw", "subset") and not c["steps"]):
                continue
            cases.append(c)
            made += 1
    return cases


# ---------------------------------------------------------------------------
# property oracle: a direct statement of C18 on the implementation's observables
# ---------------------------------------------------------------------------
RTOL = 1e-9


def dmap(rows):
    return {v: (unhex(a), unhex(b)) for v, a, b in rows}


def fnat(mean, sigma):
    p = 1.0 / (sigma * sigma)
    return (mean * p, -0.5 * p)


def near(a, b, mag):
    return abs(a[0] - b[0]) <= RTOL * (1 + mag) and abs(a[1] - b[1]) <= RTOL * (1 + mag)


_HW = {}   # per case, per variable: the largest magnitude of that variable's messages seen so far


class VMag:
    def __getitem__(self, v):
        return _HW.get(v, 0.0)


def reset_hw():
    _HW.clear()


def magnitude(*maps):
    """per-variable tolerance base: natural parameters of different variables never mix, so every
    comparison is relative to the (high-water) magnitude of the messages of THAT variable"""
    cur = {}
    for mp in maps:
        for v, x in mp.items():
            cur[v] = cur.get(v, 0.0) + abs(x[0]) + abs(x[1])
    for v, x in cur.items():
        if x > _HW.get(v, 0.0):
            _HW[v] = x
    return VMag()


def fsum(maps, v):
    acc = None
    for m in maps:
        if v in m:
            acc = m[v] if acc is None else (acc[0] + m[v][0], acc[1] + m[v][1])
    return acc


def finite(*maps):
    import math
    return all(math.isfinite(x[0]) and math.isfinite(x[1]) for m in maps for x in m.values())


def check_identities(state, i, cav, own, model, glob, where):
    """model = own * cavity; cavity = product of the other factors; global = product of all"""
    mag = magnitude(*state)
    if set(own) != set(state[i]):
        return "%s: factor_dist has variables %s, state has %s" % (where, sorted(own), sorted(state[i]))
    for v in own:
        if not near(own[v], state[i][v], mag[v]):
            return "%s: factor_dist of variable %d is not the factor's message" % (where, v)
        exp_c = fsum([m for j, m in enumerate(state) if j != i], v)
        if (exp_c is None) != (v not in cav):
            return "%s: cavity of variable %d %s" % (where, v, "missing" if v not in cav else "present without other factors")
        if exp_c is not None and not near(cav[v], exp_c, mag[v]):
            return "%s: cavity of variable %d is not the product of the other factors' messages" % (where, v)
        exp_m = own[v] if exp_c is None else (own[v][0] + cav[v][0], own[v][1] + cav[v][1])
        if v not in model or not near(model[v], exp_m, mag[v]):
            return "%s: model distribution of variable %d is not message * cavity" % (where, v)
    if set(cav) - set(own) or set(model) != set(own):
        return "%s: cavity/model distribution over foreign variables" % where
    if glob is not None:
        allv = {v for m in state for v in m}
        if set(glob) != allv:
            return "%s: global approximation over %s, expected %s" % (where, sorted(glob), sorted(allv))
        for v in allv:
            if not near(glob[v], fsum(state, v), mag[v]):
                return "%s: global approximation of variable %d is not the product of all factor messages" % (where, v)
            if v in own and not near(glob[v], model[v], mag[v]):
                return "%s: model distribution of variable %d differs from the global approximation" % (where, v)
    return None


def eff_delta(step, state):
    """delta the property expects for each variable: scalar -> same for all; dynamic -> d0*min/count"""
    d = step["delta"]
    if d["t"] == "scalar":
        return lambda v: unhex(d["d"])
    if d["t"] == "pervar":
        ds = {v: unhex(x) for v, x in d["ds"]}
        return lambda v: ds[v]
    cnt = {}
    for m in state:
        for v in m:
            cnt[v] = cnt.get(v, 0) + 1
    mn = min(cnt.values())
    return lambda v: unhex(d["d0"]) * (mn / cnt[v])


def check_update(step, i, cav, own, new, msg, glob_before, glob_after, success, succ_in, fresh, dl, where):
    """what one update must do to the factor's own message / the global approximation: the new
    message is new/cavity (damped by delta) whenever that is a proper distribution (precision > 0),
    otherwise the previous message is kept; success is reported iff every variable was updated.
    Independent of the implementation's own status.  Returns (message, tags of failing variables)"""
    mag = magnitude(cav, own, new, msg, glob_after)
    bad = []
    first = None
    all_ok = True
    n_kept = 0
    kind = step["delta"]["t"]
    for v in new:
        d = dl(v)
        tag = ("delta", kind, d, v)
        c = cav.get(v, (0.0, 0.0))
        if d >= 1:
            exp = (new[v][0] - c[0], new[v][1] - c[1])
        else:
            l = own.get(v, (0.0, 0.0))
            exp = (d * (new[v][0] - c[0]) + (1 - d) * l[0], d * (new[v][1] - c[1]) + (1 - d) * l[1])
        proper = exp[1] < 0
        all_ok = all_ok and proper
        if not proper:
            if v in own and (v not in msg or not near(msg[v], own[v], mag[v])):
                bad.append(tag)
                first = first or "%s: improper projection of variable %d did not keep the previous message" % (where, v)
            continue
        if v not in msg or not near(msg[v], exp, mag[v]):
            # the known per-variable-delta-one defect leaves the old message in place; anything else is untagged
            kept = v in msg and v in own and near(msg[v], own[v], mag[v]) and not success
            bad.append(tag if kept else ("wrong-message",))
            first = first or "%s: new message of variable %d is not new/cavity (delta %s)" % (where, v, d)
            if kept:
                n_kept += 1
                if fresh and v in glob_before and not near(glob_after[v], glob_before[v], mag[v]):
                    bad.append(("wrong-global",))
            continue
        if fresh and v in own:
            if d >= 1 and not near(glob_after[v], new[v], mag[v]):
                bad.append(tag)
                first = first or "%s: after a full update the global approximation of variable %d is not the fitted distribution" % (where, v)
            if d < 1 and v in glob_before:
                gb = glob_before[v]
                expg = (d * new[v][0] + (1 - d) * gb[0], d * new[v][1] + (1 - d) * gb[1])
                if not near(glob_after[v], expg, mag[v]):
                    bad.append(tag)
                    first = first or "%s: damped update of variable %d does not interpolate the global approximation" % (where, v)
    if set(msg) != set(new):
        bad.append(("keys",))
        first = first or "%s: updated factor has variables %s, the fitted distribution %s" % (where, sorted(msg), sorted(new))
    # a variable left untouched by the known per-variable-delta-one defect makes the status a failure; every
    # other expectation stays in force
    if success != (succ_in and all_ok and not n_kept):
        bad.append(("status",))
        first = first or "%s: status.success is %s but %s" % (where, success, "every projection was proper" if all_ok else "a projection was improper")
    return first, bad


def oracle_raw(c, r):
    fails = []
    reset_hw()
    state = [dmap(m) for m in r["state0"]]
    g0 = dmap(r["global0"])
    if not finite(*state):
        return [("non-finite initial state", [])]
    for i, m in enumerate(state):
        for v, mu, sg in c["init"][i]:
            if not near(m[v], fnat(unhex(mu), unhex(sg)), magnitude(m)[v]):
                fails.append(("initial message is not the given Normal", []))
    allv = {v for m in state for v in m}
    for v in allv:
        if v not in g0 or not near(g0[v], fsum(state, v), magnitude(*state)[v]):
            fails.append(("initial global approximation of variable %d is not the product of all factor messages" % v, []))
    base = state
    # which MeanField object every retained EPMeanField object holds per factor (version numbers), from the case:
    # project / whole-factor write give the CURRENT object a fresh MeanField, an indexed write mutates the one it has
    nfac = len(state)
    objs = [[0] * nfac]
    cur, fresh = 0, 1
    for k, (s, o) in enumerate(zip(c["steps"], r["steps"])):
        where = "step %d (factor %d)" % (k, s["f"])
        sharing = []
        if s["via"].startswith("inplace"):
            if s.get("index") is None:
                objs[cur][s["f"]] = fresh
            else:
                sharing = [j for j, ob in enumerate(objs) if j != cur and ob[s["f"]] == objs[cur][s["f"]]]
        else:
            objs.append(list(objs[cur]))
            cur = len(objs) - 1
            objs[cur][s["f"]] = fresh
        fresh += 1
        if o["retained_changed"]:
            known = s["via"].startswith("inplace") and s.get("index") is not None \
                and all(j in sharing for j in o["retained_changed"])
            fails.append((where + ": approximations produced earlier (objects %s) changed their messages afterwards"
                          % o["retained_changed"], [("alias-index-write",)] if known else []))
        if s.get("barrier"):
            base = state
        src = base if s.get("stale") else state
        cav, own, model = dmap(o["cavity"]), dmap(o["own"]), dmap(o["model"])
        after = [dmap(m) for m in o["state"]]
        msg, glob = dmap(o["msg"]), dmap(o["global"])
        if not finite(cav, own, model, msg, glob, *after):
            fails.append((where + ": non-finite natural parameters", []))
            break
        m = check_identities(src, s["f"], cav, own, model, None, where)
        if m:
            fails.append((m, []))
        m = check_identities(after, s["f"], *post_identities(after, s["f"]), glob, where + " after")
        if m:
            fails.append((m, []))
        if not o["others_same"]:
            fails.append((where + ": the update changed another factor's message", []))
        if not o["input_same"]:
            fails.append((where + ": the update mutated the approximation it was applied to", []))
        if msg != after[s["f"]]:
            fails.append((where + ": reported factor message differs from the state", []))
        if dmap(o["global_alias"]) != glob:
            fails.append((where + ": model_dist (alias of mean_field) differs from mean_field", []))
        if "global_vm" in o:
            gv = dmap(o["global_vm"])
            mgv = magnitude(glob, gv)
            if set(gv) != set(glob) or any(not near(gv[v], glob[v], mgv[v]) for v in glob):
                fails.append((where + ": the product of variable_messages per variable is not the global approximation", []))
            # (a plated variable is one Variable: its count is reported once, on its first plate element)
            cnt_ = {}
            for m_ in after:
                for v in m_:
                    if not c.get("plate") or v % PLATE_W == 0:
                        cnt_[v] = cnt_.get(v, 0) + 1
            if sorted([v, n] for v, n in cnt_.items()) != [x_ for x_ in o["vm_count"] if x_[1] != 0]:   # (a variable no factor holds any more is listed with 0)
                fails.append((where + ": variable_message_count %s is not the number of factors holding each variable" % o["vm_count"], []))
        new = {v: fnat(unhex(mu), unhex(sg)) for v, mu, sg in s["new"]}
        if s["via"].startswith("inplace"):
            # write-back on the same object: the factor's messages are exactly what was written (the other
            # plate elements kept), and EVERY later read reflects the current factor messages
            expect = dict(new) if s.get("index") is None else {**state[s["f"]], **new}
            mg = magnitude(expect, msg)
            if set(expect) != set(msg) or any(not near(msg[v], expect[v], mg[v]) for v in expect):
                fails.append((where + ": in-place update did not store the written messages", []))
            for j, pa in enumerate(o["post"]):
                m = check_identities(after, j, dmap(pa["cavity"]), dmap(pa["own"]), dmap(pa["model"]), glob,
                                     where + " read of factor %d after the in-place update" % j)
                if m:
                    fails.append((m, []))
            state = after
            continue
        fresh = src is state or src == state
        gb = {v: fsum(state, v) for v in {v for mm in state for v in mm}}
        m, bad = check_update(s, s["f"], cav, own, new, msg, gb, glob, o["success"], True, fresh, eff_delta(s, state), where)
        if m:
            fails.append((m, bad))
        state = after
    fin = [dmap(m) for m in r["final"]]
    if fin != state:
        fails.append(("final state differs from the state after the last step", []))
    return fails


def post_identities(state, i):
    """cavity/own/model recomputed from an observed state (used to check the global identity)"""
    own = state[i]
    cav = {}
    for v in own:
        x = fsum([m for j, m in enumerate(state) if j != i], v)
        if x is not None:
            cav[v] = x
    model = {v: (own[v] if v not in cav else (own[v][0] + cav[v][0], own[v][1] + cav[v][1])) for v in own}
    return cav, own, model


def oracle_run(c, r, run, nf, state0, parallel, where0):
    """EPOptimiser.run: schedule, locality, exactness, history accessors"""
    fails = []
    order, max_steps, stop = run["order"], run["max_steps"], run.get("stop")
    log = r["log"]
    kl_mode = run.get("history") == "default"
    unsure = False

    def kl_converged(k):
        """default EPHistory: KL(latest updated approximation of the factor || the one before) < 0.1"""
        nonlocal unsure
        import math
        i = log[k]["f"]
        ups = [e_ for e_ in log[:k + 1] if e_["f"] == i and e_["updated"]]
        if len(ups) < 2:
            return False
        a_, b_ = bmap(ups[-1]["global_ms"]), bmap(ups[-2]["global_ms"])
        kl = 0.0
        for v in a_:
            m1, s1 = unhex(a_[v][0]), unhex(a_[v][1])
            m2, s2 = unhex(b_[v][0]), unhex(b_[v][1])
            kl += math.log(s2 / s1) + (s1 * s1 + (m1 - m2) ** 2) / 2 / (s2 * s2) - 0.5
        if abs(kl - 0.1) < 1e-6:
            unsure = True
        return kl < 0.1

    # schedule: sweeps over `order`, stopping right after the stop entry
    exp = []
    seen_count = {}
    stopped = False
    for _ in range(max_steps):
        for i in order:
            if len(exp) >= len(log):
                break
            exp.append(i)
            seen_count[i] = seen_count.get(i, 0) + 1
            e = log[len(exp) - 1]
            if stop and e["f"] == stop[0] and e["success"] and seen_count[i] == stop[1]:
                stopped = True
                break
            if kl_mode and e["f"] == i and e["success"] and kl_converged(len(exp) - 1):
                stopped = True
                break
        if stopped:
            break
    if unsure:
        return fails
    full = len(order) * max_steps
    if [e["f"] for e in log] != exp or (not stopped and len(log) != full):
        fails.append(("%s: factors were visited in order %s, expected sweeps over %s" % (where0, [e["f"] for e in log][:20], order), []))
        return fails
    state = state0
    prev_bits = r.get("bits0")
    base = state
    counts = {}
    for k, e in enumerate(log):
        i = e["f"]
        where = "%s visit %d (factor %d)" % (where0, k, i)
        if parallel and k % len(order) == 0:
            base = state
        src = base if parallel else state
        seen = r["seen"][k]
        cav, own, model = dmap(seen["cavity"]), dmap(seen["own"]), dmap(seen["model"])
        after = [dmap(m) for m in e["state"]]
        if seen["f"] != i or not finite(cav, own, model, *after):
            fails.append((where + ": non-finite natural parameters or wrong factor", []))
            return fails
        m = check_identities(src, i, cav, own, model, None, where)
        if m:
            fails.append((m, []))
        glob = dmap(e["global"])
        m = check_identities(after, i, *post_identities(after, i), glob, where + " after")
        if m:
            fails.append((m, []))
        if prev_bits is not None and any(e["bits"][j] != prev_bits[j] for j in range(nf) if j != i):
            fails.append((where + ": the update changed another factor's message", []))
        prev_bits = e["bits"]
        kth = counts.get(i, 0)
        counts[i] = kth + 1
        oc = run["scripts"][i][kth]
        if oc["t"] == "fit":
            new = {v: fnat(unhex(mu), unhex(sg)) for v, mu, sg in oc["new"]}
            tok, succ_in = oc["token"], oc["success"]
        else:
            new, tok, succ_in = model, None, False
        if e["token"] != tok:
            fails.append((where + ": recorded result %r is not the optimiser's %r" % (e["token"], tok), []))
        if e["success"] and not succ_in:
            fails.append((where + ": a failed optimisation was recorded as a success", []))
        step = {"delta": run["delta_at"](k) if run.get("delta_at") else run["delta"]}
        if seen.get("who") is not None and run.get("who") and seen["who"] != run["who"][i]:
            fails.append((where + ": the factor was fitted by optimiser %r, its optimiser is %r" % (seen["who"], run["who"][i]), []))
        fresh = (not parallel) or src == state
        gb = {v: fsum(state, v) for v in {v for mm in state for v in mm}}
        m, bad = check_update(step, i, cav, own, new, dmap(e["msg"]), gb, glob, e["success"], succ_in, fresh,
                              eff_delta(step, state), where)
        if m:
            fails.append((m, bad))
        state = after
    fin = [dmap(m) for m in r["final"]]
    if fin != state:
        fails.append((where0 + ": returned approximation is not the last recorded one", []))
    if run.get("split") is not None and r.get("n_mid") != run["split"] * len(order):
        fails.append(("%s: the first of two calls of run() recorded %r visits, expected %d sweeps over %d factors"
                      % (where0, r.get("n_mid"), run["split"], len(order)), []))
    # read - append - read on one FactorHistory: after EVERY entry the accessors report the most recent state so far
    for k, (e, got) in enumerate(zip(log, r.get("mid") or [])):
        mine = [x for x in log[:k + 1] if x["f"] == e["f"]]
        succ = [j for j, x in enumerate(mine) if x["success"]]
        upd = [j for j, x in enumerate(mine) if x["updated"]]
        exp_m = {"latest_successful": succ[-1] if succ else None, "previous_successful": succ[-2] if len(succ) > 1 else None,
                 "latest_update": upd[-1] if upd else None, "previous_update": upd[-2] if len(upd) > 1 else None,
                 "latest_result": [mine[succ[-1]]["token"]] if succ else None}
        if got != exp_m:
            bad_ = sorted(n_ for n_ in exp_m if got.get(n_) != exp_m[n_])
            fails.append(("%s: read after visit %d (factor %d): %s report %r, the most recent so far are %r"
                          % (where0, k, e["f"], bad_, [got.get(n_) for n_ in bad_], [exp_m[n_] for n_ in bad_]), []))
            break
    # history accessors: most recent entry per factor
    for i, a in enumerate(r["access"]):
        sts = a["statuses"]
        mine = [e for e in log if e["f"] == i]
        if [[e["success"], e["updated"], e["token"]] for e in mine] != sts:
            fails.append(("%s: history of factor %d does not list its visits in order" % (where0, i), []))
        succ = [k for k, s in enumerate(sts) if s[0]]
        upd = [k for k, s in enumerate(sts) if s[1]]
        exp_a = {"latest_successful": succ[-1] if succ else None, "previous_successful": succ[-2] if len(succ) > 1 else None,
                 "latest_update": upd[-1] if upd else None, "previous_update": upd[-2] if len(upd) > 1 else None}
        for name, val in exp_a.items():
            if a[name] != val:
                fails.append(("%s: %s of factor %d is entry %r, the most recent is %r" % (where0, name, i, a[name], val), []))
        exp_res = [sts[succ[-1]][2]] if succ else None
        if a["latest_result"] != exp_res:
            first_res = [sts[succ[0]][2]] if succ else None
            fails.append(("%s: latest_result of factor %d is %r, the most recent successful result is %r"
                          % (where0, i, a["latest_result"], exp_res),
                          [("latest_result", i)] if a["latest_result"] == first_res else [("wrong-result",)]))
    return fails



def bmap(rows):
    return {v: (a, b) for v, a, b in rows}


def oracle_subset(c, r):
    fails = []
    reset_hw()
    sel, scalars, frac = subset_meta(c)
    fr = float(frac)
    nf = len(c["factors"])
    if r["sub_type"] != "EPMeanFieldSubset":
        fails.append(("subset() returned a %s" % r["sub_type"], []))
    for i in range(nf):
        exp = {v: x for v, x in bmap(r["bits0"][i]).items() if v in sel}
        if bmap(r["sub_bits0"][i]) != exp:
            fails.append(("subset of factor %d is not the selected plate elements of its messages" % i, []))
        has_plate = any(u not in scalars for u in c["factors"][i])
        for v, x in r["rescale"][i]:
            e = fr if (v in scalars and has_plate) else 1.0
            if abs(x - e) > 1e-12:
                fails.append(("rescale of variable %d in factor %d is %r, expected %r" % (v, i, x, e), []))
    state = [dmap(m) for m in r["sub0"]]
    g0 = dmap(r["subglobal0"])
    mag = magnitude(*state)
    for v in {v for m in state for v in m}:
        if v not in g0 or not near(g0[v], fsum(state, v), mag[v]):
            fails.append(("subset global approximation of variable %d is not the product of the subset messages" % v, []))
    for k, (s, o) in enumerate(zip(c["steps"], r["steps"])):
        i = s["f"]
        where = "subset step %d (factor %d)" % (k, i)
        cav_o, own_o, model_o = dmap(o["cavity"]), dmap(o["own"]), dmap(o["model"])
        after = [dmap(m) for m in o["state"]]
        msg, glob = dmap(o["msg"]), dmap(o["global"])
        if not finite(cav_o, own_o, model_o, msg, glob, *after):
            fails.append((where + ": non-finite natural parameters", []))
            break
        cav_t, own_t, model_t = post_identities(state, i)
        mag = magnitude(*state)
        # the reported split: factor_dist = own^s, cavity = cavity * own^(1-s); their product is the model distribution
        has_plate = any(u not in scalars for u in own_t)
        for v in own_t:
            sc_ = fr if (v in scalars and has_plate) else 1.0
            exp_own = (sc_ * own_t[v][0], sc_ * own_t[v][1])
            if v not in own_o or not near(own_o[v], exp_own, mag[v]):
                fails.append((where + ": factor_dist of variable %d is not own^%.3g" % (v, sc_), []))
            c0_ = cav_t.get(v)
            if c0_ is None:
                # no other owner: only the held-back part own^(1-s) (nothing at all when the variable is not rescaled)
                exp_cav = ((1 - sc_) * own_t[v][0], (1 - sc_) * own_t[v][1]) if sc_ < 1 else None
            else:
                exp_cav = (c0_[0] + (1 - sc_) * own_t[v][0], c0_[1] + (1 - sc_) * own_t[v][1])
            if (exp_cav is None) != (v not in cav_o) or (exp_cav is not None and not near(cav_o[v], exp_cav, mag[v])):
                fails.append((where + ": cavity of variable %d is not cavity * own^(1-s)" % v, []))
            if v not in model_o or not near(model_o[v], model_t[v], mag[v]):
                fails.append((where + ": model distribution of variable %d is not message * cavity" % v, []))
            if v in own_o and v in cav_o and v in model_o and not near(
                    model_o[v], (own_o[v][0] + cav_o[v][0], own_o[v][1] + cav_o[v][1]), mag[v]):
                fails.append((where + ": model distribution of variable %d is not factor_dist * cavity_dist" % v, []))
        if set(own_o) != set(own_t) or set(model_o) != set(own_t):
            fails.append((where + ": approximation over the wrong variables", []))
        if not o["others_same"]:
            fails.append((where + ": the update changed another factor's message", []))
        if not o["input_same"]:
            fails.append((where + ": the update mutated the subset approximation it was applied to", []))
        if o["sub_type"] != "EPMeanFieldSubset":
            fails.append((where + ": project_mean_field returned a %s" % o["sub_type"], []))
        m = check_identities(after, i, *post_identities(after, i), glob, where + " after")
        if m:
            fails.append((m, []))
        if msg != after[i]:
            fails.append((where + ": reported factor message differs from the state", []))
        new = {v: fnat(unhex(mu), unhex(sg)) for v, mu, sg in s["new"]}
        gb = {v: fsum(state, v) for v in {v for mm in state for v in mm}}
        m, bad = check_update(s, i, cav_t, own_t, new, msg, gb, glob, o["success"], True, True, eff_delta(s, state), where)
        if m:
            fails.append((m, [("subset-update",)]))
        state = after
    # write-back
    wb = c["writeback"]
    subf = [bmap(m) for m in r["sub_bits_final"]]
    for i in range(nf):
        b0 = bmap(r["bits0"][i])
        exp = dict(b0) if wb == "none" else {**b0, **subf[i]}
        if bmap(r["final_bits"][i]) != exp:
            fails.append(("after %s the messages of factor %d are not the old ones with the batch elements replaced" % (wb, i), []))
    if wb in ("update", "setitem") and not r.get("same_object"):
        fails.append(("update did not return the approximation itself", []))
    if wb == "merge" and (r.get("same_object") or not r.get("input_same")):
        fails.append(("merge changed the approximation it was applied to", []))
    final = [dmap(m) for m in r["final"]]
    glob = dmap(r["final_global"])
    if dmap(r["final_alias"]) != glob:
        fails.append(("model_dist (alias of mean_field) differs from mean_field after the write-back", []))
    if finite(glob, *final):
        for j, pa in enumerate(r["final_post"]):
            m = check_identities(final, j, dmap(pa["cavity"]), dmap(pa["own"]), dmap(pa["model"]), glob,
                                 "read of factor %d after the write-back" % j)
            if m:
                fails.append((m, []))
    else:
        fails.append(("non-finite natural parameters after the write-back", []))
    return fails


def coq_subset(c, r):
    sel, scalars, frac = subset_meta(c)
    steps = []
    for s, o in zip(c["steps"], r["steps"]):
        steps.append(c_rstep(s["f"], s["delta"], False, False, s["new"], o, 0))
    return "CSub %s %s %s %s %s %s %s %s %s %s" % (
        clist([c_in_mf(m) for m in c["init"]]), clist([cnat(v) for v in sel]), cq(frac), clist([cnat(v) for v in scalars]),
        clist([c_obs_mf(m) for m in r["sub0"]]), c_obs_mf(r["subglobal0"]), clist(steps),
        cbool(c["writeback"] != "none"), clist([c_obs_mf(m) for m in r["final"]]), c_obs_mf(r["final_global"]))


def oracle_par(c, r):
    reset_hw()
    state0 = [dmap(m) for m in r["state0"]]
    nf = len(state0)
    run = {"order": c["order"], "max_steps": c["max_steps"], "stop": c.get("stop"), "delta": c["delta"], "scripts": c["scripts"],
           "delta_at": lambda k: par_delta(c, k), "who": who_expected(c), "split": c.get("split")}
    return oracle_run(c, r, run, nf, state0, c["parallel"], "run")


def run_order(c, r):
    """visiting order of a declarative run: explicit factor_order, or the observed graph order"""
    run = c["run"]
    return list(r["graph_order"]) if run["mode"] == "optimise" else list(run["order"])


def margins_ok(c, order):
    """re-simulate a declarative run in the given order: is every projection decided with a margin?"""
    run = c["run"]
    sim = Sim(sim_init(c, occ_variant=model_flag("code_counts_occurrences")))
    counts = {}
    for _ in range(run["max_steps"]):
        for i in order:
            k = counts.get(i, 0)
            counts[i] = k + 1
            if k >= len(run["scripts"][i]):
                return False
            oc = run["scripts"][i][k]
            cav, last = sim.cavity(i), dict(sim.st[i])
            dj = run["delta"]
            delta = Fr(unhex(dj["d"])) if dj["t"] == "scalar" else sim.dynamic(unhex(dj["d0"]))
            if oc["t"] == "raise":
                new = {v: add(last[v], cav[v]) if v in cav else last[v] for v in last}
            else:
                new = {v: natf(unhex(mu), unhex(sg)) for v, mu, sg in oc["new"]}
            for v, nw in new.items():
                cnd, _ = sim.candidate(delta, cav, last, v, nw)
                mag = abs(nw[1]) + (abs(cav[v][1]) if v in cav else 0) + (abs(last[v][1]) if v in last else 0)
                if oc["t"] != "raise" and abs(cnd[1]) * 2 ** 16 < mag:
                    return False
            sim.project(i, delta, cav, last, new)
    return True


def oracle_decl(c, r):
    fails = []
    reset_hw()
    fs, gf, include = decl_graph(c)
    state0 = [dmap(m) for m in r["state0"]]
    pri = dmap(r["prior_nat"])
    for v, (mu, sg) in enumerate(c["priors"]):
        if not near(pri[v], fnat(unhex(mu), unhex(sg)), magnitude(pri)[v]):
            fails.append(("prior message of variable %d is not the user's prior" % v, []))
    if [sorted(m) for m in state0] != gf:
        fails.append(("graph factors have variables %s, expected %s" % ([sorted(m) for m in state0], gf), []))
        return fails
    if r["model_priors"] != fs:
        fails.append(("model factors list priors %s, expected %s" % (r["model_priors"], fs), []))
    mag = magnitude(pri, *state0)
    g0 = dmap(r["global0"])
    for i, m in enumerate(state0):
        cav, model = dmap(r["cavity0"][i]), dmap(r["model0"][i])
        if not finite(m, cav, model):
            fails.append(("non-finite initial natural parameters", []))
            return fails
        msg_ = check_identities(state0, i, cav, m, model, g0, "initial factor %d" % i)
        if msg_:
            fails.append((msg_, []))
        for v in m:
            owners = sum(1 for f in gf if v in f)
            occs = sum(f.count(v) for f in fs) + (1 if include else 0)
            if v not in cav:
                # known: no prior factors and a single owner -> nothing to multiply
                fails.append(("initial cavity of factor %d has no distribution for variable %d (prior ignored)" % (i, v),
                              [("init-missing", v)] if owners == 1 else [("wrong-cavity",)]))
            elif not near(cav[v], pri[v], mag[v]):
                # known: exponent 1/(occurrences-1) on each of the other (owners-1) messages
                k = (owners - 1) / (occs - 1) if occs > 1 else float(owners - 1)
                defect = (k * pri[v][0], k * pri[v][1])
                fails.append(("initial cavity of factor %d for variable %d is not the user's prior" % (i, v),
                              [("init-power", v)] if near(cav[v], defect, mag[v]) else [("wrong-cavity",)]))
    run = c.get("run")
    if run:
        run = dict(run, order=run_order(c, r), who=who_expected(c) + ["default"] * len(gf))
        if sorted(run["order"]) != list(range(len(gf))) and c["run"]["mode"] == "optimise":
            fails.append(("default visiting order %s is not a permutation of the graph's factors" % run["order"], []))
            return fails
        fails += oracle_run(c, r, run, len(gf), state0, False, "run")
        # EPResult accessors built on the histories
        nm = r["n_model_factors"]
        acc = r["access"]
        latest = [a["statuses"][[k for k, s in enumerate(a["statuses"]) if s[0]][-1]][2]
                  if any(s[0] for s in a["statuses"]) else None for a in acc]
        earliest = [a["statuses"][[k for k, s in enumerate(a["statuses"]) if s[0]][0]][2]
                    if any(s[0] for s in a["statuses"]) else None for a in acc]
        has = [any(s[0] for s in a["statuses"]) for a in acc]
        fs_all, groups, singles = expand(c)
        if c["entry"] == "single":
            groups, singles = [], [0]
        exp_groups = [list(range(nm))] + groups + [[i] for i in singles]
        for gi, (grp, got) in enumerate(zip(exp_groups, r["groups"])):
            exp = [latest[i] for i in grp] if all(has[i] for i in grp) else None
            if got != exp:
                first_exp = [earliest[i] for i in grp] if all(has[i] for i in grp) else None
                fails.append(("EPResult accessor %d over factors %s reports %r, the most recent results are %r"
                              % (gi, grp, got, exp),
                              [("latest_result", i) for i in grp] if got == first_exp else [("wrong-result",)]))
        if len(r["groups"]) != len(exp_groups):
            fails.append(("EPResult accessor count", []))
        if "groups_early_object" in r and r["groups_early_object"] != r["groups"]:
            fails.append(("an EPResult made before the fit and read after every recorded entry reports %r at the end, a fresh EPResult on the same "
                          "history reports %r" % (r["groups_early_object"], r["groups"]), []))
        if r.get("posterior_missing"):
            fails.append(("EPResult.model has no entry for the priors %s of the graph" % r["posterior_missing"],
                          [("posterior-missing", v) for v in r["posterior_missing"]]))
        if "posterior" in r:
            fm = {v: (a, b) for v, a, b in r["final_mean_sigma"]}
            for v, a, b in r["posterior"]:
                if fm.get(v) != (a, b):
                    fails.append(("EPResult.model reports %s for variable %d, the final approximation has %s" % ((a, b), v, fm.get(v)), []))
        else:
            fails.append(("EPResult.model raised %s" % r.get("posterior_exc"), []))
    return fails


# ---------------------------------------------------------------------------
# class labels (computed from the case)
# ---------------------------------------------------------------------------
def classify(c, tagged):
    """tagged: the (tag, key) pairs attached to the oracle failures of this case.  Returns the class
    labels under which ALL of them fall (a failure outside every class keeps the list empty)."""
    labels = set()
    if c["kind"] == "decl":
        fs, gf, include = decl_graph(c)
        dup = {v for f in fs for v in f if f.count(v) > 1}
        owners = {}
        for f in fs:
            for v in set(f):
                owners[v] = owners.get(v, 0) + 1
        single = {v for v, n in owners.items() if n == 1} if not include else set()
    for t in tagged:
        if t[0] == "init-missing":
            if t[1] in single:
                labels.add("no-prior-factors-single-owner")
            else:
                return []
        elif t[0] == "posterior-missing":
            # drawn only by a child of a hierarchical factor that is not its last child (children share one name)
            early = {v for m in c["mfactors"] if m["t"] == "hier" and len(m["drawn"]) > 1 for v in m["drawn"][:-1]}
            if t[1] in early:
                labels.add("epresult-model-hierarchical-children-share-name")
            else:
                return []
        elif t[0] == "alias-index-write":
            labels.add("indexed-inplace-write-after-project")
        else:
            # everything else -- including the repaired defects (prior counted twice, latest_result, per-variable
            # delta of exactly 1) -- is a violation
            return []
    return sorted(labels)


# ---------------------------------------------------------------------------
# Coq printers
# ---------------------------------------------------------------------------
def cq(x):
    f = Fr(x)
    return "(Qmake (%d) %d)" % (f.numerator, f.denominator)


def cqh(s):
    return cq(unhex(s))


def c_in_mf(rows):
    return clist(["(%s, (%s, %s))" % (cnat(v), cqh(a), cqh(b)) for v, a, b in rows])


def c_obs_mf(rows):
    return clist(["(%s, (%s, %s))" % (cnat(v), cqh(a), cqh(b)) for v, a, b in rows])


def c_rdelta(d):
    if d["t"] == "scalar":
        return "(RScalar %s)" % cqh(d["d"])
    if d["t"] == "pervar":
        return "(RPerVar %s)" % clist(["(%s, %s)" % (cnat(v), cqh(x)) for v, x in d["ds"]])
    return "(RDynamic %s)" % cqh(d["d0"])


def c_rstep(f, d, stale, barrier, new, o, mode=0):
    return ("{| r_factor := %s; r_delta := %s; r_barrier := %s; r_stale := %s; r_mode := %s; r_new := %s; r_obs_cavity := %s; "
            "r_obs_model := %s; r_obs_msg := %s; r_obs_global := %s; r_obs_success := %s; r_obs_updated := %s |}" % (
                cnat(f), c_rdelta(d), cbool(barrier), cbool(stale), cnat(mode), c_in_mf(new), c_obs_mf(o["cavity"]), c_obs_mf(o["model"]),
                c_obs_mf(o["msg"]), c_obs_mf(o["global"]), cbool(o["success"]), cbool(o["updated"])))


def coq_raw(c, r):
    steps = [c_rstep(s["f"], s["delta"], bool(s.get("stale")), bool(s.get("barrier")), s["new"], o,
                     0 if not s["via"].startswith("inplace") else (1 if s.get("index") is None else 2))
             for s, o in zip(c["steps"], r["steps"])]
    return "CRaw %s %s %s %s %s" % (
        clist([c_in_mf(m) for m in c["init"]]), clist([c_obs_mf(m) for m in r["state0"]]), c_obs_mf(r["global0"]),
        clist(steps), clist([c_obs_mf(m) for m in r["final"]]))


def coq_par(c, r):
    steps = []
    counts = {}
    n = len(c["order"])
    for k, e in enumerate(r["log"]):
        i = e["f"]
        kth = counts.get(i, 0)
        counts[i] = kth + 1
        oc = c["scripts"][i][kth]
        seen = r["seen"][k]
        o = {"cavity": seen["cavity"], "model": seen["model"], "msg": e["msg"], "global": e["global"],
             "success": e["success"], "updated": e["updated"]}
        steps.append(c_rstep(i, par_delta(c, k), c["parallel"], c["parallel"] and k % n == 0, oc["new"], o))
    return "CRaw %s %s %s %s %s" % (
        clist([c_in_mf(m) for m in c["init"]]), clist([c_obs_mf(m) for m in r["state0"]]), c_obs_mf(r["global0"]),
        clist(steps), clist([c_obs_mf(m) for m in r["final"]]))


def c_outcome(oc):
    if oc["t"] == "raise":
        return "ORaise"
    return "(OFit %s %s %s)" % (cbool(oc["success"]), cZ(oc["token"]), c_in_mf(oc["new"]))


def c_optZ(x):
    return copt(x, cZ)


def coq_decl(c, r):
    fs, gf, include = decl_graph(c)
    run = c["run"]
    priors = clist(["(%s, (%s, %s))" % (cnat(v), cqh(mu), cqh(sg)) for v, (mu, sg) in enumerate(c["priors"])])
    olog = clist(["{| o_factor := %s; o_success := %s; o_updated := %s; o_token := %s; o_msg := %s; o_global := %s |}" % (
        cnat(e["f"]), cbool(e["success"]), cbool(e["updated"]), c_optZ(e["token"]), c_obs_mf(e["msg"]), c_obs_mf(e["global"]))
        for e in r["log"]])
    oacc = clist(["{| a_latest_successful := %s; a_previous_successful := %s; a_latest_update := %s; a_previous_update := %s; "
                  "a_latest_result := %s |}" % (
                      copt(a["latest_successful"], cnat), copt(a["previous_successful"], cnat), copt(a["latest_update"], cnat),
                      copt(a["previous_update"], cnat),
                      "None" if a["latest_result"] is None else "(Some %s)" % c_optZ(a["latest_result"][0]))
                  for a in r["access"]])
    fs_all, groups, singles = expand(c)
    if c["entry"] == "single":
        groups, singles = [], [0]
    nm = r["n_model_factors"]
    grp = [list(range(nm))] + groups + [[i] for i in singles]
    ogroups = clist(["None" if g_ is None else "(Some %s)" % clist([c_optZ(t) for t in g_]) for g_ in r["groups"]])
    stop_ = run.get("stop")
    if run.get("history") == "default" and r["log"] and len(r["log"]) < run["max_steps"] * len(run_order(c, r)):
        # the model replays the KL termination as "stop at this entry"; WHETHER it is the right entry is the oracle's job
        lf = r["log"][-1]["f"]
        stop_ = [lf, sum(1 for e in r["log"] if e["f"] == lf)]
    stop = "None" if not stop_ else "(Some (%s, %s))" % (cnat(stop_[0]), cnat(stop_[1]))
    pf = [f[0] for f in gf[len(fs):]]
    return "CDecl %s %s %s %s %s %s %s %s %s %s %s %s %s %s %s %s" % (
        priors, clist([clist([cnat(v) for v in f]) for f in fs]), cbool(include), clist([cnat(v) for v in pf]),
        clist([c_obs_mf(m) for m in r["state0"]]), clist([c_obs_mf(m) for m in r["cavity0"]]),
        c_rdelta(run["delta"]), clist([cnat(i) for i in run_order(c, r)]), cnat(run["max_steps"]), stop,
        clist([clist([c_outcome(oc) for oc in sc]) for sc in run["scripts"]]),
        olog, clist([c_obs_mf(m) for m in r["final"]]), oacc,
        clist([clist([cnat(i) for i in g_]) for g_ in grp]), ogroups)


def all_finite(r):
    return "nan" not in json.dumps(r) and "inf" not in json.dumps(r)


def coq_case(c, r):
    if not all_finite(r):
        return None
    if c["kind"] == "raw":
        return coq_raw(c, r)
    if c["kind"] == "par":
        return coq_par(c, r)
    if c["kind"] == "subset":
        return coq_subset(c, r)
    return coq_decl(c, r)


# ---------------------------------------------------------------------------
def nontrivial(c):
    if c["kind"] in ("raw", "par", "subset"):
        fs = c["factors"]
        shared = any(sum(1 for f in fs if v in f) >= 2 for v in {v for f in fs for v in f})
        if c["kind"] == "subset":
            return shared and len(c["steps"]) >= 1 and len(c["batch"]) < c["plate"]["n"]
        n = len(c["steps"]) if c["kind"] == "raw" else c["max_steps"] * len(c["order"])
        return shared and n >= 2
    fs, gf, include = decl_graph(c)
    shared = any(sum(1 for f in fs if v in f) >= 2 for v in {v for f in fs for v in f})
    return (shared or any(m["t"] == "hier" for m in c["mfactors"])) and c["run"]["max_steps"] >= 1


def kind_of(c):
    if c["kind"] == "raw":
        if c.get("plate"):
            return "raw-plated-inplace"
        if any(s["via"].startswith("inplace") for s in c["steps"]):
            return "raw-inplace"
        return "raw-stale" if any(s.get("stale") for s in c["steps"]) else "raw"
    if c["kind"] == "subset":
        return "subset-" + c["writeback"]
    if c["kind"] == "par":
        return "run-parallel" if c["parallel"] else "run-sequential"
    return "decl-" + c["run"]["mode"]


def chunks(l, n):
    k = max(1, (len(l) + n - 1) // n)
    return [l[i:i + k] for i in range(0, len(l), k)]


def run(ctx):
    ctx.rule = ("cases are (raw) a random bipartite factor graph (1-9 factors, 1-6 variables) with an arbitrary Normal mean-field "
                "state and a scripted sequence of 1-12 factor updates (scalar / per-variable / DynamicUpdater damping, valid and "
                "invalid projections, stale approximations, and IN-PLACE write-backs on one EPMeanField object -- update_factor_mean_field, "
                "approx[index] = subset, update -- interleaved with reads of mean_field / model_dist / factor_approximation on that same "
                "object, also over plated array messages, run on flattened plate elements; older approximations are kept and re-read after every step); (subset) the stochastic path with the real objects: "
                "EPMeanField.subset on a batch, EPMeanFieldSubset.factor_approximation (rescaled split) and project_mean_field, write-back by "
                "update / setitem / merge; (par) the same driven by EPOptimiser.run / ParallelEPOptimiser.run with "
                "scripted factor optimisers; (decl) a FactorGraphModel of analysis / hierarchical / prior factors with shared priors, "
                "its initial state, then EPOptimiser.run or .optimise with scripted optimisers (failures, exceptions, early stop) and "
                "the history / EPResult accessors. A case is non-trivial when at least two factors share a variable (or a "
                "hierarchical factor is present) and at least two updates (decl: one sweep) happen; distinct = distinct abstract input. "
                "SWEEP shapes present in every quick run (distributions sweep_*): objects used twice -- one FactorHistory read after "
                "every appended entry, one EPResult made before the fit and read after every entry, one EPOptimiser called twice "
                "(run(a), run(b), updater replaced in between), one FactorGraphModel read on a smaller composition and then grown "
                "(add / add_drawn_variable), one updater object per parameter set shared by all graphs of a driver process, every "
                "container an EPMeanField hands out cleared by the caller; unusual values -- damping given as int / numpy scalar, "
                "one-element plates, results numbered downwards (most recent result 0), split 0 / all, names with dots, digits, "
                "spaces; second routes -- factor_optimisers dict (with / without default) and a factor's own optimiser vs the "
                "default one, variable_messages product vs mean_field; ids out of declaration and creation order, twin factors "
                "(same model and analysis objects), a prior under both paths of a hierarchical distribution, a variable drawn "
                "twice; nine exception classes and warnings raised inside the user's optimiser")
    ctx.trusted = [
        "Coq 8.16.1 kernel incl. vm_compute",
        "correspondence harness c18.py / impl/c18_impl.py; Python float.hex and fractions.Fraction (binary64 -> exact rational)",
        "comparison of natural parameters is a LABELLED TOLERANCE comparison, PER VARIABLE: |model - observed| <= 2^-36 * (1 + magnitudes of "
        "the messages of that variable that entered the computation so far); the oracle uses 1e-9 of the variable's high-water "
        "magnitude; the model computes in exact rationals, the code in binary64 through (mean, sigma)",
        "modelled not verified: NormalMessage arithmetic itself (C17), Prior/Model composition (prior_model.priors is observed and "
        "compared), numpy, logging, output files; the process pool of ParallelEPOptimiser is replaced by a serial starmap",
    ]
    ctx.assumptions = [
        "messages form an abelian group with a scalar action (natural parameters); theorems are parametric in it, the executed "
        "instance is Qc*Qc",
        "the generator never asks for a projection whose validity (precision > 0) would be decided by binary64 rounding",
        "update exactness is stated for approximations computed from the current state; ParallelEPOptimiser uses approximations "
        "computed at the start of the sweep, for which exactness fails by construction (Witness stale_update_not_exact)",
    ]
    built = ctx.build()
    cases = gen_cases(ctx)
    pinned = dict(getattr(ctx, "c18_pinned", {}))
    if ctx.replay:
        pinned = {}
        rp = json.load(open(ctx.replay))
        if rp.get("case"):
            cases = [rp["case"]]
    parts = chunks(cases, common.NCPU)
    outs = common.run_impl_parallel("c18_impl", [{"cases": p} for p in parts], timeout=1500)
    results = []
    for p, o in zip(parts, outs):
        if "__error__" in o:
            ctx.obligation("impl-driver", "harness", False, o["__error__"][-800:])
            return
        results += o["results"]
    coq_cases, coq_idx = [], []
    oracle_failed = set()
    for i, (c, r) in enumerate(zip(cases, results)):
        ctx.count_case(c, nontrivial(c), kind_of(c))
        ctx.oracle["cases"] += 1
        if c["kind"] == "decl":
            ctx.hist("model_factors", len(c["mfactors"]))
            ctx.hist("sweeps", c["run"]["max_steps"])
            ctx.hist("decl_features", "+".join(sorted(
                {m["t"] for m in c["mfactors"]} | ({"no-prior-factors"} if not c["include"] else set())
                | ({"single-factor-entry"} if c["entry"] == "single" else set())
                | ({"early-stop"} if c["run"].get("stop") else set()))))
            for sc in c["run"]["scripts"]:
                for oc in sc:
                    ctx.hist("outcome", oc["t"] if oc["t"] == "raise" else ("fit-ok" if oc["success"] else "fit-failed"))
            ctx.hist("delta", c["run"]["delta"]["t"])
            ctx.hist("sweep_twice_used", "+".join(sorted(
                (["grown-graph"] if c.get("grow") else []) + (["run-split=%s" % ("0" if c["run"]["split"] == 0 else "all" if c["run"]["split"] == c["run"]["max_steps"] else "mid")] if c["run"].get("split") is not None else [])
                + (["own-optimiser"] if any(m.get("own") for m in c["mfactors"]) else []))) or "-")
            ctx.hist("sweep_ids_sharing", "+".join(sorted(
                (["ids-out-of-order"] if c.get("ids") else []) + (["twin-factor"] if any("twin_of" in m for m in c["mfactors"]) else [])
                + (["named"] if any(m.get("name") is not None for m in c["mfactors"]) else [])
                + (["dist-prior-twice"] if any(m["t"] == "hier" and len(m["dist"]) == 2 and m["dist"][0] == m["dist"][1] for m in c["mfactors"]) else [])
                + (["drawn-twice"] if any(m["t"] == "hier" and len(set(m["drawn"])) < len(m["drawn"]) for m in c["mfactors"]) else []))) or "-")
            for sc in c["run"]["scripts"]:
                for oc in sc:
                    if oc["t"] == "raise":
                        ctx.hist("sweep_exception", oc.get("exc", "ValueError"))
                    elif oc.get("warn"):
                        ctx.hist("sweep_exception", "warning-in-optimiser")
        else:
            ctx.hist("factors", len(c["factors"]))
            ctx.hist("updates", len(c["steps"]) if c["kind"] in ("raw", "subset") else c["max_steps"] * len(c["order"]))
            fs_ = c["factors"]
            ctx.hist("max_sharing", max(sum(1 for f in fs_ if v in f) for v in {v for f in fs_ for v in f}))
            for s_ in (c["steps"] if c["kind"] in ("raw", "subset") else []):
                ctx.hist("via", s_["via"])
                ctx.hist("delta", s_["delta"]["t"] + ("=" + str(unhex(s_["delta"]["d"])) if s_["delta"]["t"] == "scalar" else ""))
            if c["kind"] == "par":
                ctx.hist("delta", c["delta"]["t"])
                ctx.hist("sweep_par", "route=%s%s%s" % (c.get("route"), " split" if c.get("split") is not None else "",
                                                        " updater-replaced" if c.get("delta2") else ""))
            for s_ in (c["steps"] if c["kind"] == "raw" else []):
                if s_["delta"].get("ty"):
                    ctx.hist("sweep_delta_type", s_["delta"]["ty"])
            if c.get("plate"):
                ctx.hist("sweep_plate_size", c["plate"]["n"])
        if "ok" in r and c["kind"] == "decl" and c["run"].get("history") == "default":
            ctx.hist("kl_termination", "converged-early" if len(r["ok"]["log"]) < c["run"]["max_steps"] * len(run_order(c, r["ok"]))
                     else "ran-to-max-steps")
        if "ok" in r and c["kind"] == "par" and c.get("stop"):
            ctx.hist("par_stop", "parallel" if c["parallel"] else "sequential")
        if "ok" in r and c["kind"] == "raw":
            for o_ in r["ok"]["steps"]:
                ctx.hist("projection", "proper" if o_["success"] else "improper-or-failed")
        if "exc" in r:
            ctx.oracle["failures"] += 1
            oracle_failed.add(i)
            classes = []
            if c["kind"] == "subset":
                cls_, exc_ = subset_crash_class(c)
                if cls_ and r["exc"] == exc_:
                    classes = [cls_]
            ctx.failure("oracle", "implementation raised %s: %s" % (r["exc"], r.get("msg")), c, classes=classes, impl=r)
            continue
        o = r["ok"]
        if c["kind"] == "decl" and run_order(c, o) != c["run"]["order"] and not margins_ok(c, run_order(c, o)):
            ctx.hist("dropped", "graph order differs from the generator's assumption and margins are not guaranteed")
            continue
        if c["kind"] == "subset" and subset_crash_class(c)[0]:
            ctx.oracle["failures"] += 1
            oracle_failed.add(i)
            ctx.failure("oracle", "expected the known crash %s but the call went through" % subset_crash_class(c)[0], c)
            continue
        try:
            fails = {"raw": oracle_raw, "par": oracle_par, "decl": oracle_decl, "subset": oracle_subset}[c["kind"]](c, o)
        except (KeyError, IndexError, TypeError, ValueError) as e_:
            # observables that do not even have the shape the case implies (e.g. a factor lost a variable)
            fails = [("observables do not fit the case: %s: %s" % (type(e_).__name__, str(e_)[:200]), [])]
        if fails:
            ctx.oracle["failures"] += 1
            oracle_failed.add(i)
            tagged = [t for _, tags in fails for t in tags]
            untagged = any(not tags for _, tags in fails)
            classes = [] if untagged else classify(c, tagged)
            small = {k: v for k, v in o.items() if k in ("prior_counts", "model_priors", "kinds", "access", "groups")}
            ctx.failure("oracle", "; ".join(m for m, _ in fails[:3]), c, classes=classes, impl=small)
        cc = coq_case(c, o)
        if cc:
            coq_cases.append(cc)
            coq_idx.append(i)
        if i % 41 == 0:
            ctx.sample({"case": c if len(json.dumps(c)) < 700 else {"kind": c["kind"], "summary": kind_of(c)}}, limit=8)
    if os.path.exists(os.path.join(common.COQ, "C18", "Model.vo")):
        hdr = ctx.header(["Model"])
        bad, log = ctx.eval_cases(hdr, "case", "check_case", coq_cases, shard=20)
        disagree = {coq_idx[b] for b in (bad or [])}
        for i, sig in sorted(pinned.items()):
            ok_ = i not in oracle_failed and i not in disagree and i in coq_idx and bad is not None
            ctx.obligation("regression:" + sig, "regression", ok_,
                           "pinned case of the repaired defect passes oracle and correspondence" if ok_ else
                           "pinned case of the repaired defect fails again (oracle: %s, correspondence: %s)"
                           % (i in oracle_failed, i in disagree or i not in coq_idx))
        if bad:
            for b in bad[:5]:
                i = coq_idx[b]
                ctx.failure("correspondence", "model and implementation disagree on a %s case" % kind_of(cases[i]),
                            cases[i], broken={"kind": "correspondence", "name": "C18.check_case"},
                            found_input=i in oracle_failed)
    else:
        ctx.obligation("correspondence:cases", "correspondence", False, "Model.vo not built")


MANIFEST = {
    "text": "Coq 8.16 theorems over an executable model of EPMeanField / MeanField.update_factor_mean_field / message_dict / "
            "EPOptimiser.run / EPHistory, parametric in the message group, for every factor graph, state and update sequence "
            "(model = message * cavity = global; update changes one factor only; full valid update makes the global approximation "
            "equal the fitted distribution; damped update interpolates; initial cavity = prior; accessors return the most recent "
            "entry; a memoised history accessor answers like a fresh object under every sound cache policy -- cached_property "
            "refuted; two calls of run() equal one run), with _refuted witnesses where the code as it stands violates the statement, plus a vm_compute correspondence "
            "of the model with the running code and a direct property oracle on every generated case",
    "note": "Trusted: Coq kernel + vm_compute, the correspondence harness. Natural parameters are compared with a labelled "
            "tolerance (2^-36 relative to the magnitudes involved) because the code stores (mean, sigma) in binary64 while the model "
            "is exact; Normal messages only; message arithmetic itself belongs to C17; the multiprocessing pool of "
            "ParallelEPOptimiser is replaced by a serial stand-in.",
    "technique": "machine-checked proof in Coq (group-parametric model) + vm_compute correspondence",
}
