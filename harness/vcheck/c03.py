"""C03 -- limits and assertions gate every instance (DESIGN.md section 5, C03)."""
import json
import os
from . import common
from . import modelgen as MG
from . import c01 as C01
from .common import cfloat, cnat, clist, cpair, cbool

MANIFEST = {
    "text": "Coq 8.16 theorems over the C01 tree model extended with prior limits and assertion trees: an instance is produced iff every "
            "value is within its prior's limits and every assertion of every level holds (verdict = the inequalities evaluated on the "
            "numbers, incl. chained and arithmetic operands), otherwise the fit exception (limit first), and ignoring limits is total; "
            "tied to the code by bit-exact vm_compute correspondence of verdicts and instances on generated models x assertion sets x "
            "vectors inside/on/outside limits, with two-sided abstraction of the assertion objects, plus a direct oracle",
    "note": "Trusted: Coq kernel + vm_compute; harness abstraction of live assertion objects; exception classes mapped to a small enum. "
            "Not modelled: exception_override test switch, jax; unit-vector and random-instance routes are checked by the oracle only.",
    "technique": "machine-checked proof in Coq (hand-written gate model over the C01 tree) + vm_compute correspondence",
}

unhex = MG.unhex


def gen_operand(rng, g, npool):
    r = rng.random()
    if r < 0.6:
        return {"t": "prior", "ref": rng.randrange(npool)}
    if r < 0.8:
        return {"t": "const", "v": (rng.randint(-8, 12) / 4.0).hex()}
    op = rng.choice(["+", "*", "/"])
    l = {"t": "prior", "ref": rng.randrange(npool)}
    rr = {"t": "const", "v": rng.choice([0.5, 2.0, 4.0]).hex()} if rng.random() < 0.5 else {"t": "prior", "ref": rng.randrange(npool)}
    return {"t": "arith", "op": op, "l": l, "r": rr}


def gen_cmp(rng, g, npool):
    l = gen_operand(rng, g, npool)
    r = gen_operand(rng, g, npool)
    if l["t"] == "const" and r["t"] == "const":
        l = {"t": "prior", "ref": rng.randrange(npool)}
    return {"k": "cmp", "op": rng.choice(["<", "<=", ">", ">="]), "l": l, "r": r}


def levels_of(e, path=()):
    out = []
    if e["t"] == "model":
        out.append(list(path))
        for arg, kind, extra in MG.SIGNATURES[e["cls"]]:
            if kind == "class":
                out += levels_of(e["kw"][arg], path + (arg,))
    elif e["t"] == "coll":
        out.append(list(path))
        for k, sub in MG.resolve_copies(e)["items"]:
            out += levels_of(sub, path + (k,))
    return out


def gen_cases(ctx, n):
    rng = ctx.rng
    cases = []
    while len(cases) < n:
        g = MG.Gen(rng, max_depth=2 if ctx.tier == "quick" else 3, big_tuples=False,
                   families=("uniform", "uniform", "gaussian"))
        prog = g.program()
        npool = len(prog["pool"])
        if npool == 0 or npool > 24:
            continue
        lv = levels_of(prog["root"])
        asserts = []
        for _ in range(rng.choice([0, 1, 1, 2, 3])):
            r = rng.random()
            if r < 0.62:
                a = gen_cmp(rng, g, npool)
            elif r < 0.9:
                first = gen_cmp(rng, g, npool)
                op2 = rng.choice(["<", "<=", ">", ">="])
                # the operand compared again (greater side for </<=, lower side for >/>=) must not be a
                # plain constant: `(p < 0.5) < 2.0` compares two floats and stores a bool inside a
                # CompoundAssertion, which the library does not support (not a shape users write)
                lower, greater = (first["l"], first["r"]) if first["op"] in ("<", "<=") else (first["r"], first["l"])
                pivot = greater if op2 in ("<", "<=") else lower
                if pivot["t"] == "const":
                    pivot.clear()
                    pivot.update({"t": "prior", "ref": rng.randrange(npool)})
                a = {"k": "chain", "first": first, "op": op2, "other": gen_operand(rng, g, npool)}
            else:
                a = {"k": "lit", "v": rng.random() < 0.5}
            asserts.append({"level": rng.choice(lv), "a": a})
        vectors = []
        for _ in range(4):
            vec = []
            for s in prog["pool"]:
                lo, hi = unhex(s["lo"]), unhex(s["hi"])
                r = rng.random()
                if r < 0.1:
                    v = lo
                elif r < 0.2:
                    v = hi
                elif r < 0.27:
                    v = lo - rng.choice([2.0 ** -40, 0.25, 3.0])
                elif r < 0.34:
                    v = hi + rng.choice([2.0 ** -40, 0.25, 3.0])
                else:
                    v = lo + (hi - lo) * rng.randint(0, 8) / 8.0
                vec.append(v)
            vectors.append([v.hex() for v in vec])
        if rng.random() < 0.1:
            vectors.append(vectors[0][:-1])        # wrong length
        units = [[rng.choice([0.0, 0.25, 0.5, 0.75, 1.0, rng.random()]).hex() for _ in prog["pool"]] for _ in range(2)]
        cases.append({"program": prog, "asserts": asserts, "vectors": vectors, "units": units, "n_random": 2})
    return cases


def norm_assert(a):
    """Expected assertion object (lt/le/and/lit form) for a program assertion; None = dropped."""
    k = a["k"]
    if k == "lit":
        return None if a["v"] else {"k": "lit", "v": False}
    if k == "cmp":
        l, r = MG.expected_tree(a["l"]), MG.expected_tree(a["r"])
        if a["op"] == "<":
            return {"k": "lt", "l": l, "g": r}
        if a["op"] == "<=":
            return {"k": "le", "l": l, "g": r}
        if a["op"] == ">":
            return {"k": "lt", "l": r, "g": l}
        return {"k": "le", "l": r, "g": l}
    if k == "chain":
        first = norm_assert(a["first"])
        o = MG.expected_tree(a["other"])
        if a["op"] == "<":
            second = {"k": "lt", "l": first["g"], "g": o}
        elif a["op"] == "<=":
            second = {"k": "le", "l": first["g"], "g": o}
        elif a["op"] == ">":
            second = {"k": "lt", "l": o, "g": first["l"]}
        else:
            second = {"k": "le", "l": o, "g": first["l"]}
        return {"k": "and", "a": first, "b": second}
    raise ValueError(k)


def same_assert(e, g):
    if e["k"] != g["k"]:
        return False
    if e["k"] == "lit":
        return e["v"] == g["v"]
    if e["k"] == "and":
        return same_assert(e["a"], g["a"]) and same_assert(e["b"], g["b"])
    return MG.same_tree(e["l"], g["l"]) and MG.same_tree(e["g"], g["g"])


def coq_assert(a):
    if a["k"] == "lit":
        return "(ALit %s)" % cbool(a["v"])
    if a["k"] == "and":
        return "(AAnd %s %s)" % (coq_assert(a["a"]), coq_assert(a["b"]))
    return "(%s %s %s)" % ("ALt" if a["k"] == "lt" else "ALe", MG.coq_node(a["l"]), MG.coq_node(a["g"]))


def eval_operand(e, vec):
    t = e["t"]
    if t == "prior":
        return vec[e["ref"]]
    if t == "const":
        return unhex(e["v"])
    a, b = eval_operand(e["l"], vec), eval_operand(e["r"], vec)
    return C01.apply_op(e["op"], a, b)


def eval_assert(a, vec):
    """Evaluate the inequality directly on the numbers (from the program, not from the objects)."""
    k = a["k"]
    if k == "lit":
        return bool(a["v"])
    if k == "cmp":
        x, y = eval_operand(a["l"], vec), eval_operand(a["r"], vec)
        return {"<": x < y, "<=": x <= y, ">": x > y, ">=": x >= y}[a["op"]]
    first = a["first"]
    if not eval_assert(first, vec):
        return False
    fl, fr = eval_operand(first["l"], vec), eval_operand(first["r"], vec)
    lower, greater = (fl, fr) if first["op"] in ("<", "<=") else (fr, fl)
    o = eval_operand(a["other"], vec)
    return {"<": greater < o, "<=": greater <= o, ">": lower > o, ">=": lower >= o}[a["op"]]


def eval_all_operands(a, vec):
    """Evaluate every operand of an assertion (raises ZeroDivisionError if any divides by zero)."""
    k = a["k"]
    if k == "cmp":
        eval_operand(a["l"], vec)
        eval_operand(a["r"], vec)
    elif k == "chain":
        eval_all_operands(a["first"], vec)
        eval_operand(a["other"], vec)
    return True


def coq_verdict(v):
    if "ok" in v:
        return "(VOk %s)" % MG.coq_ival(v["ok"])
    return {"limit": "VLimit", "assert": "VAssert", "length": "VLength"}.get(v["v"])


def run(ctx):
    ctx.rule = ("C01 composition programs (uniform and gaussian priors with limits) x 0-3 assertions attached at random Model/Collection "
                "levels (simple, chained via (a<b)<c / (a<b)>c, on arithmetic expressions, with constants, literal True/False) x vectors "
                "inside / exactly on / just outside / far outside limits and of wrong length; unit vectors and random instances for the "
                "oracle. Non-trivial: at least one assertion, or a value on/outside a limit. Distinct = distinct (program, assertions, vector).")
    ctx.trusted = [
        "Coq 8.16.1 kernel incl. vm_compute; primitive floats",
        "harness abstraction of live model and assertion objects (two-sided: compared with the tree the program denotes)",
        "exception classes mapped to {limit, assert, length}",
    ]
    ctx.assumptions = ["every prior used in an assertion belongs to the model", "exception_override config switch is off"]
    built = ctx.build()
    n = 110 if ctx.tier == "quick" else 700
    cases = gen_cases(ctx, n)
    if ctx.replay:
        rp = json.load(open(ctx.replay))
        if rp.get("case"):
            cases = [rp["case"]]
    chunks = [ch for ch in (cases[i::common.NCPU] for i in range(common.NCPU)) if ch]
    outs = common.run_impl_parallel("c03_impl", [{"cases": ch} for ch in chunks], timeout=1200)
    results = [None] * len(cases)
    for ci, o in enumerate(outs):
        if "__error__" in o:
            ctx.obligation("impl-driver", "harness", False, o["__error__"][-800:])
            return
        for j, r in enumerate(o["results"]):
            results[ci + j * common.NCPU] = r
    coq_cases, coq_ref = [], []
    for i, (c, r) in enumerate(zip(cases, results)):
        prog = c["program"]
        if "exc" in r:
            ctx.count_case(c, True)
            ctx.failure("oracle", "building the model or its assertions raised %s: %s" % (r["exc"], r.get("msg", "")[-300:]), c)
            continue
        r = r["ok"]
        exp_asserts = [x for x in (norm_assert(a["a"]) for a in c["asserts"]) if x is not None]
        # two-sided: same set of assertion objects (levels flattened in tree order -> compare as multisets by matching)
        got = list(r["asserts"])
        ok_struct = MG.same_tree(MG.expected_tree(prog["root"]), r["tree"]) and len(got) == len(exp_asserts)
        if ok_struct:
            rest = list(got)
            for e in exp_asserts:
                m = [g for g in rest if same_assert(e, g)]
                if not m:
                    ok_struct = False
                    break
                rest.remove(m[0])
        lims = [[unhex(s["lo"]), unhex(s["hi"])] for s in prog["pool"]]
        if [[unhex(a), unhex(b)] for a, b in r["limits"]] != lims:
            ok_struct = False
        if not ok_struct:
            ctx.count_case(c, True)
            ctx.failure("correspondence", "the composition/assertion API built different objects than the program denotes", c,
                        impl={"asserts": r["asserts"], "limits": r["limits"]}, broken={"kind": "correspondence", "name": "two-sided abstraction"})
            continue
        npool = len(prog["pool"])
        for vi, (v, run_) in enumerate(zip(c["vectors"], r["runs"])):
            vec = [unhex(x) for x in v]
            key = {"program": prog, "asserts": c["asserts"], "vec": v}
            on_edge = any(x <= lo or x >= hi for x, (lo, hi) in zip(vec, lims))
            ctx.count_case(key, bool(c["asserts"]) or on_edge)
            ctx.oracle["cases"] += 1
            # ---- oracle: the property statement evaluated directly
            if len(vec) != npool:
                expect = "length"
            elif not all(lo <= x <= hi for x, (lo, hi) in zip(vec, lims)):
                expect = "limit"
            else:
                try:
                    # no short-circuit: a division by zero in any operand is outside the compared domain
                    truth = all([eval_all_operands(a["a"], vec) and eval_assert(a["a"], vec) for a in c["asserts"]])
                except ZeroDivisionError:
                    ctx.hist("skipped", "division-by-zero")
                    continue
                expect = "ok" if truth else "assert"
            if len(vec) == npool and C01.has_division_by_zero(prog["root"], vec):
                ctx.hist("skipped", "division-by-zero")
                continue
            ctx.hist("expected-verdict", expect)
            s = run_["strict"]
            got_v = "ok" if "ok" in s else s["v"]
            msg = None
            if got_v != expect:
                msg = "instance_from_vector verdict %s, but evaluating limits/assertions on the numbers gives %s" % (got_v, expect)
            elif expect == "ok" and not C01.same_inst(C01.expected_instance(prog["root"], vec), s["ok"]):
                msg = "accepted vector produced a different instance than the composition denotes"
            ig = run_["ignored"]
            if msg is None and len(vec) == npool and ("ok" not in ig or not C01.same_inst(C01.expected_instance(prog["root"], vec), ig["ok"])):
                msg = "ignore_prior_limits=True did not produce the instance (%s)" % (ig.get("v"),)
            if msg:
                ctx.oracle["failures"] += 1
                ctx.failure("oracle", msg, dict(c, vectors=[v], units=[], n_random=0), impl=run_)
            cs, ci_ = coq_verdict(s), coq_verdict(ig)
            if cs and ci_ and MG.tree_ok_for_model(r["tree"]):
                coq_cases.append("{| c_tree := %s; c_lims := %s; c_asserts := %s; c_vec := %s; c_strict := %s; c_ignored := %s |}" % (
                    MG.coq_node(r["tree"]),
                    clist(["(%s, (%s, %s))" % (cnat(q), cfloat(lo), cfloat(hi)) for q, (lo, hi) in enumerate(lims)]),
                    clist([coq_assert(a) for a in r["asserts"]]),
                    clist([cfloat(x) for x in vec]), cs, ci_))
                coq_ref.append((i, vi))
        # unit-vector route: same verdict as pushing the unit vector through the priors
        for u, ur in zip(c["units"], r["unit_runs"]):
            ctx.oracle["cases"] += 1
            if ur["vec"] is None:
                continue
            vec = [unhex(x) for x in ur["vec"]]
            if C01.has_division_by_zero(prog["root"], vec):
                continue
            inside = all(lo <= x <= hi for x, (lo, hi) in zip(vec, lims))
            try:
                truth = all([eval_all_operands(a["a"], vec) and eval_assert(a["a"], vec) for a in c["asserts"]])
            except ZeroDivisionError:
                continue
            expect = "ok" if (inside and truth) else ("limit" if not inside else "assert")
            s = ur["strict"]
            got_v = "ok" if "ok" in s else s["v"]
            if got_v != expect:
                ctx.oracle["failures"] += 1
                ctx.failure("oracle", "instance_from_unit_vector verdict %s, expected %s" % (got_v, expect),
                            dict(c, vectors=[], units=[u], n_random=0), impl=ur)
            elif "ok" not in ur["ignored"]:
                ctx.oracle["failures"] += 1
                ctx.failure("oracle", "instance_from_unit_vector(ignore_prior_limits=True) raised", dict(c, vectors=[], units=[u]), impl=ur)
        # random instances: whatever is returned satisfies limits and assertions
        for rr in r["random"]:
            ctx.oracle["cases"] += 1
            if "ok" in rr:
                # recover the drawn values through the advertised paths and evaluate the property on them
                drawn = {}
                for pid, pth in zip(r["ids"], r["upaths"]):
                    got = C01.navigate(rr["ok"], pth)
                    if got is not None and got["t"] == "v":
                        drawn[pid] = unhex(got["v"])
                bad = [pid for pid, v in drawn.items() if not (lims[pid][0] <= v <= lims[pid][1])]
                msg = None
                if bad:
                    msg = "random_instance returned a value outside the limits of parameter %d" % bad[0]
                elif len(drawn) == npool:
                    vec = [drawn[i] for i in range(npool)]
                    try:
                        if not all([eval_all_operands(a["a"], vec) and eval_assert(a["a"], vec) for a in c["asserts"]]):
                            msg = "random_instance returned an instance that violates an assertion"
                    except ZeroDivisionError:
                        pass
                ctx.hist("random-instance", "checked-%d-of-%d-values" % (len(drawn), npool) if len(drawn) < npool else "checked-all-values")
                if msg:
                    ctx.oracle["failures"] += 1
                    ctx.failure("oracle", msg, dict(c, vectors=[], units=[]), impl=rr)
            elif rr["v"] not in ("assert", "limit"):
                ctx.oracle["failures"] += 1
                ctx.failure("oracle", "random_instance raised %s" % rr.get("exc"), dict(c, vectors=[], units=[]), impl=rr)
        if i % 25 == 0:
            ctx.sample({"asserts": c["asserts"], "n_priors": npool, "verdicts": [("ok" if "ok" in x["strict"] else x["strict"]["v"]) for x in r["runs"]]})
    if os.path.exists(os.path.join(common.COQ, "C03", "Model.vo")):
        hdr = ctx.header(["Common.PyFloat", "Model"]).replace("From PAFC03 Require Import Model.",
                                                              "From PAFC01 Require Import ModelTree.\nFrom PAFC03 Require Import Model.")
        bad, log = ctx.eval_cases(hdr, "case", "check_case", coq_cases, shard=60)
        for b in (bad or [])[:5]:
            i, vi = coq_ref[b]
            c = cases[i]
            ctx.failure("correspondence", "Coq gate model and implementation disagree on verdict/instance",
                        dict(c, vectors=[c["vectors"][vi]], units=[], n_random=0), impl=results[i]["ok"]["runs"][vi],
                        broken={"kind": "correspondence", "name": "C03.check_case"}, found_input=False)
    else:
        ctx.obligation("correspondence:cases", "correspondence", False, "Model.vo not built")
