"""C03 -- limits and assertions gate every instance (DESIGN.md section 5, C03)."""
import json
import math
import os
from . import common
from . import modelgen as MG
from . import c01 as C01
from .common import cfloat, cnat, clist, cpair, cbool, cstr

MANIFEST = {
    "text": "Coq 8.16 theorems over the C01 tree model extended with prior limits and assertion objects attached to levels "
            "(Model, Collection, CompoundPrior): the code's level-by-level check with ignore_assertions handed down (status, "
            "recursive) equals by induction on the tree the flat specification 'every value within its limits and every inequality "
            "true of the numbers' whenever each level path leads to a level of the tree and construction and assertions are defined "
            "(no division by zero, operands are parameters of the model); then instance iff limits and all inequalities hold, otherwise "
            "the fit exception (limit first), ignoring is total; the comparison operators build assertions meaning the inequalities "
            "written: simple, reflected, and chains of ANY length (induction on how the chain was written: every link, each new operand "
            "against the greatest / lowest operand so far; the repaired operators of 33cdc7f, the legacy three-link defect kept as "
            "C03_chain3_legacy_refuted); undefined operands and the path-argument route are shown NOT to satisfy the statement by refuted "
            "witnesses. Tied to the code by bit-exact vm_compute correspondence: operators (recipe -> built object and its remembered "
            "ends), add_assertion (levels), verdict + FitException flag + instance of instance_from_vector "
            "strict/ignored and of instance_from_path_arguments, on generated models x assertion sets x vectors; plus a direct oracle",
    "note": "Trusted: Coq kernel + vm_compute; harness abstraction of live model / assertion objects; exception classes mapped to a small "
            "enum. Subtraction (built as a + (-b)), unary minus and abs are inside the Coq model since ext-tree (NUn: as operands of "
            "assertions, as attributes of models and as levels carrying assertions). Oracle-only: unit-vector and "
            "random-instance routes; not modelled: ** // % Log Log10 operands, a unary form of a float (not API-constructible). Out of scope (declared): instance_from_path_arguments / instance_from_prior_name_arguments "
            "(not vector routes; modelled and measured only), Python's native a < b < c, exception_override switch, jax.",
    "technique": "machine-checked proof in Coq (hand-written level-by-level model over the C01 tree, induction on the tree) + vm_compute correspondence",
}

unhex = MG.unhex
INF = float("inf")
# finding chain-3-links was repaired in /repo by 33cdc7f (proposed_fixes/C03-chain-further): the model (Model.chain / denote)
# describes the repaired operators; Model.check_case_legacy + Witness.C03_chain3_legacy_refuted keep the record.
# finding operand-variable-name-collides was repaired by d91c8d6 (proposed_fixes/C03-operand-attribute-names).
REPAIRED = {"chain-of-three-comparisons-ignores-earlier-links": "corpus/C03/chain-3-links.json",
            "operand-attribute-name-from-colliding-caller-variable": "corpus/C03/operand-variable-names.json"}
COPS = {"<": "CLt", "<=": "CLe", ">": "CGt", ">=": "CGe"}


# ----------------------------------------------------------------------------------------------
# generator
# ----------------------------------------------------------------------------------------------

def gen_atom(rng, npool, allow_const=True):
    if allow_const and rng.random() < 0.3:
        return {"t": "const", "v": rng.choice([0.5, 2.0, 4.0, -1.5, 1.0]).hex()}
    return {"t": "prior", "ref": rng.randrange(npool)}


def gen_operand(rng, npool, n_foreign=0, depth=0):
    r = rng.random()
    if n_foreign and r < 0.25:
        return {"t": "foreign", "i": rng.randrange(n_foreign)}
    if r < 0.55:
        return {"t": "prior", "ref": rng.randrange(npool)}
    if r < 0.72:
        return {"t": "const", "v": (rng.randint(-8, 12) / 4.0).hex()}
    if r < 0.78:
        return {"t": "unary", "op": rng.choice(["neg", "abs"]), "a": {"t": "prior", "ref": rng.randrange(npool)}}
    op = rng.choice(["+", "*", "/", "-", "-", "%", "%", "//"])
    l = gen_operand(rng, npool, 0, depth + 1) if (depth == 0 and rng.random() < 0.15) else gen_atom(rng, npool)
    rr = gen_atom(rng, npool)
    if l["t"] == "const" and rr["t"] == "const":
        if rng.random() < 0.5:
            l = {"t": "prior", "ref": rng.randrange(npool)}
        else:
            rr = {"t": "prior", "ref": rng.randrange(npool)}
    if op in ("/", "%", "//") and rr["t"] == "const" and rng.random() < 0.06:
        rr = {"t": "const", "v": (0.0).hex()}      # p / 0.0: ZeroDivisionError whatever the vector
    return {"t": "arith", "op": op, "l": l, "r": rr}


def arith_like(e):
    return e["t"] in ("prior", "arith", "unary", "foreign")


def gen_cmp(rng, npool, n_foreign=0):
    l = gen_operand(rng, npool, n_foreign)
    r = gen_operand(rng, npool, n_foreign)
    if l["t"] == "const" and r["t"] == "const":
        l = {"t": "prior", "ref": rng.randrange(npool)}
    return {"k": "cmp", "op": rng.choice(["<", "<=", ">", ">="]), "l": l, "r": r}


def prog_ends(a):
    """(lowest, greatest) operand of a comparison / chain as written in the program."""
    if a["k"] == "cmp":
        return (a["l"], a["r"]) if a["op"] in ("<", "<=") else (a["r"], a["l"])
    lo, hi = prog_ends(a["first"])
    return (lo, a["other"]) if a["op"] in ("<", "<=") else (a["other"], hi)


# caller variable names for the two operands of a comparison.  CompoundPrior takes the attribute names of its operands from the
# caller's variables (retrieve_name); names that are attributes / properties of the compound object collide with them.
VAR_NAMES = [("sigma", "centre"), ("right", "other"), ("lo", "right"), ("id", "cls"), ("label", "x1"),           # harmless before d91c8d6
             ("centre", "left"), ("value", "_left"), ("assertions", "hi"), ("lo", "_assertions"),               # colliding before d91c8d6
             ("name", "priors"), ("prior_count", "x2"), ("_right_name", "_left_name"), ("left", "right")]       # raised when written
COLLIDING_RIGHT = ("left", "_left")
COLLIDING_ANY = ("assertions", "_assertions")


def gen_named_cmp(rng, npool):
    l, r = (rng.sample(range(npool), 2) if npool >= 2 else (0, 0))
    return {"k": "cmp", "op": rng.choice(["<", "<=", ">", ">="]), "l": {"t": "prior", "ref": l}, "r": {"t": "prior", "ref": r},
            "vars": list(rng.choice(VAR_NAMES))}


def colliding_names(v):
    return bool(v) and (v[1] in COLLIDING_RIGHT or v[0] in COLLIDING_ANY or v[1] in COLLIDING_ANY)


def gen_chain(rng, npool, first, n_foreign=0, last_const=None):
    op2 = rng.choice(["<", "<=", ">", ">="])
    # the end of the chain that is compared again (greatest operand for </<=, lowest for >/>=) must not be a plain
    # constant when `other` is one: `(p < 0.5) < 2.0` compares two floats and stores a bool inside a CompoundAssertion,
    # which the library does not support (not a shape users write)
    lo, hi = prog_ends(first)
    pivot = hi if op2 in ("<", "<=") else lo
    other = gen_operand(rng, npool, n_foreign)
    if last_const is True and other["t"] != "const":
        other = {"t": "const", "v": (rng.randint(-8, 12) / 4.0).hex()}
    if last_const is False and not arith_like(other):
        other = {"t": "prior", "ref": rng.randrange(npool)}
    if pivot["t"] == "const" and other["t"] == "const":
        other = {"t": "prior", "ref": rng.randrange(npool)}
    return {"k": "chain", "first": first, "op": op2, "other": other}


def chain_links(a):
    return 1 + chain_links(a["first"]) if a["k"] == "chain" else (1 if a["k"] == "cmp" else 0)


def levels_of(e, path=()):
    """Paths of every level (Model, Collection, CompoundPrior held as a model attribute) of a program."""
    out = []
    if e["t"] == "model":
        out.append(list(path))
        for arg, kind, extra in MG.SIGNATURES[e["cls"]]:
            if kind == "class":
                out += levels_of(e["kw"][arg], path + (arg,))
            elif kind == "float" and e["kw"][arg]["t"] in ("arith", "unary"):
                out.append(list(path + (arg,)))      # CompoundPrior / ModifiedPrior held as an attribute: a level of its own
    elif e["t"] == "coll":
        out.append(list(path))
        for k, sub in MG.resolve_copies(e)["items"]:
            out += levels_of(sub, path + (k,))
    return out


def is_arith_level(root, path):
    e = root
    for k in path:
        if e["t"] == "coll":
            e = dict((str(a), b) for a, b in MG.resolve_copies(e)["items"])[k]
        else:
            e = e["kw"][k]
    return e["t"]


def gen_vector(rng, pool):
    vec = []
    for s in pool:
        lo, hi = unhex(s["lo"]), unhex(s["hi"])
        mid = unhex(s["mean"]) if "mean" in s else (lo + hi) / 2
        sig = unhex(s["sigma"]) if "sigma" in s else 1.0
        flo = lo if lo > -INF else mid - 4 * sig       # a finite stand-in for an infinite limit
        fhi = hi if hi < INF else mid + 4 * sig
        r = rng.random()
        if r < 0.1:
            v = lo
        elif r < 0.2:
            v = hi
        elif r < 0.27:
            v = flo - rng.choice([2.0 ** -40, 0.25, 3.0])
        elif r < 0.34:
            v = fhi + rng.choice([2.0 ** -40, 0.25, 3.0])
        elif r < 0.40 and edge_values(lo, hi):
            v = rng.choice(edge_values(lo, hi))[1]
        elif r < 0.43:
            v = float("nan")
        elif r < 0.46:
            v = rng.choice([INF, -INF, 1.5e308, -1.5e308])
        else:
            v = flo + (fhi - flo) * rng.randint(0, 8) / 8.0
        vec.append(v)
    return vec


def edge_values(lo, hi):
    """Values around the two limits of one prior: exactly on, one float step inside / outside, 5e-15 and 1e-13 outside."""
    out = []
    if lo > -INF:
        out += [("on-lower", lo), ("ulp-inside-lower", math.nextafter(lo, INF)), ("ulp-outside-lower", math.nextafter(lo, -INF)),
                ("5e-15-outside-lower", lo - 5e-15), ("1e-13-outside-lower", lo - 1e-13)]
    if hi < INF:
        out += [("on-upper", hi), ("ulp-inside-upper", math.nextafter(hi, -INF)), ("ulp-outside-upper", math.nextafter(hi, INF)),
                ("5e-15-outside-upper", hi + 5e-15), ("1e-13-outside-upper", hi + 1e-13)]
    return out


def gen_edge_vectors(ctx, pool, k):
    """k vectors with every value well inside its limits except ONE, which takes an edge value of its prior."""
    rng = ctx.rng
    out = []
    limited = [j for j, s in enumerate(pool) if unhex(s["lo"]) > -INF or unhex(s["hi"]) < INF]
    for _ in range(k if limited else 0):
        vec = []
        for s in pool:
            lo, hi = unhex(s["lo"]), unhex(s["hi"])
            mid = unhex(s["mean"]) if "mean" in s else (lo + hi) / 2
            sig = unhex(s["sigma"]) if "sigma" in s else 1.0
            flo = lo if lo > -INF else mid - 4 * sig
            fhi = hi if hi < INF else mid + 4 * sig
            vec.append(flo + (fhi - flo) * rng.randint(1, 7) / 8.0)
        j = rng.choice(limited)
        lo, hi = unhex(pool[j]["lo"]), unhex(pool[j]["hi"])
        label, v = rng.choice(edge_values(lo, hi))
        vec[j] = v
        limit = lo if label.endswith("lower") else hi
        ctx.hist("edge-vector", "%s, |limit| %s%s" % (label.rsplit("-", 1)[0], "< 64" if abs(limit) < 64 else ">= 64",
                                                     " (rounds onto the limit)" if ("outside" in label and v == limit) else ""))
        out.append(vec)
    return out


def hexv(v):
    if v != v:
        return "nan"
    if v in (INF, -INF):
        return "inf" if v > 0 else "-inf"
    return v.hex()


def gen_cases(ctx, n):
    rng = ctx.rng
    cases = []
    while len(cases) < n:
        g = MG.Gen(rng, max_depth=2 if ctx.tier == "quick" else 3, big_tuples=False,
                   families=("uniform", "uniform", "gaussian"), more_ops=rng.random() < 0.5, pow_ops=False)
        prog = g.program()
        npool = len(prog["pool"])
        if npool == 0 or npool > 24:
            continue
        # gaussian priors with infinite limits (the library default) on one or both sides
        for s in prog["pool"]:
            if s["family"] == "gaussian" and rng.random() < 0.5:
                side = rng.choice(["lo", "hi", "both"])
                if side in ("lo", "both"):
                    s["lo"] = "-inf"
                if side in ("hi", "both"):
                    s["hi"] = "inf"
        # limits of large magnitude (where limit +- 1e-14 is the limit itself): shift some priors by an exact amount
        for sp in prog["pool"]:
            if rng.random() < 0.15:
                shift = rng.choice([1024.0, -4096.0, 1048576.0])
                for key in ("lo", "hi", "mean"):
                    if key in sp and abs(unhex(sp[key])) < INF:
                        sp[key] = (unhex(sp[key]) + shift).hex()
        lv = levels_of(prog["root"])
        n_foreign = 1 if rng.random() < 0.06 else 0
        asserts = []
        for _ in range(rng.choice([0, 1, 1, 2, 3])):
            r = rng.random()
            if r < 0.07:
                a = gen_named_cmp(rng, npool)
            elif r < 0.52:
                a = gen_cmp(rng, npool, n_foreign)
            elif r < 0.76:
                a = gen_chain(rng, npool, gen_cmp(rng, npool, n_foreign), n_foreign)
            elif r < 0.88:
                two = gen_chain(rng, npool, gen_cmp(rng, npool), 0)
                a = gen_chain(rng, npool, two, 0, last_const=rng.random() < 0.3)
            elif r < 0.91:
                x, y = rng.sample(range(npool), 2) if npool >= 2 else (0, 0)
                a = {"k": "native", "op": rng.choice(["<", "<="]), "x": {"t": "prior", "ref": x}, "y": {"t": "prior", "ref": y},
                     "z": gen_atom(rng, npool)}
            else:
                a = {"k": "lit", "v": rng.random() < 0.5}
            lv_un = [p_ for p_ in lv if is_arith_level(prog["root"], p_) == "unary"]
            asserts.append({"level": rng.choice(lv_un) if lv_un and rng.random() < 0.5 else rng.choice(lv), "a": a})
        vectors = [[hexv(v) for v in gen_vector(rng, prog["pool"])] for _ in range(4)]
        vectors += [[hexv(v) for v in vec] for vec in gen_edge_vectors(ctx, prog["pool"], 3)]
        r = rng.random()
        if r < 0.08:
            vectors.append(vectors[0][:-1])                       # too short
        elif r < 0.16:
            vectors.append(vectors[0] + [rng.choice(vectors[0])])  # too long
        units = [[rng.choice([0.0, 0.25, 0.5, 0.75, 1.0, rng.random()]).hex() for _ in prog["pool"]] for _ in range(2)]
        wrap = rng.choice([None, None, None, None, None, "list", "dict", "copy"])
        cases.append({"program": prog, "asserts": asserts, "vectors": vectors, "units": units, "n_random": 2,
                      "n_foreign": n_foreign, "wrap": wrap, "numpy": rng.random() < 0.1})
    return cases


# ----------------------------------------------------------------------------------------------
# two-sided abstraction: what the program denotes vs. what the live objects are
# ----------------------------------------------------------------------------------------------

def expected_operand(e, npool):
    """Abstract operand object the operators are expected to build (a - b is a + (-b); c - a is (-a) + c)."""
    t = e["t"]
    if t == "prior":
        return {"t": "prior", "ref": e["ref"]}
    if t == "foreign":
        return {"t": "prior", "ref": npool + e["i"]}
    if t == "const":
        return {"t": "const", "v": e["v"]}
    if t == "unary":
        return {"t": "unary", "op": e["op"], "a": expected_operand(e["a"], npool)}
    l, r = expected_operand(e["l"], npool), expected_operand(e["r"], npool)
    if e["op"] == "-":
        if e["l"]["t"] == "const":
            return {"t": "arith", "op": "+", "l": {"t": "unary", "op": "neg", "a": r}, "r": l}
        if e["r"]["t"] == "const":
            return {"t": "arith", "op": "+", "l": l, "r": {"t": "const", "v": (-unhex(e["r"]["v"])).hex()}}
        return {"t": "arith", "op": "+", "l": l, "r": {"t": "unary", "op": "neg", "a": r}}
    return {"t": "arith", "op": e["op"], "l": l, "r": r}


def same_operand(exp, got):
    if exp["t"] != got["t"]:
        return False
    t = exp["t"]
    if t == "prior":
        return exp["ref"] == got["ref"]
    if t == "const":
        return unhex(exp["v"]) == unhex(got["v"]) and math.copysign(1, unhex(exp["v"])) == math.copysign(1, unhex(got["v"]))
    if t == "unary":
        return exp["op"] == got["op"] and same_operand(exp["a"], got["a"])
    if t == "arith":
        return exp["op"] == got["op"] and same_operand(exp["l"], got["l"]) and same_operand(exp["r"], got["r"])
    return False


def same_recipe(a, rec, npool):
    """The driver wrote the comparison the program says, on operand objects that are what the program denotes."""
    if a["k"] != rec["k"]:
        return False
    if a["k"] == "lit":
        return a["v"] == rec["v"]
    if a["k"] == "cmp":
        if a.get("vars") != rec.get("vars"):
            return False
        return a["op"] == rec["op"] and same_operand(expected_operand(a["l"], npool), rec["l"]) \
            and same_operand(expected_operand(a["r"], npool), rec["r"])
    if a["k"] == "native":
        return all(same_operand(expected_operand(a[s], npool), rec[s]) for s in ("x", "y", "z"))
    return a["op"] == rec["op"] and same_recipe(a["first"], rec["first"], npool) \
        and same_operand(expected_operand(a["other"], npool), rec["other"])


def expected_built(a, npool):
    """(assertion object, (lowest, greatest) operand) expected for comparisons and chains of any length."""
    k = a["k"]
    if k == "lit":
        return {"k": "lit", "v": a["v"]}, None
    if k == "cmp":
        l, r = expected_operand(a["l"], npool), expected_operand(a["r"], npool)
        if a["op"] in ("<", "<="):
            return {"k": "lt" if a["op"] == "<" else "le", "l": l, "g": r}, (l, r)
        return {"k": "lt" if a["op"] == ">" else "le", "l": r, "g": l}, (r, l)
    if k == "chain":
        first, (lo, hi) = expected_built(a["first"], npool)
        o = expected_operand(a["other"], npool)
        if a["op"] in ("<", "<="):
            return {"k": "and", "a": first, "b": {"k": "lt" if a["op"] == "<" else "le", "l": hi, "g": o}}, (lo, o)
        return {"k": "and", "a": first, "b": {"k": "lt" if a["op"] == ">" else "le", "l": o, "g": lo}}, (o, hi)
    return None, None


def same_assert(e, g):
    if e["k"] != g["k"]:
        return False
    if e["k"] == "lit":
        return e["v"] == g["v"]
    if e["k"] == "and":
        return same_assert(e["a"], g["a"]) and same_assert(e["b"], g["b"])
    if e["k"] in ("lt", "le"):
        return same_operand(e["l"], g["l"]) and same_operand(e["g"], g["g"])
    return False


# ----------------------------------------------------------------------------------------------
# Coq printers
# ----------------------------------------------------------------------------------------------

def name_ok(nm):
    return not (nm.startswith("_") or nm in ("id", "cls") or not all(32 <= ord(ch) < 127 for ch in nm))


def operand_representable(t):
    k = t["t"]
    if k in ("prior", "const"):
        return True
    if k == "arith":
        return t["op"] in MG.OPS and name_ok(t["ln"]) and name_ok(t["rn"]) \
            and operand_representable(t["l"]) and operand_representable(t["r"])
    if k == "unary":
        return t["op"] in MG.UNOPS and name_ok(t.get("name", "_")) and t["a"]["t"] in ("prior", "arith", "unary") \
            and operand_representable(t["a"])
    return False


def assertion_representable(a):
    k = a["k"]
    if k == "lit":
        return True
    if k == "and":
        return assertion_representable(a["a"]) and assertion_representable(a["b"])
    if k in ("lt", "le"):
        return operand_representable(a["l"]) and operand_representable(a["g"])
    if k == "lowb":
        return assertion_representable(a["a"]) and operand_representable(a["g"])
    if k == "grb":
        return assertion_representable(a["a"]) and operand_representable(a["l"])
    return False


def recipe_representable(r):
    k = r["k"]
    if k == "lit":
        return True
    if k == "cmp":
        return operand_representable(r["l"]) and operand_representable(r["r"])
    if k == "native":
        return operand_representable(r["y"]) and operand_representable(r["z"])
    return recipe_representable(r["first"]) and operand_representable(r["other"])


def coq_assert(a):
    k = a["k"]
    if k == "lit":
        return "(ALit %s)" % cbool(a["v"])
    if k == "and":
        return "(AAnd %s %s)" % (coq_assert(a["a"]), coq_assert(a["b"]))
    if k == "lowb":
        return "(ALowB %s %s %s)" % (cbool(a["strict"]), coq_assert(a["a"]), MG.coq_node(a["g"]))
    if k == "grb":
        return "(AGrB %s %s %s)" % (cbool(a["strict"]), MG.coq_node(a["l"]), coq_assert(a["a"]))
    return "(%s %s %s)" % ("ALt" if k == "lt" else "ALe", MG.coq_node(a["l"]), MG.coq_node(a["g"]))


def coq_recipe(r):
    k = r["k"]
    if k == "lit":
        return "(RLit %s)" % cbool(r["v"])
    if k == "cmp":
        return "(RCmp %s %s %s)" % (COPS[r["op"]], MG.coq_node(r["l"]), MG.coq_node(r["r"]))
    if k == "native":
        # Python evaluates  x < y < z  as  (x < y) and (y < z); the first object is truthy, so the value is  y < z
        return "(RCmp %s %s %s)" % (COPS[r["op"]], MG.coq_node(r["y"]), MG.coq_node(r["z"]))
    return "(RChain %s %s %s)" % (coq_recipe(r["first"]), COPS[r["op"]], MG.coq_node(r["other"]))


def tree_in_model(t):
    """Shapes the Coq walk (status) covers: tuple members that are priors or constants; attributes of a Model that are
    not constructor arguments are constants; compound names printable."""
    k = t["t"]
    if k in ("prior", "const"):
        return True
    if k == "arith":
        return t["op"] in MG.OPS and tree_in_model(t["l"]) and tree_in_model(t["r"])
    if k == "unary":
        return t["op"] in MG.UNOPS and tree_in_model(t["a"])
    if k == "tuple":
        return all(c["t"] in ("prior", "const") for _, c in t["members"])
    if k == "model":
        ctor = [a for a, _, _ in MG.SIGNATURES[t["cls"]]]
        return all(tree_in_model(c) and (n in ctor or c["t"] == "const") for n, c in t["attrs"])
    if k == "coll":
        return all(tree_in_model(c) and c["t"] != "tuple" for _, c in t["attrs"])
    return False


EXC = {"KeyError": "EKey", "ZeroDivisionError": "EZero", "AttributeError": "EAttr", "TypeError": "EType"}


def coq_obs(v):
    if "ok" in v:
        return "{| o_v := VOk %s; o_fit := false |}" % MG.coq_ival(v["ok"])
    tag = {"limit": "VLimit", "assert": "VAssert", "length": "VLength"}.get(v["v"])
    if tag is None:
        if v.get("exc") not in EXC:
            return None
        tag = "(VError %s)" % EXC[v["exc"]]
    return "{| o_v := %s; o_fit := %s |}" % (tag, cbool(v.get("fit", False)))


# ----------------------------------------------------------------------------------------------
# oracle: the property statement evaluated directly on the numbers
# ----------------------------------------------------------------------------------------------

class Foreign(Exception):
    pass


def apply_op(op, a, b):
    if op == "+":
        return a + b
    if op == "-":
        return a - b
    if op == "*":
        return a * b
    if op == "/":
        return a / b           # Python float division: ZeroDivisionError for a zero divisor
    if op == "%":
        return a % b           # the sign of the divisor; ZeroDivisionError for a zero divisor
    if op == "//":
        return a // b
    raise ValueError(op)


def eval_operand(e, vec):
    t = e["t"]
    if t == "prior":
        return vec[e["ref"]]
    if t == "foreign":
        raise Foreign()
    if t == "const":
        return unhex(e["v"])
    if t == "unary":
        a = eval_operand(e["a"], vec)
        return -a if e["op"] == "neg" else abs(a)
    return apply_op(e["op"], eval_operand(e["l"], vec), eval_operand(e["r"], vec))


def cmp_values(op, x, y):
    return {"<": x < y, "<=": x <= y, ">": x > y, ">=": x >= y}[op]


def chain_ends(a, vec):
    """(lowest, greatest) operand values of a comparison / chain, as the library defines chains:
    `first < c` compares the greatest end with c, `first > c` compares the lowest end with c."""
    if a["k"] == "cmp":
        x, y = eval_operand(a["l"], vec), eval_operand(a["r"], vec)
        return (x, y) if a["op"] in ("<", "<=") else (y, x)
    lo, hi = chain_ends(a["first"], vec)
    o = eval_operand(a["other"], vec)
    return (lo, o) if a["op"] in ("<", "<=") else (o, hi)


def eval_assert(a, vec):
    """Every inequality of the assertion, evaluated on the numbers (from the program, not from the objects)."""
    k = a["k"]
    if k == "lit":
        return bool(a["v"])
    if k == "cmp":
        return cmp_values(a["op"], eval_operand(a["l"], vec), eval_operand(a["r"], vec))
    if k == "native":
        # only  y op z  reaches add_assertion (Python semantics, see MANIFEST note)
        return cmp_values(a["op"], eval_operand(a["y"], vec), eval_operand(a["z"], vec))
    lo, hi = chain_ends(a["first"], vec)
    o = eval_operand(a["other"], vec)
    this = cmp_values(a["op"], hi, o) if a["op"] in ("<", "<=") else cmp_values(a["op"], lo, o)
    return eval_assert(a["first"], vec) and this


def operand_problems(e, vec, out):
    """Exceptions evaluating an operand can raise on these numbers (every sub-expression is looked at)."""
    t = e["t"]
    if t == "foreign":
        out.add("KeyError")
        return None
    if t == "prior":
        return vec[e["ref"]]
    if t == "const":
        return unhex(e["v"])
    if t == "unary":
        a = operand_problems(e["a"], vec, out)
        return None if a is None else (-a if e["op"] == "neg" else abs(a))
    a, b = operand_problems(e["l"], vec, out), operand_problems(e["r"], vec, out)
    if a is None or b is None:
        return None
    try:
        return apply_op(e["op"], a, b)
    except ZeroDivisionError:
        out.add("ZeroDivisionError")
        return None


def assert_problems(a, vec, out):
    k = a["k"]
    if k == "cmp":
        operand_problems(a["l"], vec, out)
        operand_problems(a["r"], vec, out)
    elif k == "native":
        operand_problems(a["y"], vec, out)
        operand_problems(a["z"], vec, out)
    elif k == "chain":
        assert_problems(a["first"], vec, out)
        operand_problems(a["other"], vec, out)


def tree_problems(e, vec, out):
    t = e["t"]
    if t in ("arith", "unary", "prior", "const"):
        operand_problems(e, vec, out)
    elif t == "tuple":
        for m in e["members"]:
            tree_problems(m, vec, out)
    elif t == "model":
        for arg, _, _ in MG.SIGNATURES[e["cls"]]:
            tree_problems(e["kw"][arg], vec, out)
    elif t == "coll":
        for _, sub in MG.resolve_copies(e)["items"]:
            tree_problems(sub, vec, out)


def wrap_inst(c, inst):
    if c.get("wrap") == "list":
        return {"t": "coll", "fields": [["0", inst]]}
    if c.get("wrap") == "dict":
        return {"t": "coll", "fields": [["w", inst]]}
    return inst


def wrap_tree(c, tree):
    if c.get("wrap") == "list":
        return {"t": "coll", "attrs": [["0", tree]]}
    if c.get("wrap") == "dict":
        return {"t": "coll", "attrs": [["w", tree]]}
    return tree


def wrap_path(c, p):
    return ({"list": ["0"], "dict": ["w"]}.get(c.get("wrap")) or []) + list(p)


def expected_verdicts(c, attached, vec, lims, npool):
    """-> (strict, ignored); each is ("ok",) | ("fit",) | ("length",) | ("not-ok", {exception names}) | ("error", {names})."""
    prog = c["program"]
    if len(vec) != npool:
        return ("length",), ("length",)
    tp = set()
    tree_problems(prog["root"], vec, tp)
    ignored = ("error", tp) if tp else ("ok",)
    if not all(lo <= x <= hi for x, (lo, hi) in zip(vec, lims)):
        return ("fit", "limit"), ignored
    ap = set()
    for a in attached:
        assert_problems(a["a"], vec, ap)
    if tp or ap:
        return ("not-ok", tp | ap), ignored
    truth = all([eval_assert(a["a"], vec) for a in attached])
    return (("ok",) if truth else ("fit", "assert")), ignored


def verdict_matches(exp, got):
    if exp[0] == "ok":
        return "ok" in got
    if exp[0] == "fit":
        return got.get("v") in ("limit", "assert") and got.get("fit") is True
    if exp[0] == "length":
        return got.get("v") == "length"
    if exp[0] == "error":
        return got.get("v") == "error" and got.get("exc") in exp[1]
    if exp[0] == "not-ok":
        return (got.get("v") == "error" and got.get("exc") in exp[1]) or (got.get("v") == "assert" and got.get("fit") is True)
    return False


def show(got):
    return "ok" if "ok" in got else "%s%s%s" % (got.get("v"), ":" + got["exc"] if got.get("v") == "error" else "",
                                                 "" if got.get("fit") or got.get("v") not in ("limit", "assert") else " (NOT a FitException)")


def run(ctx):
    ctx.rule = ("C01 composition programs (uniform / gaussian priors, gaussians also with infinite limits) x 0-3 assertions attached to "
                "random levels (Model, Collection, CompoundPrior / ModifiedPrior attribute; model arithmetic + * / - neg abs; optionally the model is wrapped in a Collection or copy()-ed "
                "afterwards): simple comparisons, two- and three-link chains via (a<b)<c / (a<b)>c, operands = parameters, constants, "
                "+ * / - with constants on either side, unary minus / abs, parameters foreign to the model, zero divisors, literal "
                "True/False, Python-native a<b<c; x vectors inside / exactly on / just outside / far outside limits, and for one parameter at a time exactly on, one float step "
                "inside / outside, 5e-15 and 1e-13 outside a limit (limits of magnitude < 4 and shifted by 1024 / -4096 / 2^20), NaN, +-inf, "
                "too short / too long, as list and numpy array; unit vectors and random instances for the oracle. Non-trivial: a value "
                "on/outside a limit (or NaN/inf), or all values inside and at least one assertion evaluated. "
                "Distinct = distinct (program, assertions, wrap, vector).")
    ctx.trusted = [
        "Coq 8.16.1 kernel incl. vm_compute; primitive floats",
        "harness abstraction of live model / operand / assertion objects (raw __dict__ walks; two-sided: operands and tree compared with what the program denotes)",
        "exception classes mapped to {limit, assert, length, error:<class name>} + isinstance(e, exc.FitException)",
    ]
    ctx.assumptions = [
        "theorems carry explicit guards: the instance is constructible on the vector (no division by zero in the model's own arithmetic) and "
        "every assertion is defined (operands are parameters of the model, no division by zero); outside the guards the code raises "
        "ZeroDivisionError / KeyError instead of the fit exception (modelled as VError, refuted witnesses in Witness.v, expected exactly by the oracle)",
        "every assertion sits on a level (Model, Collection, CompoundPrior) reachable from the root by attribute names (levels_wf)",
        "operands of assertions carry no assertions of their own; tuple members are priors or constants",
        "out of scope: instance_from_path_arguments / instance_from_prior_name_arguments (not vector routes: they skip limits and the ROOT "
        "level's assertions but check child levels -- modelled as run_paths, measured in distribution['paths-route'], no verdict)",
        "out of scope: Python's native chained comparison a < b < c (Python itself reduces it to the last link before the library sees it; "
        "generated, expected to behave as the last link only)",
        "not generated: a comparison of two bare floats inside a chain, e.g. (p < 0.5) < 2.0 (Python stores a bool in the CompoundAssertion, "
        "which raises AttributeError when evaluated; modelled as Err EAttr, Witness.and_of_literal_unsupported)",
        "subtraction (a + (-b)), unary minus, abs: in operands, model attributes and levels, inside the Coq correspondence (NUn)",
        "exception_override config switch is off; jax is off",
    ]
    built = ctx.build()
    n = 110 if ctx.tier == "quick" else 700
    cases = gen_cases(ctx, n)
    pins = {}
    for sig, path in REPAIRED.items():
        corpus = json.load(open(os.path.join(common.VERIF, path)))
        pins[sig] = [dict(pc, pin=sig) for pc in corpus["cases"]]
    if ctx.replay:
        rp = json.load(open(ctx.replay))
        if rp.get("case"):
            cases = [rp["case"]]
    else:
        cases = [pc for sig in sorted(pins) for pc in pins[sig]] + cases      # pinned cases of repaired findings run first
    chunks = [ch for ch in (cases[i::common.NCPU] for i in range(common.NCPU)) if ch]
    outs = common.run_impl_parallel("c03_impl", [{"cases": ch} for ch in chunks], timeout=1200)
    results = [None] * len(cases)
    for ci, o in enumerate(outs):
        if "__error__" in o:
            ctx.obligation("impl-driver", "harness", False, o["__error__"][-800:])
            return
        for j, r in enumerate(o["results"]):
            results[ci + j * common.NCPU] = r
    coq_cases, coq_ref = [], []
    for i, (c, r) in enumerate(zip(cases, results)):
        prog = c["program"]
        npool = len(prog["pool"])
        if "exc" in r:
            ctx.count_case(c, True)
            ctx.failure("oracle", "building the model or its assertions raised %s: %s" % (r["exc"], r.get("msg", "")[-300:]), c)
            continue
        r = r["ok"]
        classes = []          # no known finding is left: nothing is suppressed
        # ---- two-sided: the live objects are what the program denotes
        problems = []
        if not MG.same_tree(wrap_tree(c, MG.expected_tree(prog["root"])), r["tree"]):
            problems.append("model tree")
        attached = []          # program assertions that reached a level
        exp_levels = {}
        for a, at in zip(c["asserts"], r["attaches"]):
            links = chain_links(a["a"])
            if at["built"] is None:
                problems.append("comparison raised TypeError: %s" % at.get("msg"))
                continue
            if not same_recipe(a["a"], at["recipe"], npool):
                problems.append("operands")
            eb, ee = expected_built(a["a"], npool)
            if eb is not None and not same_assert(eb, at["built"]):
                problems.append("assertion object")
            if ee is not None and (at.get("ends") is None or not (same_operand(ee[0], at["ends"][0]) and same_operand(ee[1], at["ends"][1]))):
                problems.append("remembered ends of the chain")
            ctx.hist("assertion-shape", {"lit": "literal", "native": "python-native-chain"}.get(a["a"]["k"], "%d-link" % links))
            if a["a"].get("vars"):
                ctx.hist("operand-variable-names", "%s %s" % (tuple(a["a"]["vars"]), "colliding" if colliding_names(a["a"]["vars"]) else "harmless"))
            if a["a"]["k"] == "lit" and a["a"]["v"]:
                continue       # add_assertion(True) is dropped
            attached.append(a)
            exp_levels.setdefault(tuple(wrap_path(c, a["level"])), []).append(at["built"])
            lk = is_arith_level(prog["root"], a["level"])
            ctx.hist("level-kind", "compound-prior" if lk == "arith" else ("modified-prior (unary)" if lk == "unary" else
                     ("root" if not a["level"] else "depth-%d" % len(a["level"]))))
        got_levels = {tuple(l["path"]): l["asserts"] for l in r["levels"]}
        if exp_levels != got_levels:
            problems.append("levels")
        lims = [(unhex(s["lo"]), unhex(s["hi"])) for s in prog["pool"]]
        if [None if x is None else (unhex(x[0]), unhex(x[1])) for x in r["limits"]] != lims:
            problems.append("limits")
        if problems:
            ctx.count_case(c, True)
            ctx.failure("correspondence", "the composition/assertion API built different objects than the program denotes (%s)" % ", ".join(problems),
                        c, classes=classes, impl={"attaches": r["attaches"], "levels": r["levels"], "limits": r["limits"]},
                        broken={"kind": "correspondence", "name": "two-sided abstraction"})
            continue
        ctx.hist("wrap", c.get("wrap") or "none")
        in_model = MG.tree_ok_for_model(r["tree"]) and tree_in_model(r["tree"]) \
            and all(recipe_representable(at["recipe"]) and (at["built"] is None or assertion_representable(at["built"]))
                    and all(operand_representable(x) for x in (at.get("ends") or [])) for at in r["attaches"]) \
            and all(assertion_representable(x) for l in r["levels"] for x in l["asserts"])
        for vi, (v, run_) in enumerate(zip(c["vectors"], r["runs"])):
            vec = [unhex(x) for x in v]
            key = {"program": prog, "asserts": c["asserts"], "wrap": c.get("wrap"), "vec": v}
            on_edge = any(not (lo < x < hi) for x, (lo, hi) in zip(vec, lims))
            inside = len(vec) == npool and all(lo <= x <= hi for x, (lo, hi) in zip(vec, lims))
            ctx.count_case(key, on_edge or (inside and bool(attached)))
            ctx.hist("non-trivial-by", "assertion-evaluated" if (inside and attached) else ("limit-only" if on_edge else "trivial"))
            ctx.oracle["cases"] += 1
            exp_s, exp_i = expected_verdicts(c, attached, vec, lims, npool)
            ctx.hist("expected-verdict", exp_s[0] + (":" + exp_s[1] if exp_s[0] == "fit" else ""))
            if exp_s[0] in ("ok", "fit") and inside and attached:
                truths = [eval_assert(a["a"], vec) for a in attached]
                if truths.count(False) == 1:
                    ctx.hist("decisive", "exactly-one-assertion-false")
                    bad = attached[truths.index(False)]["a"]
                    if bad["k"] == "chain" and eval_assert(bad["first"], vec):
                        ctx.hist("decisive", "chain-fails-on-last-link-only")
                for a in attached:
                    if a["a"]["k"] == "cmp" and a["a"]["l"] != a["a"]["r"] and eval_operand(a["a"]["l"], vec) == eval_operand(a["a"]["r"], vec):
                        ctx.hist("decisive", "equality-hit-distinct-operands")
            s, ig = run_["strict"], run_["ignored"]
            msg = None
            if not verdict_matches(exp_s, s):
                msg = "instance_from_vector verdict %s, but evaluating limits/assertions on the numbers gives %s" % (show(s), exp_s)
            elif exp_s[0] == "ok" and not C01.same_inst(wrap_inst(c, C01.expected_instance(prog["root"], vec)), s["ok"]):
                msg = "accepted vector produced a different instance than the composition denotes"
            elif not verdict_matches(exp_i, ig):
                msg = "ignore_prior_limits=True gave %s, expected %s" % (show(ig), exp_i)
            elif exp_i[0] == "ok" and not C01.same_inst(wrap_inst(c, C01.expected_instance(prog["root"], vec)), ig["ok"]):
                msg = "ignore_prior_limits=True produced a different instance than the composition denotes"
            elif "numpy" in run_ and exp_s[0] in ("ok", "fit", "length") and (
                    show(run_["numpy"]) != show(s) or ("ok" in s and not C01.same_inst(s["ok"], run_["numpy"]["ok"]))):
                # (where an operand divides by zero numpy floats give inf/nan instead of ZeroDivisionError: outside the guards)
                msg = "a numpy vector gives %s, the same list gives %s" % (show(run_["numpy"]), show(s))
            if msg:
                ctx.oracle["failures"] += 1
                ctx.failure("oracle", msg, dict(c, vectors=[v], units=[], n_random=0), classes=classes, impl=run_)
            if "paths" in run_:
                p = run_["paths"]
                ctx.hist("paths-route", "same verdict as the vector route" if show(p) == show(s) else
                         "vector route %s, path-argument route %s" % (show(s), show(p)))
            obs = [coq_obs(s), coq_obs(ig), coq_obs(run_["paths"]) if "paths" in run_ else "None"]
            if not in_model:
                ctx.hist("correspondence", "dropped: shape outside the Coq tree (compound names, tuple members that are arithmetic)")
            elif None in obs:
                ctx.hist("correspondence", "dropped: exception class outside the enum")
            else:
                ctx.hist("correspondence", "compared")
                if vi == 0:
                    for f_ in sorted(C01.tree_features(r["tree"])):
                        ctx.hist("correspondence:unary-in-model-tree", f_)
                    ops_ = json.dumps([at["recipe"] for at in r["attaches"]])
                    ctx.hist("correspondence:unary-in-assertion-operands",
                             "neg/abs operand" if '"t": "unary"' in ops_ else ("no unary operand" if r["attaches"] else "no assertion"))
                    for o_ in ("%", "//"):
                        if '"op": "%s"' % o_ in ops_:
                            ctx.hist("correspondence:unary-in-assertion-operands", "operand with %s" % o_)
                    for a_ in attached:
                        if is_arith_level(prog["root"], a_["level"]) == "unary":
                            ctx.hist("correspondence:unary-in-model-tree", "assertion attached to a ModifiedPrior level")
                atts = []
                for a, at in zip(c["asserts"], r["attaches"]):
                    atts.append("{| at_level := %s; at_recipe := %s; at_built := %s; at_ends := %s |}" % (
                        MG.coq_path(wrap_path(c, a["level"])), coq_recipe(at["recipe"]),
                        "None" if at["built"] is None else "(Some %s)" % coq_assert(at["built"]),
                        "None" if not at.get("ends") else "(Some (%s, %s))" % (MG.coq_node(at["ends"][0]), MG.coq_node(at["ends"][1]))))
                coq_cases.append("{| c_tree := %s; c_lims := %s; c_attach := %s; c_levels := %s; c_vec := %s; c_strict := %s; "
                                 "c_ignored := %s; c_paths := %s |}" % (
                                     MG.coq_node(r["tree"]),
                                     clist(["(%s, (%s, %s))" % (cnat(q), cfloat(lo), cfloat(hi)) for q, (lo, hi) in enumerate(lims)]),
                                     clist(atts),
                                     clist([cpair(MG.coq_path(l["path"]), clist([coq_assert(x) for x in l["asserts"]])) for l in r["levels"]]),
                                     clist([cfloat(x) for x in vec]), obs[0], obs[1],
                                     obs[2] if obs[2] == "None" else "(Some %s)" % obs[2]))
                coq_ref.append((i, vi))
        # unit-vector route: same verdict as pushing the unit vector through the priors
        for u, ur in zip(c["units"], r["unit_runs"]):
            ctx.oracle["cases"] += 1
            if ur["vec"] is None:
                continue
            vec = [unhex(x) for x in ur["vec"]]
            _, exp_i = expected_verdicts(c, attached, vec, lims, npool)
            # the strict route is judged on the values the strict route itself maps the unit vector to (value_for may round
            # differently when limits are ignored); where that mapping already raises the limit exception, so must the route
            if ur.get("vec_strict") is not None:
                exp_s, _ = expected_verdicts(c, attached, [unhex(x) for x in ur["vec_strict"]], lims, npool)
            elif (ur.get("vec_strict_verdict") or {}).get("v") == "limit" and ur["vec_strict_verdict"].get("fit"):
                exp_s = ("fit", "limit")
                ctx.hist("unit-route", "value_for raised the limit exception")
            else:
                ctx.oracle["failures"] += 1
                ctx.failure("oracle", "vector_from_unit_vector raised %s" % show(ur.get("vec_strict_verdict") or {}),
                            dict(c, vectors=[], units=[u], n_random=0), classes=classes, impl=ur)
                continue
            s = ur["strict"]
            if exp_s[0] == "not-ok" or exp_i[0] == "error":
                # outside the guards: the priors hand out numpy floats, whose division by zero gives inf/nan instead of raising
                ctx.hist("unit-route", "skipped: division by zero on these values")
                continue
            ctx.hist("unit-route", "compared")
            if not verdict_matches(exp_s, s):
                ctx.oracle["failures"] += 1
                ctx.failure("oracle", "instance_from_unit_vector verdict %s, expected %s" % (show(s), exp_s),
                            dict(c, vectors=[], units=[u], n_random=0), classes=classes, impl=ur)
            elif not verdict_matches(exp_i, ur["ignored"]):
                ctx.oracle["failures"] += 1
                ctx.failure("oracle", "instance_from_unit_vector(ignore_prior_limits=True) gave %s, expected %s" % (show(ur["ignored"]), exp_i),
                            dict(c, vectors=[], units=[u]), classes=classes, impl=ur)
        # random instances: whatever is returned satisfies limits and assertions
        for rr in r["random"]:
            ctx.oracle["cases"] += 1
            if "ok" in rr:
                # recover the drawn values through the advertised paths and evaluate the property on them
                drawn = {}
                for pid, pth in zip(r["ids"], r["upaths"]):
                    got = C01.navigate(rr["ok"], pth)
                    if got is not None and got["t"] == "v":
                        drawn[pid] = unhex(got["v"])
                bad = [pid for pid, v in drawn.items() if not (lims[pid][0] <= v <= lims[pid][1])]
                msg = None
                if bad:
                    msg = "random_instance returned a value outside the limits of parameter %d" % bad[0]
                elif len(drawn) == npool:
                    vec = [drawn[k] for k in range(npool)]
                    exp_s, _ = expected_verdicts(c, attached, vec, lims, npool)
                    if exp_s[0] not in ("ok", "not-ok"):     # (not-ok: outside the guards, numpy floats do not raise)
                        msg = "random_instance returned an instance although the numbers give %s" % (exp_s,)
                ctx.hist("random-instance", "checked-%d-of-%d-values" % (len(drawn), npool) if len(drawn) < npool else "checked-all-values")
                if msg:
                    ctx.oracle["failures"] += 1
                    ctx.failure("oracle", msg, dict(c, vectors=[], units=[]), classes=classes, impl=rr)
            elif not (rr["v"] in ("assert", "limit") and rr.get("fit")) and not (
                    rr["v"] == "error" and rr.get("exc") in ("KeyError", "ZeroDivisionError")
                    and (c.get("n_foreign") or any(o_ in json.dumps(c["asserts"]) + json.dumps(prog["root"]) for o_ in ('"/"', '"%"', '"//"')))):
                ctx.oracle["failures"] += 1
                ctx.failure("oracle", "random_instance raised %s" % show(rr), dict(c, vectors=[], units=[]), classes=classes, impl=rr)
        if i % 25 == 0:
            ctx.sample({"asserts": c["asserts"], "wrap": c.get("wrap"), "n_priors": npool, "verdicts": [show(x["strict"]) for x in r["runs"]]})
    if os.path.exists(os.path.join(common.COQ, "C03", "Model.vo")):
        hdr = ctx.header(["Common.PyFloat", "Model"]).replace("From PAFC03 Require Import Model.",
                                                              "From PAFC01 Require Import ModelTree.\nFrom PAFC03 Require Import Model.")
        bad, log = ctx.eval_cases(hdr, "case", "check_case", coq_cases, shard=60)
        for b in (bad or [])[:5]:
            i, vi = coq_ref[b]
            c = cases[i]
            ctx.failure("correspondence", "Coq level-by-level model and implementation disagree (operators / add_assertion / verdict / instance)",
                        dict(c, vectors=[c["vectors"][vi]], units=[], n_random=0), impl=results[i]["ok"]["runs"][vi],
                        broken={"kind": "correspondence", "name": "C03.check_case"}, found_input=False)
    else:
        ctx.obligation("correspondence:cases", "correspondence", False, "Model.vo not built")
    # repaired findings must stay repaired: the pinned cases pass oracle and correspondence and give the pinned verdicts
    for sig in sorted(pins):
        if ctx.replay:
            ctx.obligation("regression:" + sig, "regression", True, "not evaluated in a replay run")
            continue
        bad = ["violation: " + v["what"][:120] for v in ctx.violations if v.get("case") and v["case"].get("pin") == sig]
        n = 0
        for c, r in zip(cases, results):
            if c.get("pin") != sig:
                continue
            got = [show(x["strict"]) for x in r["ok"]["runs"]] if "ok" in r else ["driver: " + r.get("exc", "?")]
            n += len(got)
            if got != c["expect"]:
                bad.append("verdicts %s, pinned %s" % (got, c["expect"]))
        ctx.obligation("regression:" + sig, "regression", not bad and n > 0,
                       "; ".join(bad)[:600] if bad else "%d pinned vectors of %s keep their verdicts" % (n, REPAIRED[sig]))
