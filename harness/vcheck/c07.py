"""C07 -- fit identifier is a stable, sensitive function of what is fitted (DESIGN.md section 5, C07).

Part 1 of this file is the translator that regenerates coq/C07/Gen.v from
autofit/mapper/identifier.py on every run (fail closed):
  * the module constant RESOLUTION (a float literal),
  * the rounding formula assigned to `value` in Identifier._add_value_to_hash_list
    (`RESOLUTION * round(value / RESOLUTION)`), through the shared leaf translator,
  * the data of the dictionary-key filter of the walk: the prefix given to
    `key.startswith(...)` and the tuple of names in `key in (...)`,
  * the separator literal of the join in Identifier.__str__.
Anything that does not have exactly the expected shape raises TranslationError.
"""
import ast
import os

from . import common
from . import pyexpr2coq as T

IDENT = "autofit/mapper/identifier.py"


def _coq_string(s):
    if not all(32 <= ord(c) < 127 for c in s):
        raise T.TranslationError("non-ascii literal %r" % s)
    return '"%s"%%string' % s.replace('"', '""')


def _module_constant(tree, name):
    hits = [n for n in tree.body if isinstance(n, ast.Assign) and len(n.targets) == 1
            and isinstance(n.targets[0], ast.Name) and n.targets[0].id == name]
    if len(hits) != 1:
        raise T.TranslationError("expected exactly one module-level assignment to %s" % name)
    v = hits[0].value
    if not (isinstance(v, ast.Constant) and isinstance(v.value, float)):
        raise T.TranslationError("%s is not a float literal" % name)
    return v.value, hits[0].lineno


def _key_filter(fn):
    """`if not (key.startswith("_") or key in ("id", "paths")):` inside the dict branch."""
    starts = [n for n in ast.walk(fn) if isinstance(n, ast.Call) and isinstance(n.func, ast.Attribute)
              and n.func.attr == "startswith" and T._dotted(n.func.value) == "key"]
    if len(starts) != 1 or len(starts[0].args) != 1 or not isinstance(starts[0].args[0], ast.Constant) \
            or not isinstance(starts[0].args[0].value, str) or len(starts[0].args[0].value) != 1:
        raise T.TranslationError("expected exactly one key.startswith(<one-character literal>)")
    ins = [n for n in ast.walk(fn) if isinstance(n, ast.Compare) and T._dotted(n.left) == "key"
           and len(n.ops) == 1 and isinstance(n.ops[0], ast.In)]
    if len(ins) != 1 or not isinstance(ins[0].comparators[0], ast.Tuple):
        raise T.TranslationError("expected exactly one `key in (<names>)` test")
    names = []
    for e in ins[0].comparators[0].elts:
        if not (isinstance(e, ast.Constant) and isinstance(e.value, str)):
            raise T.TranslationError("skip tuple holds a non-string")
        names.append(e.value)
    # the enclosing test must be `not (A or B)` guarding the append of the key
    guards = [n for n in ast.walk(fn) if isinstance(n, ast.If) and isinstance(n.test, ast.UnaryOp)
              and isinstance(n.test.op, ast.Not) and isinstance(n.test.operand, ast.BoolOp)
              and isinstance(n.test.operand.op, ast.Or) and len(n.test.operand.values) == 2
              and n.test.operand.values[0] is starts[0] and n.test.operand.values[1] is ins[0]]
    if len(guards) != 1 or guards[0].orelse:
        raise T.TranslationError("key filter is not `if not (key.startswith(..) or key in (..)):` without else")
    return starts[0].args[0].value, names, guards[0].lineno


def _separator(fn):
    joins = [n for n in ast.walk(fn) if isinstance(n, ast.Call) and isinstance(n.func, ast.Attribute)
             and n.func.attr == "join" and isinstance(n.func.value, ast.Constant)]
    if len(joins) != 1 or not isinstance(joins[0].func.value.value, str) or len(joins[0].args) != 1 \
            or T._dotted(joins[0].args[0]) != "self.hash_list":
        raise T.TranslationError("__str__ does not join self.hash_list with a literal separator")
    return joins[0].func.value.value, joins[0].lineno


def regenerate(repo=None):
    repo = repo or common.REPO
    tree, src = T.parse_file(repo, IDENT)
    res, res_line = _module_constant(tree, "RESOLUTION")
    spec = T.Spec("round8", IDENT, "Identifier._add_value_to_hash_list",
                  lambda f: T.assigns(f, "value")[0], [("RESOLUTION", "float"), ("value", "float")], "float")
    cache = {IDENT: (tree, src)}
    fn = T.find_function(tree, "Identifier._add_value_to_hash_list")
    if len(T.assigns(fn, "value")) != 1:
        raise T.TranslationError("expected exactly one assignment to `value` in _add_value_to_hash_list")
    info = T.translate_spec(repo, spec, cache)
    # the assignment must sit in a try whose only handler is `except OverflowError: pass`
    tries = [n for n in ast.walk(fn) if isinstance(n, ast.Try) and any(a is T.assigns(fn, "value")[0] for a in n.body)]
    if len(tries) != 1 or len(tries[0].handlers) != 1 or T._dotted(tries[0].handlers[0].type) != "OverflowError" \
            or not all(isinstance(b, ast.Pass) for b in tries[0].handlers[0].body) or tries[0].finalbody or tries[0].orelse:
        raise T.TranslationError("rounding is not wrapped in `try: ... except OverflowError: pass`")
    prefix, names, kf_line = _key_filter(fn)
    sep, sep_line = _separator(T.find_function(tree, "Identifier.__str__"))
    h = res.hex()
    lines = [
        "(* GENERATED by harness/vcheck/c07.py from %s -- do not edit. *)" % IDENT,
        "From Coq Require Import ZArith QArith Qabs Bool List String Ascii.",
        "From Coq Require Import Floats.PrimFloat.",
        "From PAFCommon Require Import PyFloat PyNum.",
        "Import ListNotations.",
        "",
        "(* %s line %d:  RESOLUTION = %r *)" % (IDENT, res_line, res),
        "Definition resolution_F : float := %s%%float." % h,
        "Definition resolution_Q : Q := %s." % common.cQ(res),
        "",
        "(* %s:Identifier._add_value_to_hash_list line %d\n     %s *)" % (IDENT, info["line"], info["source"]),
        info["defs"]["F"],
        info["defs"]["Q"],
        "",
        "(* %s line %d: dictionary keys that the walk does not descend into *)" % (IDENT, kf_line),
        'Definition skip_prefix : ascii := "%s"%%char.' % prefix,
        "Definition skip_names : list string := [%s]." % "; ".join(_coq_string(n) for n in names),
        "",
        "(* %s line %d: separator of the join in Identifier.__str__ *)" % (IDENT, sep_line),
        "Definition join_sep : string := %s." % _coq_string(sep),
        "",
    ]
    text = "\n".join(lines)
    out = os.path.join(common.COQ, "C07", "Gen.v")
    os.makedirs(os.path.dirname(out), exist_ok=True)
    old = open(out).read() if os.path.exists(out) else None
    if old != text:
        with open(out, "w") as f:
            f.write(text)
    return {
        "RESOLUTION": {"source": repr(res), "line": res_line},
        "round8": {"source": info["source"], "line": info["line"]},
        "key_filter": {"source": "startswith(%r) or in %r" % (prefix, tuple(names)), "line": kf_line},
        "join_sep": {"source": repr(sep), "line": sep_line},
    }
