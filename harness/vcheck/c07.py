"""C07 -- fit identifier is a stable, sensitive function of what is fitted (DESIGN.md section 5, C07).

Part 1 of this file is the translator that regenerates coq/C07/Gen.v from
autofit/mapper/identifier.py on every run (fail closed):
  * the module constant RESOLUTION (a float literal),
  * the rounding formula assigned to `value` in Identifier._add_value_to_hash_list
    (`RESOLUTION * round(value / RESOLUTION)`), through the shared leaf translator,
  * the data of the dictionary-key filter of the walk: the prefix given to
    `key.startswith(...)` and the tuple of names in `key in (...)`,
  * the separator literal of the join in Identifier.__str__.
Anything that does not have exactly the expected shape raises TranslationError.
"""
import ast
import os

from . import common
from . import pyexpr2coq as T

IDENT = "autofit/mapper/identifier.py"


def _coq_string(s):
    if not all(32 <= ord(c) < 127 for c in s):
        raise T.TranslationError("non-ascii literal %r" % s)
    return '"%s"%%string' % s.replace('"', '""')


def _module_constant(tree, name):
    hits = [n for n in tree.body if isinstance(n, ast.Assign) and len(n.targets) == 1
            and isinstance(n.targets[0], ast.Name) and n.targets[0].id == name]
    if len(hits) != 1:
        raise T.TranslationError("expected exactly one module-level assignment to %s" % name)
    v = hits[0].value
    if not (isinstance(v, ast.Constant) and isinstance(v.value, float)):
        raise T.TranslationError("%s is not a float literal" % name)
    return v.value, hits[0].lineno


def _key_filter(fn):
    """`if not (key.startswith("_") or key in ("id", "paths")):` inside the dict branch."""
    starts = [n for n in ast.walk(fn) if isinstance(n, ast.Call) and isinstance(n.func, ast.Attribute)
              and n.func.attr == "startswith" and T._dotted(n.func.value) == "key"]
    if len(starts) != 1 or len(starts[0].args) != 1 or not isinstance(starts[0].args[0], ast.Constant) \
            or not isinstance(starts[0].args[0].value, str) or len(starts[0].args[0].value) != 1:
        raise T.TranslationError("expected exactly one key.startswith(<one-character literal>)")
    ins = [n for n in ast.walk(fn) if isinstance(n, ast.Compare) and T._dotted(n.left) == "key"
           and len(n.ops) == 1 and isinstance(n.ops[0], ast.In)]
    if len(ins) != 1 or not isinstance(ins[0].comparators[0], ast.Tuple):
        raise T.TranslationError("expected exactly one `key in (<names>)` test")
    names = []
    for e in ins[0].comparators[0].elts:
        if not (isinstance(e, ast.Constant) and isinstance(e.value, str)):
            raise T.TranslationError("skip tuple holds a non-string")
        names.append(e.value)
    # the enclosing test must be `not (A or B)` guarding the append of the key
    guards = [n for n in ast.walk(fn) if isinstance(n, ast.If) and isinstance(n.test, ast.UnaryOp)
              and isinstance(n.test.op, ast.Not) and isinstance(n.test.operand, ast.BoolOp)
              and isinstance(n.test.operand.op, ast.Or) and len(n.test.operand.values) == 2
              and n.test.operand.values[0] is starts[0] and n.test.operand.values[1] is ins[0]]
    if len(guards) != 1 or guards[0].orelse:
        raise T.TranslationError("key filter is not `if not (key.startswith(..) or key in (..)):` without else")
    return starts[0].args[0].value, names, guards[0].lineno


def _separator(fn):
    joins = [n for n in ast.walk(fn) if isinstance(n, ast.Call) and isinstance(n.func, ast.Attribute)
             and n.func.attr == "join" and isinstance(n.func.value, ast.Constant)]
    if len(joins) != 1 or not isinstance(joins[0].func.value.value, str) or len(joins[0].args) != 1 \
            or T._dotted(joins[0].args[0]) != "self.hash_list":
        raise T.TranslationError("__str__ does not join self.hash_list with a literal separator")
    return joins[0].func.value.value, joins[0].lineno


COMPOUND = "autofit/mapper/prior/arithmetic/compound.py"
MODEL_OBJECT = "autofit/mapper/model_object.py"
LOG_GAUSSIAN = "autofit/mapper/prior/log_gaussian.py"
COLLECTION = "autofit/mapper/prior_model/collection.py"
TUPLE_PRIOR = "autofit/mapper/prior/tuple_prior.py"
DRAWER = "autofit/non_linear/search/mle/drawer/search.py"
ABSTRACT_SEARCH = "autofit/non_linear/search/abstract_search.py"


def _class(tree, name):
    hits = [n for n in tree.body if isinstance(n, ast.ClassDef) and n.name == name]
    if len(hits) != 1:
        raise T.TranslationError("expected exactly one class %s" % name)
    return hits[0]


def _identifier_fields(cls):
    """__identifier_fields__ declared in the class body: tuple of names, or None when absent"""
    hits = [n for n in cls.body if isinstance(n, ast.Assign) and len(n.targets) == 1
            and isinstance(n.targets[0], ast.Name) and n.targets[0].id == "__identifier_fields__"]
    if not hits:
        return None
    if len(hits) != 1 or not isinstance(hits[0].value, ast.Tuple) or not all(
            isinstance(e, ast.Constant) and isinstance(e.value, str) for e in hits[0].value.elts):
        raise T.TranslationError("__identifier_fields__ of %s is not a literal tuple of names" % cls.name)
    return [e.value for e in hits[0].value.elts]


def _facts(repo):
    """facts about neighbouring code that the model depends on (they change when a recorded defect is repaired)"""
    ctree, _ = T.parse_file(repo, COMPOUND)
    compound = _identifier_fields(_class(ctree, "CompoundPrior"))
    modified = _identifier_fields(_class(ctree, "ModifiedPrior"))
    mtree, _ = T.parse_file(repo, MODEL_OBJECT)
    fd = T.find_function(mtree, "ModelObject.from_dict")
    restores = [n for n in ast.walk(fd) if isinstance(n, ast.Assign) and len(n.targets) == 1
                and T._dotted(n.targets[0]) == "instance.item_number"]
    if len(restores) > 1:
        raise T.TranslationError("more than one assignment to instance.item_number in ModelObject.from_dict")
    ltree, _ = T.parse_file(repo, LOG_GAUSSIAN)
    lg = _class(ltree, "LogGaussianPrior")
    has_dict = any(isinstance(n, ast.FunctionDef) and n.name == "dict" for n in lg.body)
    # Drawer.__init__ hands `number_of_cores=...` AND **kwargs to the base class: a search.json (which lists
    # number_of_cores) can be read back only if the key is removed from kwargs first
    dtree, _ = T.parse_file(repo, DRAWER)
    init = T.find_function(dtree, "Drawer.__init__")
    supers = [n for n in ast.walk(init) if isinstance(n, ast.Call) and isinstance(n.func, ast.Attribute)
              and n.func.attr == "__init__" and isinstance(n.func.value, ast.Call) and T._dotted(n.func.value.func) == "super"]
    if len(supers) != 1:
        raise T.TranslationError("Drawer.__init__ does not call super().__init__ exactly once")
    passes = any(k.arg == "number_of_cores" for k in supers[0].keywords)
    star = any(k.arg is None for k in supers[0].keywords)
    pops = any(isinstance(n, ast.Call) and T._dotted(n.func) == "kwargs.pop" and n.args
               and isinstance(n.args[0], ast.Constant) and n.args[0].value == "number_of_cores" for n in ast.walk(init))
    drawer_ok = not (passes and star) or pops
    # NonLinearSearch.fit: the tag handed to the paths object is the search's tag, unconditionally
    atree, _ = T.parse_file(repo, ABSTRACT_SEARCH)
    fit = T.find_function(atree, "NonLinearSearch.fit")
    tags = T.assigns(fit, "self.paths.unique_tag")
    if len(tags) != 1:
        raise T.TranslationError("NonLinearSearch.fit does not assign self.paths.unique_tag exactly once")
    if T._dotted(tags[0].value) != "self.unique_tag":
        raise T.TranslationError("NonLinearSearch.fit assigns self.paths.unique_tag something other than self.unique_tag: %s"
                                 % ast.unparse(tags[0].value))
    models = T.assigns(fit, "self.paths.model")
    if len(models) != 1 or T._dotted(models[0].value) != "model":
        raise T.TranslationError("NonLinearSearch.fit does not assign self.paths.model = model exactly once")
    # ModifiedPrior (-x, abs x) can be stored: its dict() serialises any ModelObject operand (a bare prior too) and
    # "modified" dictionaries are parsed by ModelObject.from_dict
    mdict = T.find_function(ctree, "ModifiedPrior.dict")
    tests = [n.test for n in ast.walk(mdict) if isinstance(n, ast.IfExp)]
    if len(tests) != 1 or not (isinstance(tests[0], ast.Call) and T._dotted(tests[0].func) == "isinstance"
                               and T._dotted(tests[0].args[0]) == "self.prior"):
        raise T.TranslationError("ModifiedPrior.dict does not choose by isinstance(self.prior, ...)")
    operand_cls = T._dotted(tests[0].args[1])
    if operand_cls not in ("AbstractPriorModel", "ModelObject"):
        raise T.TranslationError("ModifiedPrior.dict tests an unknown operand class %s" % operand_cls)
    itree, _ = T.parse_file(repo, "autofit/__init__.py")
    registered = [e.value for n in ast.walk(itree) if isinstance(n, ast.For) and isinstance(n.iter, ast.Tuple)
                  and any(isinstance(c, ast.Call) and T._dotted(c.func) == "register_parser" for c in ast.walk(n))
                  for e in n.iter.elts if isinstance(e, ast.Constant)]
    # Collection.gaussian_prior_model_for_arguments (the LAST definition in the class body is the effective one): the new
    # collection is filled by key and then takes over item_number (a token of the description) from its source
    coltree, _ = T.parse_file(repo, COLLECTION)
    defs = [n for n in _class(coltree, "Collection").body if isinstance(n, ast.FunctionDef)
            and n.name == "gaussian_prior_model_for_arguments"]
    if not defs:
        raise T.TranslationError("Collection defines no gaussian_prior_model_for_arguments")
    eff = defs[-1]
    news = [a for a in T.assigns(eff, "collection") if isinstance(a.value, ast.Call) and T._dotted(a.value.func) == "Collection"
            and not a.value.args and not a.value.keywords]
    if len(T.assigns(eff, "collection")) != 1 or len(news) != 1:
        raise T.TranslationError("Collection.gaussian_prior_model_for_arguments does not start from exactly one `collection = Collection()`")
    rets = [n for n in ast.walk(eff) if isinstance(n, ast.Return)]
    if len(rets) != 1 or T._dotted(rets[0].value) != "collection" or eff.body[-1] is not rets[0]:
        raise T.TranslationError("Collection.gaussian_prior_model_for_arguments does not end with the single `return collection`")
    sets = [n for n in ast.walk(eff) if isinstance(n, (ast.Assign, ast.AugAssign, ast.AnnAssign))
            and any("item_number" in ast.unparse(t) for t in (n.targets if isinstance(n, ast.Assign) else [n.target]))]
    calls = [n for n in ast.walk(eff) if isinstance(n, ast.Call) and T._dotted(n.func) in ("setattr", "collection.append", "delattr")]
    if calls:
        raise T.TranslationError("Collection.gaussian_prior_model_for_arguments uses %s: unknown effect on item_number"
                                 % ast.unparse(calls[0]))
    if not sets:
        copies_item_number = False
    elif len(sets) == 1 and isinstance(sets[0], ast.Assign) and len(sets[0].targets) == 1 and sets[0] in eff.body \
            and T._dotted(sets[0].targets[0]) == "collection.item_number" and T._dotted(sets[0].value) == "self.item_number":
        copies_item_number = True
    else:
        raise T.TranslationError("Collection.gaussian_prior_model_for_arguments sets item_number in an unknown way: %s"
                                 % "; ".join(ast.unparse(x) for x in sets))
    # TuplePrior.gaussian_tuple_prior_for_arguments: three loops (priors, fixed members, computed members) fill the new tuple
    # priors first; ONE loop over self.__dict__.items() keeps the members in their own order
    tptree, _ = T.parse_file(repo, TUPLE_PRIOR)
    gt = T.find_function(tptree, "TuplePrior.gaussian_tuple_prior_for_arguments")
    loops = [T._dotted(n.iter) or ast.unparse(n.iter) for n in gt.body if isinstance(n, ast.For)]
    if any(isinstance(n, (ast.For, ast.While, ast.ListComp, ast.DictComp, ast.GeneratorExp)) and n not in gt.body for n in ast.walk(gt)):
        raise T.TranslationError("TuplePrior.gaussian_tuple_prior_for_arguments has nested loops / comprehensions: member order unknown")
    if loops == ["self.prior_tuples", "self.instance_tuples", "self.model_tuples"]:
        tuple_keeps_order = False
    elif loops in (["self.__dict__.items()"], ["self.__dict__.keys()"], ["self.__dict__"]):
        tuple_keeps_order = True
    else:
        raise T.TranslationError("TuplePrior.gaussian_tuple_prior_for_arguments fills the new tuple in an unknown order: %r" % loops)
    global _MORE_FACTS
    _MORE_FACTS = {
        "derive_copies_item_number": copies_item_number,
        "tuple_derive_keeps_order": tuple_keeps_order,
        "modified_prior_storable": operand_cls == "ModelObject" and "modified" in registered,
        # a parameter-free Model is written as "instance" only when _instance_is_exact(model)
        "instance_only_when_exact": any(isinstance(n, ast.FunctionDef) and n.name == "_instance_is_exact" for n in mtree.body)
        and any(isinstance(n, ast.Call) and T._dotted(n.func) == "_instance_is_exact"
                for n in ast.walk(T.find_function(mtree, "ModelObject.dict"))),
    }
    return compound, modified, bool(restores), has_dict, drawer_ok


_MORE_FACTS = {}


def _coq_opt_names(names):
    return "None" if names is None else "(Some [%s])" % "; ".join(_coq_string(n) for n in names)


def regenerate(repo=None):
    repo = repo or common.REPO
    tree, src = T.parse_file(repo, IDENT)
    res, res_line = _module_constant(tree, "RESOLUTION")
    def rounding(f):
        """the assignment to `value` whose right-hand side mentions RESOLUTION"""
        hits = [a for a in T.assigns(f, "value") if any(isinstance(n, ast.Name) and n.id == "RESOLUTION" for n in ast.walk(a.value))]
        if len(hits) != 1:
            raise T.TranslationError("expected exactly one assignment `value = ... RESOLUTION ...` in _add_value_to_hash_list")
        return hits[0]
    spec = T.Spec("round8", IDENT, "Identifier._add_value_to_hash_list",
                  rounding, [("RESOLUTION", "float"), ("value", "float")], "float")
    cache = {IDENT: (tree, src)}
    fn = T.find_function(tree, "Identifier._add_value_to_hash_list")
    others = [a for a in T.assigns(fn, "value") if a is not rounding(fn)]
    # the only other assignment the model knows: `value = value.item()` (numpy scalars described as Python values)
    unwraps = [a for a in others if isinstance(a.value, ast.Call) and T._dotted(a.value.func) == "value.item" and not a.value.args]
    resorts = [a for a in others if isinstance(a.value, ast.Call) and T._dotted(a.value.func) == "sorted"
               and len(a.value.args) == 1 and T._dotted(a.value.args[0]) == "value"]
    if len(others) != len(unwraps) + len(resorts) or len(unwraps) > 1 or len(resorts) > 1:
        raise T.TranslationError("unexpected assignment to `value` in _add_value_to_hash_list")
    # sets walked in sorted order: `sorted(value, key=str)` somewhere in the walk
    sorts = [n for n in ast.walk(fn) if isinstance(n, ast.Call) and T._dotted(n.func) == "sorted"
             and any(k.arg == "key" and T._dotted(k.value) == "str" for k in n.keywords)]
    if len(sorts) > 1:
        raise T.TranslationError("more than one sorted(..., key=str) in _add_value_to_hash_list")
    info = T.translate_spec(repo, spec, cache)
    # the assignment must sit in a try whose only handler is `except OverflowError: pass`
    tries = [n for n in ast.walk(fn) if isinstance(n, ast.Try) and any(a is rounding(fn) for a in n.body)]
    if len(tries) != 1 or len(tries[0].handlers) != 1 or T._dotted(tries[0].handlers[0].type) != "OverflowError" \
            or not all(isinstance(b, ast.Pass) for b in tries[0].handlers[0].body) or tries[0].finalbody or tries[0].orelse:
        raise T.TranslationError("rounding is not wrapped in `try: ... except OverflowError: pass`")
    prefix, names, kf_line = _key_filter(fn)
    sep, sep_line = _separator(T.find_function(tree, "Identifier.__str__"))
    compound, modified, restores, has_dict, drawer_ok = _facts(repo)
    h = res.hex()
    lines = [
        "(* GENERATED by harness/vcheck/c07.py from %s -- do not edit. *)" % IDENT,
        "From Coq Require Import ZArith QArith Qabs Bool List String Ascii.",
        "From Coq Require Import Floats.PrimFloat.",
        "From PAFCommon Require Import PyFloat PyNum.",
        "Import ListNotations.",
        "",
        "(* %s line %d:  RESOLUTION = %r *)" % (IDENT, res_line, res),
        "Definition resolution_F : float := %s%%float." % h,
        "Definition resolution_Q : Q := %s." % common.cQ(res),
        "",
        "(* %s:Identifier._add_value_to_hash_list line %d\n     %s *)" % (IDENT, info["line"], info["source"]),
        info["defs"]["F"],
        info["defs"]["Q"],
        "",
        "(* %s line %d: dictionary keys that the walk does not descend into *)" % (IDENT, kf_line),
        'Definition skip_prefix : ascii := "%s"%%char.' % prefix,
        "Definition skip_names : list string := [%s]." % "; ".join(_coq_string(n) for n in names),
        "",
        "(* %s line %d: separator of the join in Identifier.__str__ *)" % (IDENT, sep_line),
        "Definition join_sep : string := %s." % _coq_string(sep),
        "",
        "(* facts about neighbouring code (%s, %s, %s) *)" % (COMPOUND, MODEL_OBJECT, LOG_GAUSSIAN),
        "(* CompoundPrior.__identifier_fields__ / ModifiedPrior.__identifier_fields__ when declared *)",
        "Definition compound_idf : option (list string) := %s." % _coq_opt_names(compound),
        "Definition modified_idf : option (list string) := %s." % _coq_opt_names(modified),
        "(* ModelObject.from_dict assigns instance.item_number *)",
        "Definition reload_restores_item_number : bool := %s." % ("true" if restores else "false"),
        "(* LogGaussianPrior defines its own dict() *)",
        "Definition log_gaussian_dict : bool := %s." % ("true" if has_dict else "false"),
        "(* %s: Drawer called with the arguments of its own search.json does not raise *)" % DRAWER,
        "Definition drawer_json_readable : bool := %s." % ("true" if drawer_ok else "false"),
        "(* %s: the walk iterates a set / frozenset as sorted(value, key=str) *)" % IDENT,
        "Definition sets_sorted : bool := %s." % ("true" if sorts else "false"),
        "(* %s:NonLinearSearch.fit: self.paths.unique_tag = self.unique_tag (anything else fails the translation) *)" % ABSTRACT_SEARCH,
        "Definition fit_tag_from_search : bool := true.",
        "(* ModifiedPrior.dict serialises every ModelObject operand and 'modified' dictionaries have a parser *)",
        "Definition modified_prior_storable : bool := %s." % ("true" if _MORE_FACTS["modified_prior_storable"] else "false"),
        "(* ModelObject.dict writes a parameter-free Model as 'instance' only when _instance_is_exact *)",
        "Definition instance_only_when_exact : bool := %s." % ("true" if _MORE_FACTS["instance_only_when_exact"] else "false"),
        "(* %s: the effective Collection.gaussian_prior_model_for_arguments ends with collection.item_number = self.item_number *)" % COLLECTION,
        "Definition derive_copies_item_number : bool := %s." % ("true" if _MORE_FACTS["derive_copies_item_number"] else "false"),
        "(* %s: TuplePrior.gaussian_tuple_prior_for_arguments sets the members in one pass in their own order (false: priors first) *)" % TUPLE_PRIOR,
        "Definition tuple_derive_keeps_order : bool := %s." % ("true" if _MORE_FACTS["tuple_derive_keeps_order"] else "false"),
        "",
    ]
    text = "\n".join(lines)
    out = os.path.join(common.COQ, "C07", "Gen.v")
    os.makedirs(os.path.dirname(out), exist_ok=True)
    old = open(out).read() if os.path.exists(out) else None
    if old != text:
        with open(out, "w") as f:
            f.write(text)
    return {
        "RESOLUTION": {"source": repr(res), "line": res_line},
        "round8": {"source": info["source"], "line": info["line"]},
        "key_filter": {"source": "startswith(%r) or in %r" % (prefix, tuple(names)), "line": kf_line},
        "join_sep": {"source": repr(sep), "line": sep_line},
        "numpy_scalars_unwrapped": bool(unwraps),
        "sets_sorted": bool(sorts),
        "facts": {"source": "numpy scalars unwrapped=%r sets sorted=%r modified prior storable=%r instance only when exact=%r derived collection copies item_number=%r derived tuple keeps member order=%r "
                            % (bool(unwraps), bool(sorts), _MORE_FACTS["modified_prior_storable"], _MORE_FACTS["instance_only_when_exact"], _MORE_FACTS["derive_copies_item_number"], _MORE_FACTS["tuple_derive_keeps_order"]) + "CompoundPrior.__identifier_fields__=%r ModifiedPrior.__identifier_fields__=%r from_dict restores "
                            "item_number=%r LogGaussianPrior.dict=%r Drawer search.json readable=%r" % (compound, modified, restores, has_dict, drawer_ok),
                  "line": 0},
    }


# =======================================================================================
# Part 2: generator, expected trees, Coq printers, oracle, run
# =======================================================================================
import copy as _copy
import json as _json
from .common import cfloat, cZ, cstr, cbool, clist, copt, cpair

CLS_MODULE = "c07_classes"
SIGNATURES = {
    "A1": [("u", "float")],
    "A2": [("a", "float"), ("b", "float")],
    "A3": [("x", "float"), ("y", "float"), ("z", "float")],
    "B3": [("x", "float"), ("y", "float"), ("z", "float")],
    "P2": [("c", "float"), ("pos", "tuple2")],
    "H2": [("inner", "any"), ("s", "float")],
    "C2": [("a", "float"), ("b", "float")],
}
PLAIN_CTOR = {"Plain": ["p", "q"], "PlainEx": ["p", "q"], "KW": [], "Renamed": ["p"]}     # getfullargspec(cls).args minus self
PLAIN_EXCL = {"Plain": None, "PlainEx": ["q"], "KW": None, "Renamed": None}
PLAIN_ARGS = {"Plain": ["p", "q"], "PlainEx": ["p", "q"], "KW": ["p"], "Renamed": ["p"]}   # keywords the harness passes
DROPPING = ("KW", "Renamed")     # classes whose constructor arguments the walk cannot see
FACTS = {"numpy_scalars_unwrapped": False, "sets_sorted": False}
BINOPS = {"+": "SumPrior", "*": "MultiplePrior", "/": "DivisionPrior", "//": "FloorDivPrior",
          "%": "ModPrior", "**": "PowerPrior"}
UNOPS = {"neg": "NegativePrior", "abs": "AbsolutePrior"}
# identifying settings of every installed search class: (field, kind)
SEARCH_FIELDS = {
    "Emcee": [("nwalkers", "int")],
    "DynestyStatic": [("nlive", "int"), ("bound", "str"), ("sample", "str"), ("bootstrap", "optint"), ("enlarge", "optfloat"),
                      ("walks", "int"), ("facc", "float"), ("slices", "int"), ("fmove", "float"), ("max_move", "int")],
    "DynestyDynamic": [("bound", "str"), ("sample", "str"), ("enlarge", "optfloat"), ("bootstrap", "optint"), ("walks", "int"),
                       ("facc", "float"), ("slices", "int"), ("fmove", "float"), ("max_move", "int")],
    "PySwarmsGlobal": [("n_particles", "int"), ("cognitive", "float"), ("social", "float"), ("inertia", "float")],
    "PySwarmsLocal": [("n_particles", "int"), ("cognitive", "float"), ("social", "float"), ("inertia", "float"),
                      ("number_of_k_neighbors", "int"), ("minkowski_p_norm", "int")],
    "BFGS": [],
    "LBFGS": [],
    "Drawer": [("total_draws", "int")],
    # classes whose samplers are not installed here: constructing, describing and (de)serialising them works
    "Zeus": [("nwalkers", "int"), ("tune", "bool"), ("tolerance", "float"), ("patience", "int"), ("mu", "float"), ("light_mode", "bool")],
    "Nautilus": [("n_live", "int"), ("n_update", "optint"), ("enlarge_per_dim", "float"), ("n_points_min", "optint"),
                 ("split_threshold", "int"), ("n_networks", "int"), ("n_like_new_bound", "optint"), ("seed", "optint"),
                 ("n_shell", "int"), ("n_eff", "int")],
    "UltraNest": [("draw_multiple", "bool"), ("ndraw_min", "int"), ("ndraw_max", "int"), ("min_num_live_points", "int"),
                  ("cluster_num_live_points", "int"), ("insertion_test_zscore_threshold", "float"), ("stepsampler_cls", "optstr"),
                  ("nsteps", "optint")],
}
# variable names of arithmetic operands.  `left` / `right` are properties of CompoundPrior: a left operand held in a
# variable called `right` (or a right operand called `left`) is routed through the property setter and silently
# replaces the other operand -- a defect of arithmetic priors outside C07; only the harmless combination
# (left operand `left`, right operand `right`) is exercised, in a dedicated case.
# searches used only for fit histories (never drawn by Gen.search, never a perturbation target)
HISTORY_ONLY = {"MockSearch": []}
SEARCH_FIELDS_ALL = dict(SEARCH_FIELDS, **HISTORY_ONLY)
VARNAMES = ["xx", "yy", "aa", "bb", "pp", "qq", "prior", "other", "lens", "mass_0", "source_1"]


def unhex(s):
    if isinstance(s, (int, float)):
        return float(s)
    return float(s) if s in ("nan", "inf", "-inf") else float.fromhex(s)


def hx(x):
    x = float(x)
    if x != x:
        return "nan"
    if x in (float("inf"), float("-inf")):
        return "inf" if x > 0 else "-inf"
    return x.hex()


def ref_round(v):
    """the rounding the property specifies (reference, independent of /repo)"""
    try:
        return 1e-8 * round(v / 1e-8)
    except OverflowError:
        return v


# ---------------------------------------------------------------------------------------
# generator of fit specifications
# ---------------------------------------------------------------------------------------
class Gen:
    REPAIRED = ("arith", "item_number", "log_gaussian", "drawer", "modified")   # once findings, now part of every stream
    KNOWN = ("fixed_model",)                                            # features with a recorded finding: opt-in
    ALL = REPAIRED + KNOWN

    def __init__(self, rng, clean=True, max_depth=2, allow=None):
        self.rng = rng
        self.allow = set(self.REPAIRED) | (set(allow) if allow is not None else (set() if clean else set(self.KNOWN)))
        self.clean = not (self.allow & set(self.KNOWN))
        self.max_depth = max_depth
        self.pool = []
        self.nvars = 0

    def value(self, positive=False):
        rng = self.rng
        r = rng.random()
        if r < 0.35:
            v = rng.randint(-40, 40) / 8.0
        elif r < 0.6:
            v = round(rng.uniform(-50, 50), rng.randint(1, 9))
        elif r < 0.75:
            v = rng.randint(-10 ** 6, 10 ** 6) * 1e-8 + rng.choice([0.0, 4e-9, -4e-9, 5e-9])
        elif r < 0.85:
            v = rng.uniform(-1, 1) * 10 ** rng.randint(-7, 6)
        elif r < 0.92:
            v = float(rng.randint(-5, 5))
        else:
            v = rng.choice([1e-9, 2.5e-8, 1e10 + 0.5, 123456.789012345, 1e-3, 0.1 + 0.2])
        if positive:
            v = abs(v) + rng.choice([1e-3, 0.25, 1.0])
        return v

    def prior_spec(self):
        rng = self.rng
        fams = ["Uniform"] * 9 + ["Gaussian"] * 6 + ["LogUniform"] * 3 + (["LogGaussian"] * 3 if "log_gaussian" in self.allow else [])
        fam = rng.choice(fams)
        if fam in ("Uniform",):
            lo = self.value()
            hi = lo + abs(self.value()) + rng.choice([1e-6, 0.5, 1.0])
            return {"fam": fam, "lo": hx(lo), "hi": hx(hi)}
        if fam == "LogUniform":
            lo = self.value(positive=True)
            hi = lo + abs(self.value()) + rng.choice([1e-6, 0.5, 1.0])
            return {"fam": fam, "lo": hx(lo), "hi": hx(hi)}
        mean = self.value()
        sigma = self.value(positive=True)
        if rng.random() < 0.5:
            lo, hi = (float("-inf"), float("inf")) if fam == "Gaussian" else (0.0, float("inf"))
        else:
            lo = mean - abs(self.value()) - 1.0
            hi = mean + abs(self.value()) + 1.0
            if fam == "LogGaussian":
                lo = abs(lo)
                hi = lo + abs(hi) + 1.0
        return {"fam": fam, "lo": hx(lo), "hi": hx(hi), "mean": hx(mean), "sigma": hx(sigma)}

    def prior(self):
        if self.pool and self.rng.random() < 0.22:
            return {"t": "prior", "ref": self.rng.randrange(len(self.pool))}
        self.pool.append(self.prior_spec())
        return {"t": "prior", "ref": len(self.pool) - 1}

    def const(self):
        return {"t": "float", "v": hx(self.value())}

    def var(self):
        self.nvars += 1
        if self.rng.random() < 0.7:
            return self.rng.choice(VARNAMES[:6]) + ("%d" % self.nvars if self.rng.random() < 0.3 else "")
        return self.rng.choice(VARNAMES)

    def arith(self, depth=0):
        rng = self.rng
        if rng.random() < 0.25 and "modified" in self.allow:
            a = self.arith(depth + 1) if depth < 1 and rng.random() < 0.3 else self.prior()
            return {"t": "unop", "op": rng.choice(["neg", "neg", "abs"]), "a": a, "av": self.var()}
        op = rng.choice(["+", "*", "/", "+", "*", "//", "%", "**"])

        def operand():
            r = rng.random()
            if r < 0.3:
                return {"t": "float", "v": hx(rng.choice([0.5, 2.0, 4.0, 1.5, -2.0, 0.25, 3.0, self.value()]))}
            if r < 0.45 and depth < 1:
                return self.arith(depth + 1)
            return self.prior()
        l, r = operand(), operand()
        if l["t"] == "float" and r["t"] == "float":
            l = self.prior()
        lv, rv = self.var(), self.var()
        while rv == lv:                   # two different operands need two different variables
            rv = self.var()
        if rng.random() < 0.08 and l["t"] == "prior":
            r, rv = _copy.deepcopy(l), lv            # xx * xx : the two names coincide
        return {"t": "binop", "op": op, "l": l, "r": r, "lv": None if l["t"] == "float" else lv,
                "rv": None if r["t"] == "float" else rv}

    def scalar(self):
        r = self.rng.random()
        if "arith" in self.allow and r < 0.18:
            return self.arith()
        if r < 0.4:
            return self.const()
        return self.prior()

    def extras(self):
        rng = self.rng
        out = []
        if rng.random() < 0.2:
            for name in rng.sample(["ex", "flag", "note", "nn", "redshift"], rng.randint(1, 2)):
                k = rng.random()
                if k < 0.25:
                    out.append([name, {"t": "int", "v": rng.randint(-3, 40)}])
                elif k < 0.4:
                    out.append([name, {"t": "bool", "v": rng.random() < 0.5}])
                elif k < 0.55:
                    out.append([name, {"t": "str", "v": rng.choice(["sersic", "a.b", "x", "True", "1.0"])}])
                elif k < 0.65:
                    out.append([name, {"t": "none"}])
                elif k < 0.74:
                    out.append([name, rng.choice([{"t": "np", "dtype": "int64", "v": rng.randint(-5, 50)},
                                                  {"t": "np", "dtype": "float32", "v": rng.randint(-20, 20) / 4.0}])])
                elif k < 0.85:
                    out.append([name, self.const()])
                else:
                    out.append([name, self.prior()])
        return out

    def model(self, depth=0, fixed=False):
        rng = self.rng
        names = ["A1", "A2", "A3", "B3", "A3", "A2", "P2", "C2"] + (["H2", "H2"] if depth < self.max_depth else [])
        cls = rng.choice(names)
        attrs = []
        for arg, kind in SIGNATURES[cls]:
            if kind == "float":
                attrs.append([arg, self.const() if fixed else self.scalar()])
            elif kind == "tuple2":
                ms = [["%s_%d" % (arg, i), self.const() if (fixed or rng.random() < 0.3) else self.prior()] for i in range(2)]
                attrs.append([arg, {"t": "tuple", "members": ms}])
            else:
                r = rng.random()
                if r < 0.5:
                    attrs.append([arg, self.model(depth + 1, fixed)])
                elif r < 0.7:
                    pcls = rng.choice(["Plain", "PlainEx", "Plain", "KW", "Renamed"])
                    attrs.append([arg, {"t": "inst", "cls": pcls, "attrs": [[a, self.const()] for a in PLAIN_ARGS[pcls]]}])
                elif r < 0.8 and "fixed_model" in self.allow:
                    attrs.append([arg, self.model(depth + 1, True)])
                elif r < 0.9:
                    attrs.append([arg, {"t": "none"}])
                else:
                    attrs.append([arg, self.coll(depth + 1)])
        e = {"t": "model", "cls": cls, "attrs": attrs, "extras": [] if fixed else self.extras()}
        if not fixed and not has_prior_spec(e):
            # a component without any free parameter is a feature of its own (it reloads as a plain object)
            for kv in e["attrs"]:
                if kv[1]["t"] == "float":
                    kv[1] = self.prior()
                    break
            else:
                e["extras"].append(["free_one", self.prior()])
        return e

    def coll(self, depth=0):
        rng = self.rng
        forms = ["dict", "kwargs", "dict"] + (["list", "append", "mixed", "list"] if "item_number" in self.allow else [])
        form = rng.choice(forms)
        n = rng.randint(1, 4 if depth == 0 else 2)
        keys = rng.sample(["galaxy", "lens", "source", "g0", "g1", "mass", "light", "a", "b", "gaussian_0"], n)
        items = []
        for i in range(n):
            r = rng.random()
            if r < 0.7 or depth >= self.max_depth:
                v = self.model(depth + 1)
            elif r < 0.8 and "fixed_model" in self.allow:
                v = self.model(depth + 1, True)
            elif r < 0.9:
                v = self.coll(depth + 1)
            elif r < 0.95:
                v = self.prior()
            else:
                v = self.const()
            items.append([keys[i], v])
        if form in ("list", "append"):
            items = [[str(i), v] for i, (_, v) in enumerate(items)]
        elif form == "mixed":
            cut = rng.randint(0, n - 1)
            items = items[:cut] + [[str(i), v] for i, (_, v) in enumerate(items[cut:])]
        return {"t": "coll", "form": form, "items": items}

    def search(self):
        rng = self.rng
        names = ["Emcee", "DynestyStatic", "DynestyDynamic", "PySwarmsGlobal", "PySwarmsLocal", "BFGS", "LBFGS",
                 "Zeus", "Nautilus", "UltraNest"]
        cls = rng.choice(names + ["Drawer"])
        st = {}
        dflt = config_defaults().get(cls, {})
        for f, kind in SEARCH_FIELDS[cls]:
            if f in dflt and rng.random() < 0.3:
                continue                       # left to the configuration default
            st[f] = self.setting(kind)
        s = {"cls": cls, "settings": st}
        if rng.random() < 0.3:
            s["path_prefix"] = rng.choice(["pp", "a/b"])
        if rng.random() < 0.3 and cls not in ("BFGS", "LBFGS", "Drawer"):
            s["number_of_cores"] = rng.choice([1, 2])
        if rng.random() < 0.3:
            s["iterations_per_update"] = rng.choice([100, 777])
        return s

    def setting(self, kind):
        rng = self.rng
        if kind == "int":
            return rng.choice([1, 2, 5, 20, 50, 150, rng.randint(1, 500)])
        if kind == "float":
            return rng.choice([0.1, 0.5, 0.9, 1.5, round(rng.uniform(0, 2), rng.randint(1, 6))])
        if kind == "str":
            return rng.choice(["multi", "auto", "rwalk", "balls", "single", "unif", "rslice"])
        if kind == "bool":
            return rng.random() < 0.5
        if kind == "optstr":
            return rng.choice([None, "RegionMCMCSampler", "RegionSliceSampler"])
        if kind == "optint":
            return rng.choice([None, None, 1, 5, rng.randint(1, 30)])
        if kind == "optfloat":
            return rng.choice([None, None, 1.25, 2.0, round(rng.uniform(1, 3), 3)])
        raise ValueError(kind)

    def fit(self):
        rng = self.rng
        self.pool = []
        model = self.coll(0) if rng.random() < 0.7 else self.model(0)
        if not has_prior_spec(model):
            # make sure something is free
            model = {"t": "coll", "form": "dict", "items": [["base", model], ["free", {"t": "model", "cls": "A1", "attrs": [["u", self.prior()]], "extras": []}]]}
        tag = rng.choice([None, None, "tag", "dataset_1", "a.b", "x"])
        return {"search": self.search(), "model": model, "pool": self.pool, "tag": tag}


def walk_spec(e, path=()):
    """yield (path, node) over a model spec"""
    yield path, e
    t = e["t"]
    if t == "binop":
        yield from walk_spec(e["l"], path + ("l",))
        yield from walk_spec(e["r"], path + ("r",))
    elif t == "unop":
        yield from walk_spec(e["a"], path + ("a",))
    elif t == "tuple":
        for i, (k, v) in enumerate(e["members"]):
            yield from walk_spec(v, path + ("members", i, 1))
    elif t in ("model", "inst"):
        for i, (k, v) in enumerate(e["attrs"]):
            yield from walk_spec(v, path + ("attrs", i, 1))
        for i, (k, v) in enumerate(e.get("extras", [])):
            yield from walk_spec(v, path + ("extras", i, 1))
    elif t == "coll":
        for i, (k, v) in enumerate(e["items"]):
            yield from walk_spec(v, path + ("items", i, 1))


def get_at(e, path):
    for p in path:
        e = e[p]
    return e


def set_at(e, path, new):
    for p in path[:-1]:
        e = e[p]
    e[path[-1]] = new


def has_prior_spec(e):
    return any(n["t"] == "prior" for _, n in walk_spec(e))


def is_fixed_model(e):
    return e["t"] == "model" and not has_prior_spec(e)


def exact_fixed(e):
    """ModelObject.dict writes a parameter-free Model as an "instance" (and it comes back as a plain object) only when
    the constructor can rebuild it: every attribute a constructor argument, no tuple, every model object it holds a
    Model that is exact itself (no Collection)"""
    if e["t"] != "model" or e.get("extras"):
        return False
    for _, v in e["attrs"]:
        if v["t"] in ("tuple", "coll", "prior", "binop", "unop"):
            return False
        if v["t"] == "model" and not exact_fixed(v):
            return False
    return True


def item_number(e):
    if e["form"] in ("list", "append"):
        return len(e["items"])
    if e["form"] == "mixed":
        return sum(1 for k, _ in e["items"] if k.isdigit())
    return 0


def features(spec):
    """labels computed from the fit specification only"""
    f = set()
    m = spec["model"]
    refs = []
    depth = 0
    for path, n in walk_spec(m):
        t = n["t"]
        depth = max(depth, sum(1 for p in path if p in ("attrs", "items", "extras")))
        if t in ("binop", "unop"):
            f.add("arith")
        if t == "unop":
            f.add("modified")
        if t == "np":
            f.add("np_value")
        if t == "inst" and n["cls"] in DROPPING:
            f.add("dropping_instance")
        if t == "coll" and item_number(n) != 0:
            f.add("item_number")
        if is_fixed_model(n):
            f.add("fixed_model")
            if exact_fixed(n):
                f.add("fixed_model_exact")
        if t == "prior":
            refs.append(n["ref"])
            if spec["pool"][n["ref"]]["fam"] == "LogGaussian":
                f.add("log_gaussian")
        if t == "tuple":
            f.add("tuple")
        if t == "float":
            f.add("const")
        if t == "inst":
            f.add("plain_instance")
    if len(refs) != len(set(refs)):
        f.add("shared")
    if depth >= 2:
        f.add("nested")
    if spec["search"]["cls"] == "Drawer":
        f.add("drawer")
    f.add("priors=%d" % min(len(set(refs)), 9))
    return f


def nontrivial(spec):
    f = features(spec)
    npri = int([x for x in f if x.startswith("priors=")][0][7:])
    return npri >= 2 and bool(f & {"shared", "nested", "tuple", "arith", "const"})


# ---------------------------------------------------------------------------------------
# expected composition tree of a specification, as a Coq term of type `node`
# ---------------------------------------------------------------------------------------
def _same_object(e):
    """both operands are the same live object (the same prior of the pool)"""
    return e["l"]["t"] == "prior" and e["r"]["t"] == "prior" and e["l"]["ref"] == e["r"]["ref"]


def left_name(e, rename):
    """retrieve_name keeps the LAST local name bound to the object in the outermost frame that has one:
    the chosen variable name; `other` for a literal (bound in ArithmeticMixin.__op__); when both operands
    are one object, the name inserted last (the right one) for both"""
    if e["l"]["t"] == "float":
        return "other"
    v = e["rv"] if _same_object(e) else e["lv"]
    v = rename.get(v, v)
    return "left_" if v == "left" else v


def right_name(e, rename):
    if e["r"]["t"] == "float":
        return "other"
    v = rename.get(e["rv"], e["rv"])
    return "right_" if v == "right" else v


def unop_name(e, rename):
    v = rename.get(e["av"], e["av"])
    return "prior_" if v == "prior" else v


def np_descr(e):
    v = e["v"]
    shown = {"int64": lambda: repr(int(v)), "float32": lambda: repr(float(v)), "bool_": lambda: repr(bool(v)),
             "complex": lambda: repr(complex(v, 1.0))}[e["dtype"]]()
    mod = "builtins" if e["dtype"] == "complex" else "numpy"
    return "%s.%s:%s" % (mod, e["dtype"], shown)


def inst_dict(e):
    """the __dict__ an instance of a plain harness class ends up with, from its constructor keywords"""
    d = dict((k, v) for k, v in e["attrs"])
    if e["cls"] in ("Plain", "PlainEx"):
        p, q = unhex(d["p"]["v"]), unhex(d["q"]["v"])
        return e["attrs"] + [["derived", {"t": "float", "v": hx(p + q)}], ["_hidden", {"t": "float", "v": hx(17.0)}]]
    if e["cls"] == "KW":
        return [["p", d["p"]]]
    if e["cls"] == "Renamed":
        return [["value", d["p"]]]
    raise ValueError(e["cls"])


def cattrs(items, pool, rename):
    return clist([cpair(cstr(k), node_term(v, pool, rename)) for k, v in items])


def node_term(e, pool, rename=None):
    rename = rename or {}
    t = e["t"]
    if t == "prior":
        p = pool[e["ref"]]
        ms = p["fam"] in ("Gaussian", "LogGaussian")
        return "(NPrior %s F%s %s %s %s %s)" % (
            cZ(e["ref"]), p["fam"], cfloat(unhex(p["lo"])), cfloat(unhex(p["hi"])),
            cfloat(unhex(p["mean"])) if ms else cfloat(0.0), cfloat(unhex(p["sigma"])) if ms else cfloat(0.0))
    if t == "float":
        return "(NFloat %s)" % cfloat(unhex(e["v"]))
    if t == "int":
        return "(NInt %s)" % cZ(e["v"])
    if t == "bool":
        return "(NBool %s)" % cbool(e["v"])
    if t == "str":
        return "(NStr %s)" % cstr(e["v"])
    if t == "none":
        return "NNone"
    if t == "np":
        if FACTS.get("numpy_scalars_unwrapped"):
            v = e["v"]
            return {"int64": lambda: "(NInt %s)" % cZ(int(v)), "float32": lambda: "(NFloat %s)" % cfloat(float(v)),
                    "bool_": lambda: "(NBool %s)" % cbool(bool(v))}[e["dtype"]]()
        return "(NOther %s)" % cstr(np_descr(e))
    if t == "tuple":
        return "(NTuple 0%%Z %s)" % cattrs(e["members"], pool, rename)
    if t == "binop":
        ln, rn = left_name(e, rename), right_name(e, rename)
        if ln == rn and not _same_object(e):
            ln, rn = "left_", "right_"      # CompoundPrior.__init__: different operands never share one attribute name
        return "(NBinop 0%%Z %s %s %s %s %s)" % (
            cstr(BINOPS[e["op"]]), cstr(ln), cstr(rn), node_term(e["l"], pool, rename), node_term(e["r"], pool, rename))
    if t == "unop":
        return "(NUnop 0%%Z %s %s %s)" % (cstr(UNOPS[e["op"]]), cstr(unop_name(e, rename)), node_term(e["a"], pool, rename))
    if t == "model":
        cargs = clist([cstr(a) for a, _ in SIGNATURES[e["cls"]]])
        order = [a for a, _ in SIGNATURES[e["cls"]]]       # Model.__init__ walks the constructor signature, not the keywords
        attrs = sorted(e["attrs"], key=lambda kv: order.index(kv[0]))
        return "(NModel 0%%Z %s %s %s %s)" % (cstr(""), cstr(CLS_MODULE + "." + e["cls"]), cargs,
                                              cattrs(attrs + e.get("extras", []), pool, rename))
    if t == "coll":
        return "(NColl 0%%Z %s %s)" % (cZ(item_number(e)), cattrs(e["items"], pool, rename))
    if t == "inst":
        return "(NInst %s %s %s %s)" % (cstr(e["cls"]), clist([cstr(a) for a in PLAIN_CTOR[e["cls"]]]),
                                        copt(PLAIN_EXCL[e["cls"]], lambda l: clist([cstr(x) for x in l])),
                                        cattrs(inst_dict(e), pool, rename))
    raise ValueError(t)


def setting_node(v):
    if v is None:
        return "NNone"
    if isinstance(v, bool):
        return "(NBool %s)" % cbool(v)
    if isinstance(v, int):
        return "(NInt %s)" % cZ(v)
    if isinstance(v, float):
        return "(NFloat %s)" % cfloat(v)
    return "(NStr %s)" % cstr(v)


_CONFIG = {}


def config_defaults():
    """identifying settings that harness/config/non_linear/*.yaml supplies when the caller passes none"""
    if not _CONFIG:
        import yaml
        d = os.path.join(common.VERIF, "harness", "config", "non_linear")
        for f in sorted(os.listdir(d)):
            if f.endswith(".yaml"):
                for cls, sections in (yaml.safe_load(open(os.path.join(d, f))) or {}).items():
                    if isinstance(sections, dict) and isinstance(sections.get("search"), dict):
                        _CONFIG[cls] = {k: v for k, v in sections["search"].items()
                                        if v is None or isinstance(v, (bool, int, float, str))}
    return _CONFIG


def effective_settings(s):
    """what the constructor leaves on the object: explicit keywords over configuration defaults; UltraNest resets
    nsteps to None when no step sampler is configured"""
    st = {f: config_defaults().get(s["cls"], {}).get(f) for f, _ in SEARCH_FIELDS_ALL[s["cls"]]}
    st.update(s["settings"])
    if s["cls"] == "UltraNest" and st.get("stepsampler_cls") is None:
        st["nsteps"] = None
    return st


def search_term(s):
    s = dict(s, settings=effective_settings(s))
    fields = SEARCH_FIELDS_ALL[s["cls"]]
    return "(NSearch %s %s %s)" % (
        cstr(s["cls"]), clist([cstr(f) for f, _ in fields]),
        clist([cpair(cstr(f), setting_node(s["settings"][f])) for f, _ in fields]))


# ---------------------------------------------------------------------------------------
# abstraction of a live object (JSON from the driver) -> Coq term of type `obj`
# ---------------------------------------------------------------------------------------
def obj_term(a):
    t = a[0]
    if t == "cls":
        return "(OClass %s)" % cstr(a[1])
    if t == "exc":
        return "OExc"
    if t == "inst":
        i = a[2]
        info = "(mkinfo %s %s %s %s)" % (
            copt(i["idf"], lambda l: clist([cstr(x) for x in l])), cbool(i["is_mo"]),
            clist([cstr(x) for x in i["ctor"]]), copt(i["excl"], lambda l: clist([cstr(x) for x in l])))
        return "(OInst %s %s %s)" % (cstr(a[1]), info, clist([cpair(cstr(k), obj_term(v)) for k, v in a[3]]))
    if t == "dict":
        return "(ODict %s)" % clist([cpair(cstr(k), obj_term(v)) for k, v in a[1]])
    if t == "f":
        return "(OFloat %s)" % cfloat(unhex(a[1]))
    if t == "s":
        return "(OStr %s)" % cstr(a[1])
    if t == "i":
        return "(OInt %s)" % cZ(a[1])
    if t == "b":
        return "(OBool %s)" % cbool(a[1])
    if t == "seq":
        return "(OSeq %s)" % clist([obj_term(x) for x in a[1]])
    if t == "none":
        return "ONone"
    if t == "other":
        return "(OOther %s %s)" % (cstr(a[1]), cbool(a[2]))
    if t == "set":
        return "(OSet %s)" % clist([cstr(x) for x in a[1]])
    raise ValueError(t)


def abs_floats(a, acc):
    t = a[0]
    if t == "f":
        acc.add(a[1])
    elif t == "inst":
        for _, v in a[3]:
            abs_floats(v, acc)
    elif t == "dict":
        for _, v in a[1]:
            abs_floats(v, acc)
    elif t == "seq":
        for v in a[1]:
            abs_floats(v, acc)
    return acc


def spec_floats(spec, acc):
    for p in spec["pool"]:
        for k in ("lo", "hi", "mean", "sigma"):
            if k in p:
                acc.add(p[k])
    for _, n in walk_spec(spec["model"]):
        if n["t"] == "float":
            acc.add(n["v"])
        if n["t"] == "inst":
            for _, x in inst_dict(n):
                if x["t"] == "float":
                    acc.add(x["v"])
        if n["t"] == "np" and n["dtype"] == "float32":
            acc.add(hx(float(n["v"])))
    for v in effective_settings(spec["search"]).values():
        if isinstance(v, float):
            acc.add(hx(v))
    return acc


def str_table(hexes):
    """oracle table for Python str(float): entries for every value and its reference rounding,
    computed directly by the interpreter running the harness"""
    seen = {}
    for h in sorted(hexes):
        v = unhex(h)
        for x in (v, ref_round(v) if v == v else v):
            seen[hx(x)] = repr(float(x))
    return clist([cpair(cfloat(unhex(h)), cstr(s)) for h, s in sorted(seen.items())])


def cslist(l):
    return clist([cstr(x) for x in l])


def ascii_ok(x):
    return all(32 <= ord(c) < 127 for c in x)


# ---------------------------------------------------------------------------------------
# pairs: equal constructions (identifier must agree) and single-field perturbations (must differ)
# ---------------------------------------------------------------------------------------
RELOAD_ROUTES = ("reload", "files", "fit")


def with_build(spec, **build):
    s = _copy.deepcopy(spec)
    b = dict(s.get("build", {}))
    b.update(build)
    s["build"] = b
    return s


def bump(v, rng, up=None):
    """a value differing from v by clearly more than the 1e-8 resolution"""
    d = max(3e-8, abs(v) * 1e-6) * rng.choice([1, 2, 7, 1000])
    if up is None:
        up = rng.random() < 0.5
    w = v + d if up else v - d
    assert abs(w - v) > 2.5e-8
    return w


def sites(spec, pred):
    return [p for p, n in walk_spec(spec["model"]) if pred(n)]


def var_names(spec):
    out = set()
    for _, n in walk_spec(spec["model"]):
        if n["t"] == "binop":
            out |= {n["lv"], n["rv"]} - {None}
        if n["t"] == "unop":
            out.add(n["av"])
    return out


def reload_labels(spec, how):
    """labels of the recorded reload findings a specification may run into: a ModifiedPrior (-x, abs x) anywhere,
    a component without free parameters.  (Arithmetic priors, list-built collections, LogGaussian priors and the
    Drawer search used to be labelled too; they are repaired and unlabelled now.)"""
    f = features(spec)
    labels = []
    if "fixed_model_exact" in f:
        labels.append("reload:fixed_model")
    return labels


def silent_default(spec):
    """a ModifiedPrior whose nearest enclosing Model is of the class that has prior configuration: on reload the
    attribute silently becomes the configured default prior instead of raising (the Coq `reload` says None = raised)"""
    def go(e, nearest):
        if e["t"] == "unop" and nearest == "C2":
            return True
        if e["t"] == "model":
            nearest = e["cls"]
        for _, ch in children(e):
            if go(ch, nearest):
                return True
        return False
    return go(spec["model"], None)


def children(e):
    t = e["t"]
    if t == "binop":
        return [("l", e["l"]), ("r", e["r"])]
    if t == "unop":
        return [("a", e["a"])]
    if t == "tuple":
        return list(map(tuple, e["members"]))
    if t in ("model", "inst"):
        return list(map(tuple, e["attrs"] + e.get("extras", [])))
    if t == "coll":
        return list(map(tuple, e["items"]))
    return []


def fit_eligible(spec):
    f = features(spec)
    if f & {"arith", "np_value"}:
        return False
    if any(p["fam"] not in ("Uniform", "LogUniform") for p in spec["pool"]):
        return False          # drawing inside narrow limits of a wide (Log)Gaussian may never end: the sampler's business
    for _, n in walk_spec(spec["model"]):
        if n["t"] in ("str", "none", "bool", "int"):
            return False
        if n["t"] == "model" and n.get("extras"):       # extra attributes are handed to the constructor: no instance
            return False
    return spec["search"]["cls"] in ("LBFGS", "BFGS", "DynestyStatic", "Drawer")


def equal_pairs(rng, S, quick):
    out = []
    n = len(S["pool"])
    order = list(range(n))
    rng.shuffle(order)
    out.append(("ids", S, with_build(S, order=order, waste=rng.randint(1, 9), labels="z%d" % rng.randint(0, 99)), []))
    out.append(("deepcopy", S, with_build(S, route="deepcopy"), []))
    out.append(("reload", S, with_build(S, route="reload"), reload_labels(S, "reload")))
    if rng.random() < (0.5 if quick else 0.9):
        out.append(("files", S, with_build(S, route="files", export=rng.random() < 0.5), reload_labels(S, "files")))
    b = _copy.deepcopy(S)
    b["search"]["name"] = "renamed"
    b["search"]["path_prefix"] = rng.choice(["other/prefix", "zz"])
    b["search"]["iterations_per_update"] = rng.choice([3, 12345])
    if b["search"]["cls"] not in ("BFGS", "LBFGS", "Drawer"):
        b["search"]["number_of_cores"] = rng.choice([1, 3])
    out.append(("nonid", S, b, []))
    vs = var_names(S)
    if vs:
        ren = {v: rng.choice(["renamed_%d" % i, "v%d" % i, "galaxy_%d" % i]) for i, v in enumerate(sorted(vs))}
        out.append(("rename", S, with_build(S, rename=ren), []))
    # the keywords of a Model given in another order (Model.__init__ follows the constructor signature)
    ms = sites(S, lambda x: x["t"] == "model" and len(x["attrs"]) >= 2)
    if ms:
        b = _copy.deepcopy(S)
        n_ = get_at(b["model"], rng.choice(ms))
        n_["attrs"] = n_["attrs"][1:] + n_["attrs"][:1]
        out.append(("kw_order", S, b, []))
    # sub-resolution change of a fixed value or prior parameter
    fl = sites(S, lambda x: x["t"] == "float")
    if fl:
        p = rng.choice(fl)
        v = unhex(get_at(S["model"], p)["v"])
        if abs(v) < 1e3:
            c = ref_round(v)
            a, b = _copy.deepcopy(S), _copy.deepcopy(S)
            set_at(a["model"], p, {"t": "float", "v": hx(c)})
            set_at(b["model"], p, {"t": "float", "v": hx(c + rng.choice([2e-10, -2e-10, 1e-9, -1e-9]))})
            out.append(("near", a, b, []))
    return [{"kind": "pair", "how": h, "expect": "same", "a": a, "b": b, "labels": l} for h, a, b, l in out]


def differ_pairs(rng, S, gen):
    out = []
    pool = S["pool"]

    def add(how, b, labels=(), a=None):
        out.append({"kind": "pair", "how": how, "expect": "differ", "a": a or S, "b": b, "labels": list(labels)})

    # -- priors ---------------------------------------------------------------------
    used = sorted({get_at(S["model"], p)["ref"] for p in sites(S, lambda x: x["t"] == "prior")})
    if used:
        i = rng.choice(used)              # (a pool entry may be unreferenced)
        p = pool[i]
        b = _copy.deepcopy(S)
        q = b["pool"][i]
        keys = [k for k in ("lo", "hi", "mean", "sigma") if k in q and unhex(q[k]) not in (float("inf"), float("-inf"))]
        k = rng.choice(keys)
        v = unhex(q[k])
        q[k] = hx(bump(v, rng, up={"lo": False, "hi": True, "sigma": True}.get(k)))
        add("prior_param:" + k, b)
        b = _copy.deepcopy(S)
        q = b["pool"][i]
        if p["fam"] == "Uniform" and unhex(p["lo"]) > 0:
            q["fam"] = "LogUniform"
            add("prior_family", b)
        elif p["fam"] == "LogUniform":
            q["fam"] = "Uniform"
            add("prior_family", b)
        elif p["fam"] == "Gaussian":
            q["fam"] = "Uniform"
            if unhex(q["lo"]) == float("-inf"):
                a = _copy.deepcopy(S)
                for s_ in (a, b):
                    s_["pool"][i]["lo"], s_["pool"][i]["hi"] = hx(-3.0), hx(5.0)
                add("prior_family", b, a=a)
            else:
                add("prior_family", b)
        elif p["fam"] == "Uniform":
            q.update(fam="Gaussian", mean=hx(0.5), sigma=hx(1.0))
            add("prior_family", b)
    # -- sharing pattern ----------------------------------------------------------------
    refs = [get_at(S["model"], p)["ref"] for p in sites(S, lambda x: x["t"] == "prior")]
    shared = [r for r in set(refs) if refs.count(r) >= 2]
    if shared:
        r = rng.choice(shared)
        occ = [p for p in sites(S, lambda x: x["t"] == "prior" and x["ref"] == r)]
        # (an operand of `xx * xx` cannot be split: both operands are held in the one variable xx)
        occ = [p for p in occ if not (p and p[-1] in ("l", "r") and get_at(S["model"], p[:-1]).get("lv") == get_at(S["model"], p[:-1]).get("rv"))] or occ[:0]
        b = _copy.deepcopy(S)
        b["pool"].append(_copy.deepcopy(pool[r]))
        if occ:
            set_at(b["model"], rng.choice(occ), {"t": "prior", "ref": len(b["pool"]) - 1})
            add("sharing_split", b, ["sharing"])
    elif len(set(refs)) >= 2:
        i, j = rng.sample(sorted(set(refs)), 2)
        a = _copy.deepcopy(S)
        a["pool"][j] = _copy.deepcopy(a["pool"][i])          # two distinct priors with equal parameters
        b = _copy.deepcopy(a)
        for p in sites(b, lambda x: x["t"] == "prior" and x["ref"] == j):
            set_at(b["model"], p, {"t": "prior", "ref": i})     # ... versus one shared prior
        add("sharing_merge", b, ["sharing"], a=a)
    # -- fixed values -------------------------------------------------------------------------
    fl = sites(S, lambda x: x["t"] == "float")
    if fl:
        p = rng.choice(fl)
        in_attr = len(p) >= 3 and p[-3] in ("attrs", "items", "extras", "members")
        parent = get_at(S["model"], p[:-3]) if in_attr else None
        if not (parent is not None and parent["t"] == "inst" and (parent["cls"] in DROPPING or (
                parent["cls"] == "PlainEx" and get_at(S["model"], p[:-1])[0] == "q"))):
            b = _copy.deepcopy(S)
            set_at(b["model"], p, {"t": "float", "v": hx(bump(unhex(get_at(S["model"], p)["v"]), rng))})
            add("const", b)
        p = rng.choice(fl)
        in_attr = len(p) >= 3 and p[-3] in ("attrs", "items", "extras", "members")
        parent = get_at(S["model"], p[:-3]) if in_attr else None
        if parent is not None and parent["t"] in ("model", "coll", "tuple"):
            b = _copy.deepcopy(S)
            b["pool"].append(gen.prior_spec())
            set_at(b["model"], p, {"t": "prior", "ref": len(b["pool"]) - 1})
            add("const_to_prior", b)
    # values the walk has no branch for (numpy scalars; arguments of KW / Renamed objects)
    nps = sites(S, lambda x: x["t"] == "np")
    if nps:
        p = rng.choice(nps)
        b = _copy.deepcopy(S)
        n_ = get_at(b["model"], p)
        n_["v"] = n_["v"] + (3 if n_["dtype"] == "int64" else 2.5)
        add("const_dropped", b, [] if FACTS.get("numpy_scalars_unwrapped") else ["const_dropped"])
    dr = [p for p in sites(S, lambda x: x["t"] == "inst" and x["cls"] in DROPPING)]
    if dr:
        p = rng.choice(dr)
        b = _copy.deepcopy(S)
        n_ = get_at(b["model"], p)
        n_["attrs"][0][1] = {"t": "float", "v": hx(bump(unhex(n_["attrs"][0][1]["v"]), rng))}
        add("const_dropped", b, ["const_dropped"])
    # a value replaced by the string that spells its token
    for kind in ("float", "int", "bool"):
        ss = [p for p in sites(S, lambda x: x["t"] == kind) if len(p) >= 3 and p[-3] == "extras"]
        if ss and rng.random() < 0.5:
            p = rng.choice(ss)
            n_ = get_at(S["model"], p)
            text = repr(float(ref_round(unhex(n_["v"])))) if kind == "float" else str(n_["v"])
            b = _copy.deepcopy(S)
            set_at(b["model"], p, {"t": "str", "v": text})
            add("const_type", b, ["const_type"])
    # the band between one and two and a half resolutions: the expected outcome is what rounding to 1e-8 gives
    if fl:
        p = rng.choice(fl)
        in_attr = len(p) >= 3 and p[-3] in ("attrs", "items", "extras", "members")
        parent = get_at(S["model"], p[:-3]) if in_attr else None
        hidden = parent is not None and parent["t"] == "inst" and (parent["cls"] in DROPPING or
                                                                 (parent["cls"] == "PlainEx" and get_at(S["model"], p[:-1])[0] == "q"))
        if not hidden:
            k_ = rng.randint(-10 ** 7, 10 ** 7)
            va = (k_ + rng.choice([0.0, 0.25, 0.45, -0.45, 0.5])) * 1e-8
            vb = va + rng.choice([0.3, 0.6, 0.9, 1.0, 1.2, 1.5, 2.0, 2.5]) * 1e-8 * rng.choice([1, -1])
            a, b = _copy.deepcopy(S), _copy.deepcopy(S)
            set_at(a["model"], p, {"t": "float", "v": hx(va)})
            set_at(b["model"], p, {"t": "float", "v": hx(vb)})
            same = repr(float(ref_round(va))) == repr(float(ref_round(vb)))
            out.append({"kind": "pair", "how": "band_same" if same else "band_differ", "expect": "same" if same else "differ",
                        "a": a, "b": b, "labels": []})
    # the items of a collection given in another order: another composition (iteration order of the instance)
    cs2 = sites(S, lambda x: x["t"] == "coll" and x["form"] in ("dict", "kwargs") and len(x["items"]) >= 2)
    if cs2:
        p = rng.choice(cs2)
        b = _copy.deepcopy(S)
        n_ = get_at(b["model"], p) if p else b["model"]
        n_["items"] = n_["items"][1:] + n_["items"][:1]
        add("item_order", b)
    for kind in ("int", "bool", "str"):
        ss = sites(S, lambda x: x["t"] == kind)
        if ss:
            p = rng.choice(ss)
            n = get_at(S["model"], p)
            b = _copy.deepcopy(S)
            nv = {"int": lambda v: v + rng.choice([1, -1, 10]), "bool": lambda v: not v, "str": lambda v: v + "x"}[kind](n["v"])
            set_at(b["model"], p, {"t": kind, "v": nv})
            add("const_" + kind, b)
    # -- classes and structure ----------------------------------------------------------------
    ms = sites(S, lambda x: x["t"] == "model" and x["cls"] in ("A3", "B3"))
    if ms:
        p = rng.choice(ms)
        b = _copy.deepcopy(S)
        n = get_at(b["model"], p)
        n["cls"] = "B3" if n["cls"] == "A3" else "A3"
        add("class", b)
    ms = sites(S, lambda x: x["t"] == "model" and not is_fixed_model(x))
    if ms:
        p = rng.choice(ms)
        b = _copy.deepcopy(S)
        n = get_at(b["model"], p)
        taken = {k for k, _ in n["attrs"] + n.get("extras", [])}
        name = rng.choice([x for x in ("added", "more", "zeta") if x not in taken])
        n.setdefault("extras", []).append([name, gen.const() if rng.random() < 0.5 else {"t": "int", "v": 1}])
        add("add_attribute", b)
    cs = sites(S, lambda x: x["t"] == "coll" and x["form"] in ("dict", "kwargs"))
    if cs:
        p = rng.choice(cs)
        b = _copy.deepcopy(S)
        n = get_at(b["model"], p) if p else b["model"]
        i = rng.randrange(len(n["items"]))
        n["items"][i][0] = n["items"][i][0] + "_renamed"
        add("rename_key", b)
        b = _copy.deepcopy(S)
        n = get_at(b["model"], p) if p else b["model"]
        saved = gen.pool
        gen.pool = b["pool"]
        n["items"].append(["appended_item", gen.model(2)])
        gen.pool = saved
        add("add_item", b)
    bs = sites(S, lambda x: x["t"] == "binop")
    if bs:
        p = rng.choice(bs)
        b = _copy.deepcopy(S)
        n = get_at(b["model"], p)
        n["op"] = rng.choice([o for o in BINOPS if o != n["op"]])
        add("arith_op", b)
        lit = [s_ for s_ in ("l", "r") if get_at(S["model"], p)[s_]["t"] == "float"]
        if lit:
            b = _copy.deepcopy(S)
            n = get_at(b["model"], p)
            n[lit[0]]["v"] = hx(bump(unhex(n[lit[0]]["v"]), rng))
            add("arith_const", b)
    us = sites(S, lambda x: x["t"] == "unop")
    if us:
        p = rng.choice(us)
        b = _copy.deepcopy(S)
        n = get_at(b["model"], p)
        n["op"] = "abs" if n["op"] == "neg" else "neg"
        add("arith_op", b)
    # -- search and tag -------------------------------------------------------------------------
    s = S["search"]
    eff = effective_settings(s)
    for f, kind in SEARCH_FIELDS[s["cls"]]:
        if s["cls"] == "UltraNest" and f == "nsteps" and eff.get("stepsampler_cls") is None:
            continue                      # not in effect without a step sampler
        b = _copy.deepcopy(S)
        old = eff[f]
        for _ in range(20):
            new = gen.setting(kind)
            if new != old and not (isinstance(new, (int, float)) and isinstance(old, (int, float))
                                   and not isinstance(new, bool) and not isinstance(old, bool) and abs(new - old) < 3e-8):
                break
        else:
            continue
        b["search"]["settings"][f] = new
        add("search_setting:" + f, b)
        if f not in s["settings"]:
            # the configuration default given explicitly is the same fit
            b = _copy.deepcopy(S)
            b["search"]["settings"][f] = old
            out.append({"kind": "pair", "how": "setting_default_explicit", "expect": "same", "a": S, "b": b, "labels": []})
        if kind == "int" and isinstance(old, int) and not isinstance(old, bool) and rng.random() < 0.3:
            b = _copy.deepcopy(S)
            b["search"]["settings"][f] = float(old)          # 50 -> 50.0 is described differently ("50" / "50.0")
            add("search_setting_type:" + f, b)
    b = _copy.deepcopy(S)
    other = rng.choice([c for c in SEARCH_FIELDS if c != s["cls"] and c != "Drawer"])
    if {s["cls"], other} <= {"BFGS", "LBFGS"} or rng.random() < 0.5:
        b["search"] = {"cls": other, "settings": {f: (eff[f] if f in eff and
                                                    dict(SEARCH_FIELDS[s["cls"]]).get(f) == k else gen.setting(k))
                                                  for f, k in SEARCH_FIELDS[other]}}
        add("search_class", b)
    b = _copy.deepcopy(S)
    b["tag"] = {None: "added_tag"}.get(S["tag"], rng.choice([None, S["tag"] + "2"]) if S["tag"] else "t")
    add("tag", b)
    return out


def special_pairs(rng, gen):
    """constructions for the two structural collisions of the flat token stream"""
    out = []
    gen.pool = []
    m1, m2 = gen.model(2), gen.model(2)
    pool = gen.pool
    srch = gen.search()
    a = {"search": srch, "pool": pool, "tag": None,
         "model": {"t": "coll", "form": "dict", "items": [["group", {"t": "coll", "form": "dict", "items": [["m1", m1]]}], ["m2", m2]]}}
    b = {"search": srch, "pool": pool, "tag": None,
         "model": {"t": "coll", "form": "dict", "items": [["group", {"t": "coll", "form": "dict", "items": [["m1", m1], ["m2", m2]]}]]}}
    out.append({"kind": "pair", "how": "regroup", "expect": "differ", "a": a, "b": b, "labels": ["regroup"]})
    # operands held in variables called left / right (names that CompoundPrior rewrites to left_ / right_)
    gen.pool = [gen.prior_spec(), gen.prior_spec(), gen.prior_spec()]      # three distinct priors
    lr = {"t": "model", "cls": "A2", "extras": [],
          "attrs": [["a", {"t": "binop", "op": rng.choice(["+", "*", "/"]), "l": {"t": "prior", "ref": 0}, "r": {"t": "prior", "ref": 1},
                           "lv": "left", "rv": "right"}],
                    ["b", {"t": "unop", "op": "neg", "a": {"t": "prior", "ref": 2}, "av": "prior"}]]}
    out.append({"kind": "fit", "spec": {"search": gen.search(), "pool": gen.pool, "tag": "lr", "model": lr}})
    gen.pool = []
    base = {"t": "model", "cls": "A1", "attrs": [["u", gen.prior()]], "extras": [["note", {"t": "str", "v": "p.q"}]]}
    other = _copy.deepcopy(base)
    other["extras"] = [["note", {"t": "str", "v": "p"}], ["q", {"t": "none"}]]
    srch = gen.search()
    out.append({"kind": "pair", "how": "dot_join", "expect": "differ", "labels": ["dot_join"],
                "a": {"search": srch, "pool": gen.pool, "tag": None, "model": base},
                "b": {"search": srch, "pool": gen.pool, "tag": None, "model": other}})
    return out


# ---------------------------------------------------------------------------------------
# models DERIVED by the library from a composed model: the derived model must be the model composed by hand
# ---------------------------------------------------------------------------------------
DERIVE_ROUTES = ["identity", "partial", "partial", "replacing", "args", "with_limits", "means_a", "means_r", "uniform_floats",
                 "result_absolute", "result_relative", "result_bounded", "copy", "freeze", "freeze_unfreeze", "freeze_derive"]
INF = float("inf")


def derive_eligible(spec):
    """arithmetic priors are not carried through gaussian_prior_model_for_arguments by the library (the operands of a
    CompoundPrior keep the old priors): outside what is derived here"""
    return not (features(spec) & {"arith"}) and has_prior_spec(spec["model"])


def used_refs(spec):
    return sorted({n["ref"] for _, n in walk_spec(spec["model"]) if n["t"] == "prior"})


def limited(p, lo_, hi_):
    """Prior.with_limits of each family, as documented: Uniform / LogGaussian are tightened, Gaussian is centred between
    the limits with their distance as sigma, LogUniform takes them (lower at least 1e-6)"""
    fam = p["fam"]
    lo, hi = unhex(p["lo"]), unhex(p["hi"])
    if fam == "Uniform":
        return {"fam": fam, "lo": hx(max(lo_, lo)), "hi": hx(min(hi_, hi))}
    if fam == "LogUniform":
        return {"fam": fam, "lo": hx(max(0.000001, lo_)), "hi": hx(hi_)}
    if fam == "Gaussian":
        return {"fam": fam, "lo": hx(-INF), "hi": hx(INF), "mean": hx((lo_ + hi_) / 2), "sigma": hx(hi_ - lo_)}
    return {"fam": fam, "lo": hx(max(lo_, lo)), "hi": hx(min(hi_, hi)), "mean": p["mean"], "sigma": p["sigma"]}


def derive_step(rng, gen, S, route=None):
    """(D, H): one derivation request for the library and the equal specification composed by hand"""
    used = used_refs(S)
    route = route or rng.choice(DERIVE_ROUTES)
    D, H = {"route": route}, _copy.deepcopy(S)
    H.pop("build", None)
    pool = S["pool"]
    q = lambda v: rng.randint(-40, 40) / 8.0 if rng.random() < 0.5 else round(v, rng.randint(1, 6))
    if route in ("partial", "replacing", "freeze_derive", "args"):
        sub = used if route == "args" else rng.sample(used, rng.randint(1, max(1, (len(used) + 1) // 2)))
        D["new"] = {str(i): gen.prior_spec() for i in sorted(sub)}
        for i in sub:
            H["pool"][i] = D["new"][str(i)]
    elif route == "with_limits":
        D["limits"] = {}
        for i in used:
            p = pool[i]
            lo, hi = unhex(p["lo"]), unhex(p["hi"])
            if lo == -INF or hi == INF:
                c = unhex(p["mean"])
                lo_, hi_ = abs(c) * 0.5 + 0.25, abs(c) * 0.5 + rng.choice([1.5, 2.0, 7.25])
                if p["fam"] == "Gaussian":
                    lo_, hi_ = c - rng.choice([0.5, 1.0, 3.25]), c + rng.choice([0.5, 2.0])
                if lo not in (-INF,) and lo_ <= lo:
                    lo_ = lo + 0.125
                if hi != INF and hi_ >= hi:
                    hi_ = hi
                if not lo_ < hi_:
                    lo_, hi_ = lo_, lo_ + 1.0
            else:
                w = hi - lo
                lo_ = lo + w * rng.choice([-0.5, 0.0, 0.125, 0.25])
                hi_ = hi - w * rng.choice([-0.5, 0.0, 0.125, 0.25])
                if p["fam"] == "LogUniform" and lo_ <= 0:
                    lo_ = lo
            D["limits"][str(i)] = [hx(lo_), hx(hi_)]
            H["pool"][i] = limited(p, lo_, hi_)
    elif route in ("means_a", "means_r", "result_absolute", "result_relative", "uniform_floats", "result_bounded"):
        D["means"] = {}
        width = rng.choice([0.125, 0.5, 1.0, 2.5, 0.3])
        key = {"means_a": "a", "result_absolute": "a", "means_r": "r", "result_relative": "r"}.get(route, "b")
        D[key] = hx(width)
        if route.startswith("result"):
            D["via_result"] = rng.random() < 0.5
        D["no_limits"] = route in ("means_a", "means_r") and rng.random() < 0.5
        for i in used:
            p = pool[i]
            lo, hi = unhex(p["lo"]), unhex(p["hi"])
            m = q(rng.uniform(lo, hi)) if lo != -INF and hi != INF else q(unhex(p["mean"]) + rng.uniform(-1, 1))
            if m == 0.0 and key == "r":
                m = 0.5
            D["means"][str(i)] = hx(m)
            if key == "b":
                H["pool"][i] = {"fam": "Uniform", "lo": hx(m - width), "hi": hx(m + width)}
            else:
                lim = (hx(-INF), hx(INF)) if D["no_limits"] else (p["lo"], p["hi"])
                H["pool"][i] = {"fam": "Gaussian", "lo": lim[0], "hi": lim[1], "mean": hx(m),
                                "sigma": hx(width if key == "a" else width * abs(m))}
    return D, H


NO_ARGUMENT_ROUTES = ("copy", "freeze", "freeze_unfreeze")      # derivations that do not go through gaussian_prior_model_for_arguments


def derive_labels(base, steps):
    """label of the recorded finding derived-tuple-member-order, computed from the case: the source holds a tuple with a
    fixed member before a free one and some step goes through gaussian_prior_model_for_arguments"""
    if all(d["route"] in NO_ARGUMENT_ROUTES for d in steps):
        return []
    for _, n in walk_spec(base["model"]):
        if n["t"] == "tuple":
            kinds = [v["t"] == "prior" for _, v in n["members"]]
            if any(not a and b for i, a in enumerate(kinds) for b in kinds[i + 1:]):
                return ["derived_tuple_order"]
    return []


MEANS_ROUTES = ("means_a", "means_r", "result_absolute", "result_relative")


def coll_direct_prior(spec):
    """a prior held directly by a Collection: prior passing by means takes its limits from the configuration of whatever class
    the collection reports for it (not from the prior) -- the new limits are then the configuration's business, not C07's"""
    return any(n["t"] == "coll" and any(v["t"] == "prior" for _, v in n["items"]) for _, n in walk_spec(spec["model"]))


def derive_cases(rng, gen, S, quick):
    """pairs (model composed by hand, model derived by the library from S) that must share one identifier -- directly,
    through the files a fit of the derived model writes, and after a second derivation -- and the derived model itself
    for the correspondence"""
    if not derive_eligible(S):
        return []
    out = []
    base = _copy.deepcopy(S)
    base.pop("build", None)
    routes = rng.sample(sorted(set(DERIVE_ROUTES)), 3 if quick else 6)
    if "item_number" in features(S):        # positional collections: every replacing route is tried over a few bases
        routes = sorted(set(routes) | {rng.choice(["identity", "partial", "args", "with_limits", "means_a", "uniform_floats"])})
    second = ["partial", "with_limits", "means_a", "identity", "copy", "uniform_floats"]
    if coll_direct_prior(S):
        routes = [r_ for r_ in routes if r_ not in MEANS_ROUTES] or ["partial"]
        second = [r_ for r_ in second if r_ not in MEANS_ROUTES]
    for route in routes:
        D, H = derive_step(rng, gen, base, route)
        steps, hand, pools = [D], H, [H["pool"]]
        if rng.random() < 0.3:              # a derived model is derived again (a cell of a grid over a passed prior model)
            D2, hand = derive_step(rng, gen, H, rng.choice(second))
            steps.append(D2)
            pools.append(hand["pool"])
        how = "derive:" + "+".join(d["route"] for d in steps)
        b = with_build(base, derive=steps)
        lab = derive_labels(base, steps)
        out.append({"kind": "pair", "how": how, "expect": "same", "a": hand, "b": b, "labels": list(lab)})
        r = rng.random()
        if r < 0.5:
            out.append({"kind": "pair", "how": "derive_files:" + how[7:], "expect": "same", "a": hand,
                        "b": with_build(base, derive=steps, route="files", export=rng.random() < 0.3),
                        "labels": lab + reload_labels(hand, "files")})
        if r > (0.6 if quick else 0.3):
            out.append({"kind": "fit", "spec": b, "hand": hand, "step_pools": pools, "labels": list(lab)})
        # the derived model still differs from the model it was derived from whenever a prior changed
        if hand["pool"] != base["pool"] and rng.random() < 0.3 and _json.dumps(hand["pool"], sort_keys=True) != _json.dumps(base["pool"], sort_keys=True):
            changed = [i for i in used_refs(base) if hand["pool"][i] != base["pool"][i]]
            if any(prior_distinct(hand["pool"][i], base["pool"][i]) for i in changed):
                out.append({"kind": "pair", "how": "derive_differs", "expect": "differ", "a": base, "b": b, "labels": []})
    return out


def prior_distinct(p, q):
    """two prior specifications whose descriptions differ clearly (family, or a parameter by more than the resolution)"""
    if p["fam"] != q["fam"]:
        return True
    keys = ("lo", "hi") + (("mean", "sigma") if p["fam"] in ("Gaussian", "LogGaussian") else ())
    for k in keys:
        a, b = unhex(p[k]), unhex(q[k])
        if a != b and (a in (INF, -INF) or b in (INF, -INF) or abs(a - b) > 2.5e-8):
            return True
    return False


# ---------------------------------------------------------------------------------------
# generic values for the walk
# ---------------------------------------------------------------------------------------
def gen_value(rng, depth=0):
    r = rng.random()
    if depth >= 3:
        r = r * 0.5
    if r < 0.14:
        v = rng.choice([0.0, -0.0, 1.0, 0.1 + 0.2, 1e-9, 5e-9, 1.5e-8, 2.5e-8, 1e22, 1e300, -1e300, float("inf"), float("-inf"),
                        rng.uniform(-10, 10), rng.randint(-10 ** 7, 10 ** 7) * 1e-8 + 5e-9, rng.uniform(-1, 1) * 10 ** rng.randint(-12, 15)])
        return ["f", hx(v)]
    if r < 0.16:
        return ["f", "nan"] if rng.random() < 0.3 else ["f", hx(rng.uniform(0, 1))]
    if r < 0.24:
        return ["i", rng.choice([0, 1, -1, 7, 10 ** 12, -10 ** 20, rng.randint(-1000, 1000)])]
    if r < 0.29:
        return ["b", rng.random() < 0.5]
    if r < 0.37:
        return ["s", rng.choice(["", "a", "x.y", "_private", "id", "paths", "1.0", "True", "lower_limit", "with space", "Model"])]
    if r < 0.41:
        return ["none"]
    if r < 0.43:
        return ["exc"] if rng.random() < 0.25 else ["none"]
    if r < 0.46:
        return ["cls", rng.choice(["A2", "Plain", "B3"])]
    if r < 0.58:
        keys = rng.sample(["a", "b", "_hidden", "id", "paths", "_", "k.l", "idx", "path", "Id", "", "zz"], rng.randint(0, 5))
        return ["dict", [[k, gen_value(rng, depth + 1)] for k in keys]]
    if r < 0.62:
        keys = rng.sample(range(-3, 30), rng.randint(1, 3))
        return ["idict", [[str(k), gen_value(rng, depth + 1)] for k in keys]]
    if r < 0.72:
        return [rng.choice(["seq", "tup"]), [gen_value(rng, depth + 1) for _ in range(rng.randint(0, 4))]]
    if r < 0.82:
        cls = rng.choice(["Plain", "PlainEx", "Plain"])
        kw = [[k, ["f", hx(rng.randint(-8, 8) / 4.0)]] for k in rng.sample(["p", "q"], rng.randint(0, 2))]
        extra = [[k, gen_value(rng, depth + 1)] for k in rng.sample(["zz", "_u", "id", "p", "other"], rng.randint(0, 2))]
        return ["obj", cls, kw, extra]
    if r < 0.88:
        kw = []
        if rng.random() < 0.5:
            kw.append(["m", gen_value(rng, depth + 1)])
        if rng.random() < 0.5:
            kw.append(["n", gen_value(rng, depth + 1)])
        return ["obj", "Fielded", kw, []]
    if r < 0.90:
        return ["obj", "Broken", [], []]
    if r < 0.93:
        g = Gen(rng, clean=False)
        return ["prior", g.prior_spec()]
    if r < 0.95:
        return ["gridsearch", rng.randint(1, 9), rng.randint(1, 4)]
    k = rng.random()
    if k < 0.35:      # values no branch applies to
        return rng.choice([["np", "int64", rng.randint(-9, 99)], ["np", "float32", rng.randint(-20, 20) / 4.0],
                           ["np", "bool_", rng.random() < 0.5], ["np", "complex", rng.randint(1, 5)]])
    if k < 0.45:
        return ["np0d", hx(rng.randint(-8, 8) / 4.0)]                       # iteration raises TypeError
    if k < 0.55:
        return ["nparr", [hx(rng.randint(-80, 80) / 8.0) for _ in range(rng.randint(0, 3))]]   # elements are numpy.float64 = float
    if k < 0.8:       # iteration order of a set of strings follows the hash seed of the process
        return [rng.choice(["set", "fset"]), rng.sample(["a", "b", "c", "dd", "e1", "mass", "x.y", "7"], rng.randint(0, 5))]
    return ["dictsub", [[kk, gen_value(rng, depth + 1)] for kk in rng.sample(["a", "b", "note", "_z"], rng.randint(0, 3))],
            hx(rng.randint(-8, 8) / 4.0)]


def value_has(v, tag):
    if v[0] == tag:
        return True
    if v[0] in ("seq", "tup"):
        return any(value_has(x, tag) for x in v[1])
    if v[0] in ("dict", "idict"):
        return any(value_has(x, tag) for _, x in v[1])
    if v[0] == "obj":
        return any(value_has(x, tag) for _, x in v[2] + v[3])
    if v[0] == "dictsub":
        return any(value_has(x, tag) for _, x in v[1])
    return False


def big_set(v):
    """contains a set / frozenset of at least two strings (its iteration order is hash-seed dependent)"""
    if v[0] in ("set", "fset"):
        return len(set(v[1])) >= 2
    if v[0] in ("seq", "tup"):
        return any(big_set(x) for x in v[1])
    if v[0] in ("dict", "idict", "dictsub"):
        return any(big_set(x) for _, x in v[1])
    if v[0] == "obj":
        return any(big_set(x) for _, x in v[2] + v[3])
    return False


# ---------------------------------------------------------------------------------------
# cases of one run
# ---------------------------------------------------------------------------------------
def gen_cases(ctx):
    rng = ctx.rng
    quick = ctx.tier != "thorough"
    nbase = 44 if quick else 800
    cases = []
    fits = 0
    for k in range(nbase):
        # 5 of 8 base specifications are free of every feature with a recorded finding, 2 use exactly one, 1 both
        allow = [[], [], [], [], ["fixed_model"], [], [], list(Gen.KNOWN)][k % 8]
        gen = Gen(rng, allow=allow, max_depth=2 if k % 3 else 3)
        S = gen.fit()
        cases.append({"kind": "fit", "spec": S})
        cases += equal_pairs(rng, S, quick)
        dp = differ_pairs(rng, S, gen)
        cases += dp
        # a sample of the perturbed specifications also goes through the full correspondence
        for c in rng.sample(dp, min(len(dp), 2 if quick else 3)):
            cases.append({"kind": "fit", "spec": c["b"]})
        # one search object re-used for a second fit: the cached identifier must follow (model / tag / both)
        if dp and k % 2 == 0:
            other = rng.choice([c for c in dp if c["expect"] == "differ" and not c["labels"] and c["a"] is S
                                and not c["how"].startswith("search")] or [None])
            if other is not None:
                b = with_build(S, route="refit")
                b["then"] = {"model": other["b"]["model"], "pool": other["b"]["pool"], "tag": other["b"].get("tag")}
                cases.append({"kind": "pair", "how": "refit", "expect": "same", "a": S, "b": b, "labels": []})
        cases += derive_cases(rng, gen, S, quick)
        if fit_eligible(S) and fits < (6 if quick else 60):
            fits += 1
            a = _copy.deepcopy(S)
            if a["search"]["cls"] == "DynestyStatic":      # settings dynesty accepts, small enough to finish
                a["search"]["settings"].update(nlive=rng.choice([20, 25, 30]), bound=rng.choice(["multi", "single"]),
                                               sample=rng.choice(["auto", "unif"]), bootstrap=None, enlarge=None,
                                               walks=rng.choice([5, 6]), facc=0.5, slices=5, fmove=0.9, max_move=100)
                a["search"]["run"] = {"maxcall": 150}
            b = with_build(a, route="fit")
            cases.append({"kind": "pair", "how": "fit", "expect": "same", "a": a, "b": b, "labels": reload_labels(S, "fit")})
    for _ in range(3 if quick else 20):
        cases += special_pairs(rng, Gen(rng, clean=True))
    # fit histories on one search object: many with the mock search (the real NonLinearSearch.fit, no sampling), some with real samplers
    for k in range(24 if quick else 300):
        cases.append(gen_history(rng, quick_search=(k % 8 != 0)))
    for _ in range(120 if quick else 2500):
        v = gen_value(rng)
        cases.append({"kind": "walk", "value": v, "labels": []})      # (sets used to carry the label of a finding, repaired in 9943127)
    specials = [0.0, -0.0, 5e-9, -5e-9, 1.5e-8, 2.5e-8, 3.5e-8, 0.1 + 0.2, 1e-8, 0.30000000000000004, 1e10 + 0.5, 2.0 ** 53 * 1e-8,
                4.6e10, 9.3e10, 1e11, 1e15, 1e22, 1e300, -1e300, 1.7976931348623157e308, 5e-324, 1e-300,
                float("inf"), float("-inf"), float("nan"), 123456789.123456789, -0.999999995, 0.999999995]
    for v in specials:
        cases.append({"kind": "round", "v": hx(v)})
    for _ in range(150 if quick else 6000):
        r = rng.random()
        if r < 0.4:
            v = (rng.randint(-10 ** 9, 10 ** 9) + 0.5) * 1e-8          # near ties
        elif r < 0.7:
            v = rng.uniform(-1, 1) * 10 ** rng.randint(-10, 12)
        else:
            v = rng.uniform(-100, 100)
        cases.append({"kind": "round", "v": hx(v)})
    return cases


def gen_history(rng, quick_search):
    """one search object, 3-5 real fits; before each fit the user changes / clears / sets / keeps search.unique_tag,
    sometimes the model too; the paths object may arrive with a tag of its own"""
    for _ in range(50 if quick_search else 0):
        gen = Gen(rng, clean=True, max_depth=1)
        S = gen.fit()
        if fit_eligible(dict(S, search={"cls": "LBFGS", "settings": {}})):
            break
    else:
        # real samplers get benign priors (drawing inside narrow limits of a wide Gaussian never ends: not C07's subject)
        benign = lambda: {"fam": "Uniform", "lo": hx(rng.randint(-8, 0) / 4.0), "hi": hx(rng.randint(1, 12) / 4.0)}
        S = {"model": {"t": "coll", "form": "dict", "items": [
                ["g", {"t": "model", "cls": "A2", "attrs": [["a", {"t": "prior", "ref": 0}], ["b", {"t": "prior", "ref": 1}]], "extras": []}],
                ["h", {"t": "model", "cls": "A1", "attrs": [["u", {"t": "prior", "ref": rng.choice([0, 2])}]], "extras": []}]]},
             "pool": [benign(), benign(), benign()]}
    tags = ["d0", "d1", "dataset_2", "t.x"]
    init = {"ctor_tag": rng.choice([None, "d0", "ctor"])}
    if rng.random() < 0.35:
        init["paths_tag"] = rng.choice(["old", "d0", None])
    steps, cur, model, pool = [], init["ctor_tag"], S["model"], S["pool"]
    for k in range(rng.randint(3, 5)):
        r = rng.random()
        if k == 0 and r < 0.5:
            pass                                   # first fit with the tag given at construction
        elif r < 0.45:
            cur = rng.choice([t for t in tags if t != cur])        # changed
        elif r < 0.65:
            cur = None                             # cleared
        elif r < 0.8 and cur is None:
            cur = rng.choice(tags)                 # set
        if rng.random() < 0.3:                    # another model as well
            g2 = Gen(rng, clean=True)
            g2.pool = []
            if quick_search:
                model = {"t": "model", "cls": rng.choice(["A2", "C2"]), "attrs": [["a", g2.prior()], ["b", g2.const() if rng.random() < 0.5 else g2.prior()]], "extras": []}
                pool = g2.pool
            else:
                model = {"t": "model", "cls": rng.choice(["A2", "C2"]), "attrs": [["a", {"t": "prior", "ref": 0}], ["b", g2.const()]], "extras": []}
                pool = [{"fam": "Uniform", "lo": hx(rng.randint(-8, 0) / 4.0), "hi": hx(rng.randint(1, 12) / 4.0)}]
        steps.append({"model": model, "pool": pool, "tag": cur})
    cls = "MockSearch" if quick_search else rng.choice(["Drawer", "LBFGS"])
    search = {"cls": cls, "settings": {"total_draws": rng.choice([2, 3])} if cls == "Drawer" else {}}
    return {"kind": "history", "search": search, "init": init, "steps": steps, "labels": []}


def history_oracle(c, r):
    out = []
    seen = {}
    for k, (st, o) in enumerate(zip(c["steps"], r["steps"])):
        if "raised" in o:
            out.append(("fit %d of a history: the identifier raised %s" % (k, o["raised"]), False))
            continue
        if o["fresh"] != o["fresh_walk"]:
            out.append(("fit %d: a fresh search's paths.identifier is not Identifier([search, model, tag])" % k, False))
        if o["paths_identifier"] != o["fresh"]:
            out.append(("fit %d of one search object (tag %r, tags before: %r, paths handed over with %r) has identifier %s, a fresh search "
                        "with the same settings, model and tag gets %s" % (k, st.get("tag"), [s.get("tag") for s in c["steps"][:k]],
                                                                        c.get("init", {}).get("paths_tag", "<own paths>"),
                                                                        o["paths_identifier"], o["fresh"]), False))
        if o["folder"] != o["paths_identifier"]:
            out.append(("fit %d: the output folder is not named by the identifier" % k, False))
        if st.get("tag") is not None and st["tag"] not in o["path_parts"]:
            out.append(("fit %d: the output path %s does not contain the unique tag %r" % (k, o["path_parts"], st["tag"]), False))
        key = _json.dumps([st["model"], st["pool"]], sort_keys=True)
        for (key2, tag2), ident2 in seen.items():
            if key2 == key and tag2 != st.get("tag") and ident2 == o["paths_identifier"]:
                out.append(("fits %d and an earlier one differ only in their unique tag (%r / %r) and claim one identifier" % (k, st.get("tag"), tag2), False))
        seen[(key, st.get("tag"))] = o["paths_identifier"]
    return out[:1]


def case_key(c):
    return {k: v for k, v in c.items() if k not in ("labels", "corpus")}


def is_nontrivial(c):
    k = c["kind"]
    if k == "fit":
        return nontrivial(c["spec"])
    if k == "pair":
        return nontrivial(c["a"]) or c["how"].startswith(("search", "tag", "nonid"))
    if k == "walk":
        return c["value"][0] in ("seq", "tup", "dict", "idict", "obj", "gridsearch", "prior", "dictsub", "set", "fset", "nparr")
    if k == "round":
        return True
    if k == "history":
        tags = [s.get("tag") for s in c["steps"]]
        return len(set(tags)) >= 2
    return False


def oracle(c, r):
    """Direct statement of C07 on the implementation's outputs.  Returns a list of (message, labelled): `labelled`
    failures may be matched against the case's known-finding labels, the others (free-parameter count, tag,
    folder name, refit) never are.  (oracle_msg gives the first message or None.)"""
    k = c["kind"]
    if k == "history":
        return history_oracle(c, r)
    if k == "fit":
        if "raised" in r:
            return [("identifier of a valid fit raised %s" % r["raised"], True)]
        if not r.get("md5_ok"):
            return [("str(identifier) is not the md5 of the joined description", False)]
        if r.get("paths_identifier") != r["identifier"]:
            return [("search.paths.identifier differs from Identifier([search, model, tag])", False)]
        return []
    if k == "pair" and c["how"] == "refit":
        st = r["b"].get("steps")
        if not st:
            return [("refit raised %s" % r["b"].get("raised"), False)]
        out = []
        for i, x in enumerate(st):
            if x["paths_identifier"] != x["fresh"]:
                out.append(("after re-using a search for another fit (step %d) paths.identifier is not the identifier of "
                            "the search, model and tag it now holds" % i, False))
            if x["folder"] != x["paths_identifier"]:
                out.append(("after re-using a search (step %d) the output folder is not named by the identifier" % i, False))
        if st[0]["paths_identifier"] != st[2]["paths_identifier"]:
            out.append(("the same fit set again on the same search has another identifier", False))
        if st[0]["paths_identifier"] == st[1]["paths_identifier"]:
            out.append(("two different fits run one after the other on one search share an identifier", False))
        return out[:1]
    if k == "pair":
        a, b = r["a"], r["b"]
        if "raised" in a:
            return [("identifier of the base fit raised %s" % a["raised"], True)]
        # the observable is search.paths.identifier (the folder name) wherever a paths object exists
        ida = a.get("paths_identifier") or a["identifier"]
        idb = b.get("identifier") if b.get("route") in ("reload", "files", "fit") else (b.get("paths_identifier") or b.get("identifier"))
        if b.get("skipped"):
            return []
        out = []
        if c["expect"] == "same":
            if b.get("route") == "reload":
                pc = b.get("prior_count")
                if pc and pc[0] is not None and pc[1] is not None and pc[0] != pc[1]:
                    # (a ModifiedPrior silently replaced by a default prior changes the count: that IS the recorded finding;
                    #  a fixed component never does)
                    out.append(("reload changed the number of free parameters (%s -> %s)" % tuple(pc), False))
                if "reloaded_tag" in b and b.get("reloaded_tag") != c["a"].get("tag"):
                    out.append(("reload changed the unique tag", False))
            if b.get("route") in ("files", "fit") and "paths_identifier" in b:
                if b.get("folder") != b.get("paths_identifier") or not b.get("folder_exists"):
                    out.append(("output folder is not named by the identifier", False))
                if b.get("paths_identifier") != ida:
                    out.append(("paths.identifier of the written fit differs from the identifier", ["derived_tuple_order"]))
                if b.get("identifier") is not None and b.get("identifier") != b.get("folder"):
                    out.append(("the fit wrote its files to folder %s but model.json / search.json read back from that folder "
                                "(SearchOutput.id) give the identifier %s" % (b.get("folder"), b.get("identifier")),
                                ["reload:fixed_model"]))
            if "raised" in b:
                out.append(("equal construction (%s): %s at stage %s of going through the fit's own files"
                            % (c["how"], b["raised"], b.get("stage")), True))
            elif idb != ida:
                out.append(("equal construction (%s) has a different identifier" % c["how"], True))
            return out
        if "raised" in b:
            return [("identifier of the perturbed fit raised %s" % b["raised"], True)]
        if ida == idb:
            return [("two different fits (%s) have the same identifier" % c["how"], True)]
        return []
    if k == "walk":
        if "raised" in r:
            return []
        return [] if r.get("md5_ok") else [("str(identifier) is not the md5 of the joined description", False)]
    if k == "round":
        v = unhex(c["v"])
        if v != v:
            return [] if r.get("raised") == "ValueError" else [("nan did not raise ValueError", False)]
        if "raised" in r:
            return [("float %r raised %s" % (v, r["raised"]), False)]
        exp = repr(float(ref_round(v)))
        return [] if r["hash_list"] == [exp] else [("float %r is described as %s, expected %s (rounding to 1e-8)" % (v, r["hash_list"], exp), False)]
    return [("unknown kind", False)]


def oracle_msg(c, r):
    o = oracle(c, r)
    return o[0][0] if o else None


def coq_terms(c, r):
    """list of Coq `case` terms for one implementation result"""
    k = c["kind"]
    out = []
    if k == "fit" and c.get("hand") and "raised" not in r and r.get("abs_model"):
        # the fitted model was derived by the library: its shape and description against the model of the derivation
        # and against the composition by hand (ids erased on both sides)
        S, H = c["spec"], c["hand"]
        fl = spec_floats(S, set())
        spec_floats(H, fl)
        for pl in c["step_pools"]:
            spec_floats({"pool": pl, "model": {"t": "none"}, "search": S["search"]}, fl)
        abs_floats(r["abs_model"], fl)
        used = used_refs(S)
        steps = [clist([cpair(cZ(i), node_term({"t": "prior", "ref": i}, pl)) for i in used])
                 for d, pl in zip(S["build"]["derive"], c["step_pools"]) if d["route"] not in ("copy", "freeze", "freeze_unfreeze")]
        if all(ascii_ok(x) for x in r["hash_list"]):
            out.append("CDerive %s %s %s %s %s %s %s %s %s" % (
                str_table(fl), search_term(S["search"]), node_term(S["model"], S["pool"]), node_term(H["model"], H["pool"]),
                clist(steps), copt(S.get("tag"), cstr), cbool("derived_tuple_order" not in c.get("labels", [])),
                obj_term(r["abs_model"]), cslist(r["hash_list"])))
    elif k == "fit" and "raised" not in r and r.get("abs_model"):
        S = c["spec"]
        fl = spec_floats(S, set())
        abs_floats(r["abs_model"], fl)
        abs_floats(r["abs_search"], fl)
        if all(ascii_ok(x) for x in r["hash_list"]):
            out.append("CFit %s %s %s %s %s %s %s" % (
                str_table(fl), search_term(S["search"]), node_term(S["model"], S["pool"], S.get("build", {}).get("rename")),
                copt(S.get("tag"), cstr), obj_term(r["abs_search"]), obj_term(r["abs_model"]), cslist(r["hash_list"])))
    if k == "pair":
        b = r["b"]
        if c["b"].get("build", {}).get("route") == "reload":
            S = c["b"]
            mr = "model_raised" in b
            # (not compared: the silent-default case above; plain objects whose constructor arguments cannot be read
            #  back from their attributes -- KW / Renamed -- are rebuilt with their defaults, outside Model.reload's assumption)
            if "dropping_instance" not in features(S):
                out.append("CReload %s %s %s" % (node_term(S["model"], S["pool"]), cbool(mr), "ONone" if mr else obj_term(b["abs_model"])))
            sr = "search_raised" in b
            out.append("CReload %s %s %s" % (search_term(S["search"]), cbool(sr), "ONone" if sr else obj_term(b["abs_search"])))
        if c["b"].get("build", {}).get("route") in ("files", "fit") and "raised" not in b and b.get("abs_model") \
                and "dropping_instance" not in features(c["b"]) and "derived_tuple_order" not in c.get("labels", []):
            # (the files of a fit of a DERIVED model are read back to the shape of the equal model composed by hand)
            S = c["a"] if c["b"]["build"].get("derive") else c["b"]
            out.append("CReload %s false %s" % (node_term(S["model"], S["pool"]), obj_term(b["abs_model"])))
    if k == "walk":
        fl = abs_floats(r["abs"], set())
        raised = "raised" in r
        hl = [] if raised else r["hash_list"]
        if all(ascii_ok(x) for x in hl):
            out.append("CWalk %s %s %s %s" % (str_table(fl), obj_term(r["abs"]), cbool(raised), cslist(hl)))
    if k == "history" and all("hash_list" in o for o in r["steps"]):
        fl = set()
        for st in c["steps"]:
            spec_floats({"pool": st["pool"], "model": st["model"], "search": c["search"]}, fl)
        hls = [o["hash_list"] for o in r["steps"]]
        if all(ascii_ok(x) for hl in hls for x in hl):
            init = c.get("init", {})
            t0 = init["paths_tag"] if "paths_tag" in init else init.get("ctor_tag")
            out.append("CHistory %s %s %s %s %s" % (
                str_table(fl), search_term(c["search"]), copt(t0, cstr),
                clist([cpair(node_term(st["model"], st["pool"]), copt(st.get("tag"), cstr)) for st in c["steps"]]),
                clist([cslist(hl) for hl in hls])))
    if k == "round":
        v = unhex(c["v"])
        if "raised" in r:
            out.append("CRound %s None" % cfloat(v))
        else:
            out.append("CRound %s (Some %s)" % (cfloat(v), cfloat(float(r["hash_list"][0]))))
    return out


def run(ctx):
    ctx.rule = ("cases are (a) fit specifications = search class + all identifying settings + composition program (Model/Collection/"
                "tuple/arithmetic priors, fixed values, shared priors, plain instances) + tag, (b) pairs of specifications that must have "
                "the SAME identifier (other creation order/ids/labels, deepcopy, JSON reload, model.json/search.json written by "
                "paths.save_all or by a real fit and read by SearchOutput, other variable names, non-identifying search settings, "
                "sub-resolution float change) or a DIFFERENT one (one prior parameter/family, fixed value, class, sharing pattern, "
                "attribute, key, operator, identifying search setting, search class, tag), (c) generic Python values for the walk, "
                "incl. values the walk has no branch for (numpy scalars, complex, 0-d arrays), sets, a dict subclass, "
                "(d) single floats for the rounding, (e) models DERIVED by the library from a composition (identity arguments, "
                "mapper_from_partial_prior_arguments = grid-search cell, replacing, mapper_from_prior_arguments, with_limits, "
                "mapper_from_prior_means a/r, mapper_from_uniform_floats, model_absolute/relative/bounded of a SamplesSummary / Result, "
                "copy, freeze, unfreeze, derivation from a frozen model, two derivations in a row) paired with the equal model composed "
                "by hand: same identifier directly and through the files a fit of the derived model writes; must differ from the "
                "source when a prior changed. A fit/pair is non-trivial when the model has >= 2 priors and a shared prior, "
                "nesting >= 2, a tuple, arithmetic or a constant (search/tag pairs always); distinct = distinct abstract input")
    ctx.trusted = [
        "Coq 8.16.1 kernel incl. vm_compute; primitive floats are kernel primitives",
        "translator part of harness/vcheck/c07.py + pyexpr2coq.py regenerating coq/C07/Gen.v (RESOLUTION, rounding formula, key filter, "
        "join separator) from autofit/mapper/identifier.py on every run, fail closed",
        "abstraction of live objects in harness/impl/c07_impl.py (raw __dict__/getattr walk recording class name, __identifier_fields__, "
        "isinstance ModelObject, constructor arguments, __exclude_identifier_fields__) and the Coq literal printers",
        "Python str(float)/repr is an oracle table (py_str); hashlib.md5 is a Section variable assumed injective; json round trip of floats",
        "modelled not verified: CPython attribute/dict-order semantics, inspect.getfullargspec, frames seen by retrieve_name",
    ]
    ctx.assumptions = [
        "md5 injective on the joined descriptions considered (Section hypothesis of the sensitivity theorems)",
        "py_str injective on the rounded values considered (Section hypothesis; repr round-trips binary64)",
        "binary64 rounding itself is compared bit-for-bit by correspondence (CRound); the >1e-8 separation theorem is over exact rationals",
    ]
    try:
        infos = regenerate()
        FACTS["numpy_scalars_unwrapped"] = infos.pop("numpy_scalars_unwrapped")
        FACTS["sets_sorted"] = infos.pop("sets_sorted")
        ctx.translated = infos
        ctx.notes["code_facts"] = infos["facts"]["source"]
        ctx.obligation("translator:Gen.v", "translator", True, "%d items" % len(infos))
        translated = True
    except T.TranslationError as e:
        ctx.obligation("translator:Gen.v", "translator", False, str(e))
        translated = False
    if translated:
        ctx.build()
    cases = gen_cases(ctx)
    corpus_dir = os.path.join(common.VERIF, "corpus", "C07")
    if os.path.isdir(corpus_dir):
        for f in sorted(os.listdir(corpus_dir)):
            if f.endswith(".json"):
                cj = _json.load(open(os.path.join(corpus_dir, f)))
                cj["case"]["corpus"] = f
                cases.insert(0, cj["case"])
    if ctx.replay:
        rp = _json.load(open(ctx.replay))
        if rp.get("case"):
            cases = [rp["case"]]
    # implementation, in parallel chunks
    nchunk = max(1, min(common.NCPU, len(cases) // 40 or 1))
    chunks = [cases[i::nchunk] for i in range(nchunk)]
    outs = common.run_impl_parallel("c07_impl", [{"cases": ch, "facts": FACTS} for ch in chunks], timeout=900)
    results = [None] * len(cases)
    for ci, o in enumerate(outs):
        if "__error__" in o:
            ctx.obligation("impl-driver", "harness", False, o["__error__"][-800:])
            return
        for j, r in enumerate(o["results"]):
            results[ci + j * nchunk] = r
    # a second process with another hash seed and other ids: identifiers must be the same in every process
    # (fits and generic values are rebuilt there; files written by the first process are read back there)
    fit_idx = [i for i, c in enumerate(cases) if c["kind"] == "fit"][: (60 if ctx.tier != "thorough" else 400)]
    fit_idx += [i for i, c in enumerate(cases) if c["kind"] == "walk"][: (200 if ctx.tier != "thorough" else 1500)]
    second_cases = [cases[i] for i in fit_idx]
    for i, (c, r) in enumerate(zip(cases, results)):
        exp = (r.get("ok") or {}).get("b", {}).get("export") if c["kind"] == "pair" else None
        if exp:
            fit_idx.append(i)
            second_cases.append({"kind": "readback", "export": exp})
    order2 = list(range(len(second_cases)))
    ctx.rng.shuffle(order2)
    second = common.run_impl("c07_impl", {"cases": [second_cases[j] for j in order2], "facts": FACTS}, timeout=900,
                             extra_env={"PYTHONHASHSEED": str(1 + ctx.rng.randrange(10 ** 6))})
    if "__error__" in second:
        ctx.obligation("impl-driver-second-process", "harness", False, second["__error__"][-800:])
        return
    second_by_idx = {fit_idx[j]: second["results"][pos] for pos, j in enumerate(order2)}

    coq_cases, coq_owner = [], []
    corpus_failed = {}
    for i, (c, r) in enumerate(zip(cases, results)):
        labels = list(c.get("labels", []))
        kind = c["kind"] + (":" + c["how"].split(":")[0] if c["kind"] == "pair" else "")
        ctx.count_case(case_key(c), is_nontrivial(c), kind)
        ctx.oracle["cases"] += 1
        if c["kind"] in ("fit", "pair"):
            for f in sorted(features(c.get("spec") or c["a"])):
                ctx.hist("feature", f)
            ctx.hist("search", (c.get("spec") or c["a"])["search"]["cls"])
            dv = (c.get("spec") or c["b"]).get("build", {}).get("derive")
            if dv:
                for d in dv:
                    ctx.hist("derive_route", d["route"])
                ctx.hist("derive_source", "positional collection" if "item_number" in features(c.get("spec") or c["b"]) else "other")
        if "exc" in r:
            if c.get("corpus"):
                corpus_failed[c["corpus"]] = "driver failed: %s" % r["exc"]
            ctx.oracle["failures"] += 1
            ctx.failure("oracle", "driver failed on the case: %s %s" % (r["exc"], r.get("msg")), c, classes=labels, impl=r)
            continue
        ok = r["ok"]
        if c["kind"] == "pair" and ok["b"].get("skipped"):
            ctx.hist("skipped", ok["b"]["skipped"])
        msgs = oracle(c, ok)
        if not msgs and i in second_by_idx:
            o2 = second_by_idx[i].get("ok", {})
            if c["kind"] in ("fit", "walk") and ("raised" in ok) == ("raised" in o2) and o2.get("identifier") != ok.get("identifier"):
                msgs = [("identifier differs between two processes with different hash seeds (%s vs %s)"
                         % (ok.get("identifier"), o2.get("identifier")), True)]
            if c["kind"] == "pair" and o2.get("identifier", o2.get("raised")) != ok["b"].get("identifier", ok["b"].get("raised")):
                msgs = [("files written by one process are read to another identifier by a second process (%s vs %s)"
                         % (ok["b"].get("identifier"), o2.get("identifier", o2.get("raised"))), False)]
        if msgs and c.get("corpus"):
            corpus_failed[c["corpus"]] = msgs[0][0]
        for msg, labelled in msgs:
            ctx.oracle["failures"] += 1
            small = {k: (v if k not in ("abs_model", "abs_search", "abs") else "...") for k, v in ok.items()} if "a" not in ok else \
                {s: {k: v for k, v in ok[s].items() if not k.startswith("abs") and k != "export"} for s in ("a", "b")}
            usable = labels if labelled is True else [l for l in labels if labelled and l in labelled]
            ctx.failure("oracle", msg, c, classes=usable, impl=small)
        for t in coq_terms(c, ok):
            coq_cases.append(t)
            coq_owner.append(i)
        if i % 97 == 0:
            sm = _json.dumps(case_key(c))
            ctx.sample({"case": case_key(c) if len(sm) < 700 else {"kind": c["kind"], "how": c.get("how"), "size": len(sm)}}, limit=8)
    # every repaired finding keeps its pinned corpus case: it must pass now (a fixed entry suppresses nothing)
    if not ctx.replay:
        present = {c.get("corpus") for c in cases}
        for k in ctx.known:
            if k.get("status") == "fixed" and k.get("replay"):
                name = os.path.basename(k["replay"])
                if name in present:
                    ctx.obligation("regression:" + k["signature"], "regression", name not in corpus_failed,
                                   corpus_failed.get(name, "pinned case %s passes (repaired in %s)" % (name, k.get("commit"))))
                else:
                    ctx.obligation("regression:" + k["signature"], "regression", False, "pinned corpus case %s is missing" % name)
    if os.path.exists(os.path.join(common.COQ, "C07", "Model.vo")):
        hdr = ctx.header(["Common.PyFloat", "Gen", "Model"])
        bad, log = ctx.eval_cases(hdr, "case", "check_case", coq_cases, shard=max(20, len(coq_cases) // (2 * common.NCPU) + 1))
        if bad:
            for b in bad[: int(os.environ.get("C07_MAXREPORT", "5"))]:
                i = coq_owner[b]
                c, ok = cases[i], results[i].get("ok")
                ctx.failure("correspondence", "model and implementation disagree on a %s case: %s" % (c["kind"], coq_cases[b][:60]),
                            c, classes=[], impl=None, broken={"kind": "correspondence", "name": "C07.check_case"},
                            found_input=oracle_msg(c, ok) is not None)
    else:
        ctx.obligation("correspondence:cases", "correspondence", False, "Model.vo not built")


MANIFEST = {
    "text": "Coq 8.16 model of the identifier walk (Identifier._add_value_to_hash_list over abstract object graphs; RESOLUTION, the "
            "rounding formula, the skipped-key rule, the join separator and facts about neighbouring code -- declared identifier "
            "fields of arithmetic priors, item_number restoration, LogGaussianPrior.dict, Drawer, numpy unwrapping, set sorting -- "
            "are regenerated from the source on every run, fail closed), of the object shape of searches / models / priors / "
            "arithmetic priors and of the JSON reload. Theorems for all objects and contexts: description and exceptions of the walk "
            "depend only on what `strip` keeps (hence ids, creation order, copies, labels, caller variable names of arithmetic "
            "priors); every composition in the guard `reload_ok` (all but -x/abs x and components without free parameters) reloads "
            "to the same description, by induction, although the reloaded tree differs; a change of one token / a separator-free "
            "head token / nothing-to-something / a renamed key / an added item, in ANY context of visible selected keys, changes the "
            "joined description (leaves for fixed values, ints, bools, strings, prior family and each prior parameter, class, search "
            "setting, search class, tag); exact-arithmetic separation beyond RESOLUTION and a kernel-checked binary64 sweep on three "
            "stated ranges. Refutation witnesses replayed on the code: sharing invisible, dropped numpy scalars / keyword-only "
            "arguments, type collapse, fixed sub-models and modified priors on reload, regrouping and '.'-join collisions. "
            "vm_compute correspondence token by token and shape by shape with the running code, plus a direct oracle on equal "
            "constructions (ids, order, labels, deepcopy, keyword order, JSON, files written by save_all and by real fits read "
            "through SearchOutput in the same and in another process, a search re-used for a second fit, configuration defaults "
            "given explicitly, sub-resolution floats; models derived by the library -- grid-search cells, replacing, prior passing "
            "by means / uniform floats / a Result, with_limits, copies, freezing, chained derivations -- against the equal model "
            "composed by hand, directly and through the files a fit of the derived model writes, with theorems "
            "C07_derived_same_identifier / _copy_same_identifier / _roundtrip over a model of gaussian_prior_model_for_arguments whose "
            "item_number rule is read from the source) and on every single-field perturbation class incl. the 1e-8..2.5e-8 band, for "
            "all eleven search classes",
    "note": "Trusted: Coq kernel + vm_compute, the translator part of c07.py, the live-object abstraction of c07_impl.py (it mirrors two "
            "code facts: numpy unwrapping, set sorting), str(float) and md5 as oracle / injectivity hypotheses. The sensitivity "
            "theorems are per perturbation in context, not global injectivity (refuted). A ModifiedPrior under a class with prior "
            "configuration (silent default on reload) and plain objects whose constructor arguments cannot be read back are checked "
            "by the oracle only. identifier_version config, md5 collisions, Array models are not covered. Derivations of models holding arithmetic "
            "priors and Result.model (widths from configuration) are not generated. Eight genuine defects are "
            "recorded as known findings (one with a proposed repair); four were repaired in /repo during construction.",
    "technique": "machine-checked proof in Coq (translator-regenerated constants and code facts) + vm_compute correspondence + property oracle",
}
