"""C04 -- the figure of merit handed to a search (DESIGN.md section 5, C04)."""
import ast
import json
import math
import os

from . import common
from . import pyexpr2coq as T
from . import c04_stmt
from .common import cfloat, cnat, cbool, clist, copt, cpair

FIT = "autofit/non_linear/fitness.py"
PS = "autofit/non_linear/search/mle/pyswarms/search/abstract.py"
GEN = os.path.join(common.COQ, "C04", "Gen.v")

# ---------------------------------------------------------------------------
# translator: leaf formulas + implementation traits, regenerated on every run
# ---------------------------------------------------------------------------


def _relocate(new, orig):
    ast.copy_location(new, orig)
    ast.fix_missing_locations(new)
    return new


def _ll_plus_sum(fn, target, listname, producer):
    """`<target> = log_likelihood + sum(<listname>)` where <listname> is assigned from
    self.model.<producer>(vector=...)  ->  the expression `log_likelihood + sum_<listname>`."""
    def is_sum(n):
        return isinstance(n, ast.Call) and T._dotted(n.func) == "sum"
    cands = [a for a in T.assigns(fn, target) if isinstance(a, ast.Assign) and isinstance(a.value, ast.BinOp)
             and (is_sum(a.value.right) or is_sum(a.value.left))]
    if len(cands) != 1:
        raise T.TranslationError("expected exactly one `%s = <a> <op> sum(...)` (found %d)" % (target, len(cands)))
    v = cands[0].value
    r = v.right
    if not (is_sum(r) and len(r.args) == 1 and not r.keywords and T._dotted(r.args[0]) == listname):
        raise T.TranslationError("right operand of `%s = ...` is not sum(%s)" % (target, listname))
    src = T.assigns(fn, listname)
    if len(src) != 1 or not (isinstance(src[0].value, ast.Call) and T._dotted(src[0].value.func) == "self.model." + producer):
        raise T.TranslationError("%s is not assigned once from self.model.%s(...)" % (listname, producer))
    new = ast.BinOp(left=v.left, op=v.op, right=ast.Name(id="sum_" + listname, ctx=ast.Load()))
    return _relocate(new, v)


def _mentions(node, dotted):
    return any(T._dotted(n) == dotted for n in ast.walk(node))


def _is_nan(node):
    if T._dotted(node) in ("np.nan", "numpy.nan", "math.nan", "np.NaN"):
        return True
    return isinstance(node, ast.Call) and T._dotted(node.func) == "float" and len(node.args) == 1 \
        and isinstance(node.args[0], ast.Constant) and str(node.args[0].value).lower() == "nan"


def _one(cands, what):
    if len(cands) != 1:
        raise T.TranslationError("expected exactly one %s, found %d" % (what, len(cands)))
    return cands[0]


def _fit_assign(fn, i):
    """The assignments to figure_of_merit in Fitness.__call__, by role (not by count):
    0 = the likelihood-mode value (an expression over log_likelihood without sum / figure_of_merit),
    2 = the chi-squared conversion (the one that reads figure_of_merit)."""
    al = T.assigns(fn, "figure_of_merit")
    conv = [a for a in al if isinstance(a, ast.AugAssign) or _mentions(a.value, "figure_of_merit")]
    if i == 2:
        return _one(conv, "conversion `figure_of_merit = f(figure_of_merit)` in Fitness.__call__")
    plain = [a for a in al if a not in conv and isinstance(a, ast.Assign) and _mentions(a.value, "log_likelihood")
             and not any(isinstance(n, ast.Call) for n in ast.walk(a.value))]
    return _one(plain, "likelihood-mode assignment `figure_of_merit = <log_likelihood>` in Fitness.__call__")


def _chi2(fn):
    """`figure_of_merit *= c` (in place) or `figure_of_merit = <expr over figure_of_merit>`."""
    last = _fit_assign(fn, 2)
    if isinstance(last, ast.AugAssign):
        new = ast.BinOp(left=ast.Name(id="figure_of_merit", ctx=ast.Load()), op=last.op, right=last.value)
        return _relocate(new, last)
    return last


def _ps_assign(fn, i):
    """FitnessPySwarms.__call__ by role: 0 = value from log_posterior, 1 = nan in the FitException branch,
    2 = the resample value."""
    al = [a for a in T.assigns(fn, "figure_of_merit") if isinstance(a, ast.Assign)]
    if i == 0:
        return _one([a for a in al if _mentions(a.value, "log_posterior")], "`figure_of_merit = f(log_posterior)` in FitnessPySwarms.__call__")
    if i == 1:
        return _one([a for a in al if _is_nan(a.value)], "`figure_of_merit = nan` (FitException branch) in FitnessPySwarms.__call__")
    return _one([a for a in al if _mentions(a.value, "self.resample_figure_of_merit")],
                "`figure_of_merit = f(self.resample_figure_of_merit)` in FitnessPySwarms.__call__")


SPECS = [
    T.Spec("fit_likelihood", FIT, "Fitness.__call__", lambda f: _fit_assign(f, 0), [("log_likelihood", "float")], "float"),
    T.Spec("fit_posterior", FIT, "Fitness.__call__",
           lambda f: _ll_plus_sum(f, "figure_of_merit", "log_prior_list", "log_prior_list_from_vector"),
           [("log_likelihood", "float"), ("sum_log_prior_list", "float")], "float"),
    T.Spec("fit_chi2", FIT, "Fitness.__call__", _chi2, [("figure_of_merit", "float")], "float"),
    T.Spec("ps_posterior", PS, "FitnessPySwarms.__call__",
           lambda f: _ll_plus_sum(f, "log_posterior", "log_prior", "log_prior_list_from_vector"),
           [("log_likelihood", "float"), ("sum_log_prior", "float")], "float"),
    T.Spec("ps_fom", PS, "FitnessPySwarms.__call__", lambda f: (_ps_assign(f, 1), _ps_assign(f, 0))[1],
           [("log_posterior", "float")], "float"),
    T.Spec("ps_resample", PS, "FitnessPySwarms.__call__", lambda f: _ps_assign(f, 2),
           [("resample_figure_of_merit", "float")], "float"),
]

COPIERS = {"copy.copy", "copy.deepcopy", "np.copy", "np.array", "numpy.copy", "numpy.array", "list"}


def _history_appends(fn, listattr):
    out = []
    for n in ast.walk(fn):
        if isinstance(n, ast.Call) and T._dotted(n.func) == "self.%s.append" % listattr:
            if len(n.args) != 1 or n.keywords:
                raise T.TranslationError("unexpected call shape of %s.append" % listattr)
            out.append(n.args[0])
    return out


def _stored_by_reference(arg, names):
    """True: the bare caller object is appended; False: a copy is; anything else fails closed."""
    d = T._dotted(arg)
    if d in names:
        return True
    if isinstance(arg, ast.Call) and not arg.keywords and len(arg.args) == 1 and T._dotted(arg.args[0]) in names:
        f = T._dotted(arg.func)
        if f in COPIERS:
            return False
    if isinstance(arg, ast.Call) and not arg.args and not arg.keywords and isinstance(arg.func, ast.Attribute) \
            and arg.func.attr == "copy" and T._dotted(arg.func.value) in names:
        return False
    raise T.TranslationError("history append argument not understood: %s" % ast.dump(arg)[:120])


def traits(repo):
    """The three implementation traits of Model.impl, read off the source (fail closed)."""
    tree, _ = T.parse_file(repo, FIT)
    fn = T.find_function(tree, "Fitness.__call__")
    pa = _history_appends(fn, "parameters_history_list")
    la = _history_appends(fn, "log_likelihood_history_list")
    if len(pa) != 1 or len(la) != 1 or T._dotted(la[0]) != "log_likelihood":
        raise T.TranslationError("Fitness.__call__ no longer appends once to both history lists")
    alias = _stored_by_reference(pa[0], {"parameters"})
    inplace = isinstance(_fit_assign(fn, 2), ast.AugAssign)
    tree2, _ = T.parse_file(repo, PS)
    fn2 = T.find_function(tree2, "FitnessPySwarms.__call__")
    pa2 = _history_appends(fn2, "parameters_history_list")
    la2 = _history_appends(fn2, "log_likelihood_history_list")
    if len(pa2) != len(la2) or len(pa2) > 1:
        raise T.TranslationError("FitnessPySwarms.__call__ appends to the history lists inconsistently")
    pshist = len(pa2) == 1
    if pshist:
        if _stored_by_reference(pa2[0], {"params_of_particle"}) or T._dotted(la2[0]) != "log_likelihood":
            raise T.TranslationError("FitnessPySwarms.__call__ history does not store a copy of the particle / its likelihood")
    # Fitness.__init__: are the history lists created before the sanity evaluation that may append to them?
    init = T.find_function(tree, "Fitness.__init__")
    checks = [n for n in ast.walk(init) if isinstance(n, ast.Call) and T._dotted(n.func) == "self.check_log_likelihood"]
    created = T.assigns(init, "self.parameters_history_list") + T.assigns(init, "self.log_likelihood_history_list")
    if len(checks) != 1 or len(created) != 2:
        raise T.TranslationError("Fitness.__init__: expected one check_log_likelihood call and one creation of each history list")
    late = [a.lineno > checks[0].lineno for a in created]
    if late[0] != late[1]:
        raise T.TranslationError("Fitness.__init__: history lists created on different sides of check_log_likelihood")
    # check_log_likelihood: is the stored best vector evaluated through the fitness call (figure of merit, history)
    # or directly (instance_from_vector + the likelihood function)?
    chk = T.find_function(tree, "Fitness.check_log_likelihood")
    new_assign = T.assigns(chk, "log_likelihood_new")
    if len(new_assign) != 1 or not isinstance(new_assign[0].value, ast.Call):
        raise T.TranslationError("check_log_likelihood: log_likelihood_new is not assigned once from a call")
    callee = T._dotted(new_assign[0].value.func)
    if callee == "fitness":
        via_call = True
    elif callee in ("fitness.log_likelihood_function", "self.log_likelihood_function"):
        via_call = False
        inst = [n for n in ast.walk(chk) if isinstance(n, ast.Call) and T._dotted(n.func) == "self.model.instance_from_vector"]
        if len(inst) != 1 or any(T._dotted(n.func) in ("fitness", "self") for n in ast.walk(chk) if isinstance(n, ast.Call)):
            raise T.TranslationError("check_log_likelihood: direct evaluation not of the shape instance_from_vector + likelihood")
    else:
        raise T.TranslationError("check_log_likelihood: log_likelihood_new comes from %s" % callee)
    # nothing else may touch the history lists (truncation, clearing in __getstate__, ...): fail closed
    allowed = _history_nodes(fn) | _history_nodes(init)
    _history_untouched_elsewhere(tree, "Fitness", allowed)
    _history_untouched_elsewhere(tree2, "FitnessPySwarms", _history_nodes(fn2))
    return {"impl_alias_params": alias, "impl_inplace_chi2": inplace, "impl_pyswarms_history": pshist,
            "impl_ctor_history_late": late[0], "impl_ctor_via_call": via_call}


SEARCH_DIR = "autofit/non_linear/search"
HIST_ATTRS = ("parameters_history_list", "log_likelihood_history_list")


def _const(node):
    """Keyword constant of a Fitness(...) call: bool, number, +-np.inf, +-float("inf"); else fail closed."""
    if isinstance(node, ast.Constant) and isinstance(node.value, (bool, int, float)):
        return node.value
    if isinstance(node, ast.UnaryOp) and isinstance(node.op, ast.USub):
        v = _const(node.operand)
        return -v
    if T._dotted(node) in ("np.inf", "numpy.inf", "math.inf"):
        return INF
    if isinstance(node, ast.Call) and T._dotted(node.func) == "float" and len(node.args) == 1 \
            and isinstance(node.args[0], ast.Constant) and str(node.args[0].value).lower() in ("inf", "infinity"):
        return INF
    raise T.TranslationError("Fitness wiring: keyword value not a constant: %s" % ast.dump(node)[:80])


def wiring(repo):
    """Every `Fitness(...)` / `FitnessPySwarms(...)` construction below non_linear/search: the flags and the resample
    value the search designates.  -> [(relative file, pyswarms class?, like, resample, chi2)]"""
    out = []
    root = os.path.join(repo, SEARCH_DIR)
    for dp, _, files in sorted(os.walk(root)):
        for f in sorted(files):
            if not f.endswith(".py"):
                continue
            rel = os.path.relpath(os.path.join(dp, f), root)
            tree = ast.parse(open(os.path.join(dp, f)).read())
            k = 0
            for n in sorted((n for n in ast.walk(tree) if isinstance(n, ast.Call)), key=lambda n: (n.lineno, n.col_offset)):
                name = (T._dotted(n.func) or "").split(".")[-1]
                if name not in ("Fitness", "FitnessPySwarms"):
                    continue
                kw = {k_.arg: k_.value for k_ in n.keywords}
                if n.args or None in kw or "model" not in kw or "analysis" not in kw:
                    raise T.TranslationError("Fitness wiring in %s: call shape not understood" % rel)
                like = _const(kw["fom_is_log_likelihood"]) if "fom_is_log_likelihood" in kw else True
                res = _const(kw["resample_figure_of_merit"]) if "resample_figure_of_merit" in kw else -INF
                chi2 = _const(kw["convert_to_chi_squared"]) if "convert_to_chi_squared" in kw else False
                if not (isinstance(like, bool) and isinstance(chi2, bool)) or isinstance(res, bool):
                    raise T.TranslationError("Fitness wiring in %s: flag types not understood" % rel)
                out.append((rel if k == 0 else "%s#%d" % (rel, k), name == "FitnessPySwarms", like, float(res), chi2))
                k += 1
    if not out:
        raise T.TranslationError("no Fitness construction found below %s" % SEARCH_DIR)
    return out


def _history_untouched_elsewhere(tree, clsname, allowed):
    """Fail closed when anything but the understood statements mentions a history list inside class `clsname`:
    allowed = set of id(node) of the creation assignments' targets and the receivers of the .append calls."""
    cls = T.find_function(tree, clsname)
    for n in ast.walk(cls):
        if isinstance(n, ast.Attribute) and n.attr in HIST_ATTRS and id(n) not in allowed:
            raise T.TranslationError("%s line %d: history list used in a way the model does not know" % (clsname, n.lineno))
        if isinstance(n, ast.Constant) and isinstance(n.value, str) and n.value in HIST_ATTRS:
            raise T.TranslationError("%s line %d: history list addressed by name (state dict / getattr)" % (clsname, n.lineno))


def _history_nodes(fn):
    """ids of the Attribute nodes of `self.<list>.append(...)` receivers and of `self.<list> = []` targets in fn."""
    ids = set()
    for n in ast.walk(fn):
        if isinstance(n, ast.Call) and isinstance(n.func, ast.Attribute) and n.func.attr == "append" \
                and isinstance(n.func.value, ast.Attribute) and n.func.value.attr in HIST_ATTRS:
            ids.add(id(n.func.value))
        if isinstance(n, ast.Assign) and len(n.targets) == 1 and isinstance(n.targets[0], ast.Attribute) \
                and n.targets[0].attr in HIST_ATTRS and isinstance(n.value, ast.List) and not n.value.elts:
            ids.add(id(n.targets[0]))
    return ids


def regenerate(repo=None):
    repo = repo or common.REPO
    tmp = GEN + ".tmp%d" % os.getpid()
    try:
        infos = T.generate(repo, SPECS, tmp, "C04 leaf formulas of Fitness.__call__ / FitnessPySwarms.__call__ and implementation traits")
        text = open(tmp).read()
    finally:
        if os.path.exists(tmp):
            os.remove(tmp)
    tr = traits(repo)
    text += "\n(* implementation traits read off the source (see harness/vcheck/c04.py:traits) *)\n"
    for k in sorted(tr):
        text += "Definition %s : bool := %s.\n" % (k, "true" if tr[k] else "false")
    w = wiring(repo)
    text += ("\n(* how every search constructs its fitness (see harness/vcheck/c04.py:wiring):\n"
             "   file below autofit/non_linear/search, (FitnessPySwarms?, fom_is_log_likelihood, resample_figure_of_merit,\n"
             "   convert_to_chi_squared) *)\n"
             "From Coq Require Import String List.\nImport ListNotations.\n"
             "Definition wiring : list (string * (bool * bool * float * bool)) :=\n [\n")
    text += ";\n".join('  ("%s"%%string, (%s, %s, %s, %s))' % (f, cbool(ps), cbool(like), cfloat(res), cbool(chi2))
                       for f, ps, like, res, chi2 in w)
    text += "\n ].\n"
    # statement-level translation of the two method bodies (harness/vcheck/c04_stmt.py)
    text += ("\n(* ====== STATEMENT-LEVEL TRANSLATION of Fitness.__call__ and FitnessPySwarms.__call__ (c04_stmt.py) ======\n"
             "   whole method bodies in continuation-passing style over coq/C04/PyStmt.v; everything not interpreted is a\n"
             "   named Section variable; Proofs.v proves these definitions equal to the hand-written model. *)\n"
             "From PAFC04 Require Import PyStmt.\nLocal Open Scope list_scope.\nLocal Open Scope type_scope.\n")
    stmt_reports = {}
    for name, file, qual, pty in (("Fitness_call", FIT, "Fitness.__call__", "Obj"),
                                  ("FitnessPySwarms_call", PS, "FitnessPySwarms.__call__", "Params")):
        sec, rep = c04_stmt.translate(repo, name, file, qual, pty, infos, SPECS)
        text += "\n(* %s:%s\n%s *)\n" % (file, qual, "\n".join("     " + x.replace("(*", "( *").replace("*)", "* )") for x in rep["statements"]))
        text += sec + "\n"
        stmt_reports[name] = rep
    old = open(GEN).read() if os.path.exists(GEN) else None
    if old != text:
        with open(GEN, "w") as f:
            f.write(text)
    infos["__traits__"] = tr
    infos["__wiring__"] = w
    infos["__stmt__"] = stmt_reports
    return infos


# ---------------------------------------------------------------------------
# generator
# ---------------------------------------------------------------------------
INF = float("inf")
NAN = float("nan")


def unhex(s):
    return float(s) if s in ("nan", "inf", "-inf") else float.fromhex(s)


def hx(x):
    x = float(x)
    if math.isnan(x):
        return "nan"
    if math.isinf(x):
        return "inf" if x > 0 else "-inf"
    return x.hex()


def rfloat(rng, scale=4.0):
    r = rng.random()
    if r < 0.45:
        return rng.randint(-int(scale * 8), int(scale * 8)) / 8.0
    if r < 0.75:
        return round(rng.uniform(-scale, scale), rng.randint(1, 4))
    if r < 0.97:
        return rng.uniform(-scale, scale)
    return rng.choice([1e300, -1e300, 1e-300, 0.0, -0.0, 1e155])


def gen_prior(rng):
    k = rng.choice(["U", "U", "G", "G", "LU", "LG"])
    if k == "U":
        lo = rfloat(rng)
        lo = 0.0 if abs(lo) > 1e100 else lo
        hi = lo + rng.choice([0.125, 0.5, 1.0, 2.0, 3.75, rng.uniform(0.01, 5.0)])
        return {"kind": "U", "a": hx(0.0), "b": hx(0.0), "lo": hx(lo), "hi": hx(hi)}
    if k == "G":
        mean = rng.randint(-16, 16) / 4.0 if rng.random() < 0.6 else rng.uniform(-4, 4)
        sigma = rng.choice([0.25, 0.5, 1.0, 2.0, rng.uniform(0.1, 3.0)])
        if rng.random() < 0.5:
            lo, hi = -INF, INF
        else:
            lo, hi = mean - rng.choice([1.0, 2.0, 0.5]) * sigma, mean + rng.choice([1.0, 2.0, 3.0]) * sigma
            if rng.random() < 0.2:
                lo = -INF
        return {"kind": "G", "a": hx(mean), "b": hx(sigma), "lo": hx(lo), "hi": hx(hi)}
    if k == "LU":
        lo = rng.choice([1e-6, 1e-3, 0.125, 0.5, 1.0, rng.uniform(0.01, 2.0)])
        hi = lo * rng.choice([2.0, 10.0, 1e3, rng.uniform(1.5, 50.0)])
        return {"kind": "LU", "a": hx(0.0), "b": hx(0.0), "lo": hx(lo), "hi": hx(hi)}
    mean = rng.randint(-8, 8) / 4.0
    sigma = rng.choice([0.25, 0.5, 1.0, rng.uniform(0.1, 2.0)])
    lo = rng.choice([0.0, 0.0, 0.125, 0.5])
    hi = rng.choice([INF, INF, lo + 4.0, lo + 20.0])
    return {"kind": "LG", "a": hx(mean), "b": hx(sigma), "lo": hx(lo), "hi": hx(hi)}


def inside(rng, p):
    lo, hi = unhex(p["lo"]), unhex(p["hi"])
    if p["kind"] == "G":
        m, s = unhex(p["a"]), unhex(p["b"])
        a, b = max(lo, m - 3 * s), min(hi, m + 3 * s)
    elif p["kind"] == "LG":
        a, b = max(lo, 0.01), min(hi, max(lo, 0.01) + 6.0)
    else:
        a, b = lo, hi
    r = rng.random()
    if r < 0.4:
        q = [x / 8.0 for x in range(int(math.ceil(a * 8)), int(math.floor(b * 8)) + 1)][:200]
        if q:
            return rng.choice(q)
    if r < 0.5:
        return rng.choice([lo, hi]) if math.isfinite(lo) and math.isfinite(hi) else (lo if math.isfinite(lo) else a)
    v = rng.uniform(a, b)
    return min(max(v, lo), hi)


def outside(rng, p):
    lo, hi = unhex(p["lo"]), unhex(p["hi"])
    opts = [NAN]
    if math.isfinite(lo):
        opts += [lo - rng.choice([0.125, 1.0, 1e-9]), math.nextafter(lo, -INF), -1e300]
    if math.isfinite(hi):
        opts += [hi + rng.choice([0.125, 1.0, 1e-9]), math.nextafter(hi, INF), INF]
    if lo == -INF and hi == INF:
        opts += [NAN, NAN]
    return rng.choice(opts)


def opv(o, vec):
    return vec[o["p"]] if "p" in o else unhex(o["c"])


def holds(a, vec):
    l, r = opv(a["l"], vec), opv(a["r"], vec)
    return {"lt": l < r, "le": l <= r, "gt": l > r, "ge": l >= r}[a["op"]]


def gen_vector(rng, md, mode):
    pri = md["priors"]
    for _ in range(12):
        if mode == "valid":
            vec = [inside(rng, p) for p in pri]
        else:
            vec = [inside(rng, p) if rng.random() < 0.8 else outside(rng, p) for p in pri]
        if mode != "valid" or all(holds(a, vec) for a in md["asserts"]):
            break
    return vec


def gen_model(rng, allow_empty, nest=None):
    """nest: None = random; otherwise (where, levels): force a Model nested as a constructor argument of another
    Model (levels 1 or 2 deep) with an assertion on the nested model / the root / both."""
    npri = rng.choice([1, 1, 2, 2, 2, 3, 3, 4, 5])
    if allow_empty and rng.random() < 0.03:
        npri = 0
    if nest:
        npri = max(npri, 3)
    priors = [gen_prior(rng) for _ in range(npri)]
    # slots: every prior at least once, some shared, some constants; shuffled so path order != id order
    items = [{"p": k} for k in range(npri)]
    for _ in range(rng.choice([0, 0, 1, 1, 2])):
        items.append({"c": hx(rfloat(rng))})
    if npri and rng.random() < 0.35:
        items.append({"p": rng.randrange(npri)})
    if not items:
        items.append({"c": hx(rfloat(rng))})
    rng.shuffle(items)
    comps, i, ci = [], 0, 0
    while i < len(items):
        k = min(rng.randint(1, 2 if nest else 4), len(items) - i)
        path = ["c%d" % ci] if rng.random() < 0.75 else ["sub", "d%d" % ci]
        comps.append({"path": path, "attrs": [[["a", "b", "c", "d"][j], items[i + j]] for j in range(k)]})
        i += k
        ci += 1
    # models nested inside models: component j becomes the constructor argument m<j> of an earlier component
    # (which may itself be nested: two and more levels); its assertions are checked when the parent instantiates it
    nested = []
    if len(comps) >= 2 and (nest or rng.random() < 0.3):
        for j in range(1, len(comps)):
            if nest and nest[1] == 2 and j == 2:
                i = 1                                  # chain: comp 2 in comp 1 in comp 0
            elif nest and j == 1:
                i = 0
            elif rng.random() < 0.5:
                i = rng.randrange(j)
            else:
                continue
            comps[j]["parent"], comps[j]["pattr"] = i, "m%d" % j
            comps[j]["path"] = comps[i]["path"] + ["m%d" % j]
            nested.append(j)
    asserts = []
    if nest or (npri >= 1 and rng.random() < (0.7 if nested else 0.4)):
        wheres = {"nested": [nested[-1]], "root": [-1], "both": [nested[-1], -1]}[nest[0]] if nest else \
            [None] * rng.choice([1, 1, 2])
        for where in wheres:
            l = {"p": rng.randrange(npri)}
            if npri >= 2 and rng.random() < 0.7:
                r = {"p": rng.choice([k for k in range(npri) if k != l["p"]])}
            else:
                pr = priors[l["p"]]
                r = {"c": hx(inside(rng, pr))}
            # an assertion lives on the root collection or on one component model
            # an assertion lives on the root collection (-1), the intermediate collection `sub` (-2) or one component model
            places = [-1] + list(range(len(comps))) + ([-2, -2] if any(cp["path"][0] == "sub" for cp in comps) else []) \
                + nested + nested
            asserts.append({"at": rng.choice(places) if where is None else where, "op": rng.choice(["lt", "le", "gt", "ge"]),
                            "l": l, "r": r})
    return {"priors": priors, "comps": comps, "asserts": asserts}


def gen_script(rng, md):
    slots = [o for comp in md["comps"] for _, o in comp["attrs"]]
    n = len(slots)
    weights = [rfloat(rng, 2.0) if rng.random() < 0.9 else 0.0 for _ in range(n)]

    def rule():
        i = rng.randrange(n)
        o = slots[i]
        if "p" in o:
            p = md["priors"][o["p"]]
            t = inside(rng, p)
        else:
            t = unhex(o["c"]) + rng.choice([-0.5, 0.0, 0.5])
        return [i, hx(t)]
    return {
        "bias": hx(rfloat(rng)), "weights": [hx(w) for w in weights],
        "exc": rule() if rng.random() < 0.3 else None,
        "nan": rule() if rng.random() < 0.25 else None,
        "ret": rng.choice(["float", "float", "float", "np64", "np64", "arr0"]),
    }


CTOR_VIA_CALL = [False]     # set by run() from the regenerated traits
WIRING = [[]]               # set by run() from the regenerated wiring table


def gen_case(rng, forced=None):
    forced = forced or {}
    ps = forced.get("ps", rng.random() < 0.3)
    md = gen_model(rng, allow_empty=not ps, nest=forced.get("nest"))
    n = len(md["priors"])
    fl = forced.get("flags") or {"like": rng.random() < 0.5, "chi2": rng.random() < 0.5, "store": rng.random() < 0.6}
    container = rng.choice(["list", "nd"] if ps else ["list", "list", "nd", "nd", "tuple"])
    wrong_len = n > 0 and rng.random() < 0.04
    shorter = wrong_len and not ps and n > 1 and rng.random() < 0.5
    nbuf = rng.randint(1, 4)
    long_run = bool(forced.get("long"))
    if long_run:
        nbuf = 4

    def vec(length=None):
        v = gen_vector(rng, md, "valid" if rng.random() < 0.6 else "mixed")
        if wrong_len:
            v = v[:-1] if shorter else v + [0.5]
        if length is not None:
            v = (v + [0.5] * length)[:length]
        return v
    buffers = [vec() for _ in range(nbuf)]
    if not ps and n > 0 and not wrong_len and nbuf > 1 and rng.random() < 0.04:
        buffers[rng.randrange(nbuf)].append(0.5)        # one proposal of the wrong length among good ones
    ops = []
    for _ in range(300 if long_run else rng.randint(1, 12)):
        r = rng.random()
        if r < 0.28 and ops:
            b = rng.randrange(nbuf)
            # bias towards overwriting a buffer that was just used
            used = [o[1] for o in ops if o[0] == "call"] + [x for o in ops if o[0] == "batch" for x in o[1]]
            if used and rng.random() < 0.6:
                b = rng.choice(used)
            new = vec(len(buffers[b]))                   # in place: the length of a buffer never changes
            ops.append(["write", b, [hx(x) for x in new]])
        elif r < 0.32 and ops:
            ops.append(["pickle"])                       # what a pooled search does with its fitness
        elif ps and r < 0.75 and n > 0:
            k = rng.randint(1, min(4, nbuf))
            if rng.random() < 0.6:
                a = rng.randint(0, nbuf - k)
                ops.append(["batch", list(range(a, a + k))])       # a slice of the position array
            else:
                ops.append(["batch", [rng.randrange(nbuf) for _ in range(rng.randint(1, 4))]])
        else:
            if ops and ops[-1][0] == "call" and rng.random() < 0.25:
                ops.append(["call", ops[-1][1]])       # repeated evaluation
            else:
                ops.append(["call", rng.randrange(nbuf)])
    resample = rng.choice([-INF, -INF, -1e99, 1e99, -1.0e10, rfloat(rng), NAN if rng.random() < 0.3 else -INF])
    if "resample" in forced:
        resample = forced["resample"]
    script = gen_script(rng, md)
    if n > 0 and not wrong_len and rng.random() < 0.05:
        # infinite likelihood meeting an infinite prior term: the posterior is nan although the likelihood is not
        md["priors"][0] = {"kind": "LG", "a": hx(0.5), "b": hx(1.0), "lo": hx(0.0), "hi": hx(INF)}
        md["asserts"] = [a for a in md["asserts"] if a["l"].get("p") != 0 and a["r"].get("p") != 0]
        script["bias"] = hx(INF)
        script["weights"] = [hx(abs(unhex(w))) for w in script["weights"]]
        script["exc"] = script["nan"] = None
        for b in buffers:
            b[0] = 0.0 if rng.random() < 0.6 else 1.5
        for o in ops:
            if o[0] == "write":
                o[2][0] = hx(0.0 if rng.random() < 0.6 else 1.5)
    case = {"ps": ps, "flags": fl, "resample": hx(resample), "container": container, "defaults": rng.random() < 0.5, "model": md,
            "script": script, "buffers": [[hx(x) for x in b] for b in buffers], "ops": ops,
            "ints": (not ps) and container != "nd" and rng.random() < 0.15,
            "jax": rng.random() < 0.06}
    if forced.get("wired"):
        case["wired"] = forced["wired"]
        case["jax"] = False
    if case["jax"]:
        # with the limit check gone a huge out-of-limit entry reaches `(value - mean) ** 2.0` of a Gaussian prior and
        # raises OverflowError (Python float pow) -- the same finding, but not expressible as a figure of merit: keep
        # the out-of-limit entries of USE_JAX cases moderate
        def tame(h):
            v = unhex(h)
            return hx(math.copysign(50.0, v)) if v == v and abs(v) > 1e100 else h
        case["buffers"] = [[tame(x) for x in b] for b in case["buffers"]]
        for o in ops:
            if o[0] == "write":
                o[2] = [tame(x) for x in o[2]]
    if not ps and (fl["like"] or not CTOR_VIA_CALL[0]) and rng.random() < forced.get("ctor_p", 0.2):
        # constructed with the paths of a resumed fit: the stored best vector is a successfully evaluating vector and the
        # stored value is what the constructor compares with (the log likelihood; the figure of merit when the sanity
        # evaluation goes through the fitness call), so the sanity check itself must pass
        for b in rng.sample(range(nbuf), nbuf):
            e = evaluate(case, buffers[b])
            if e[0] == "ok" and math.isfinite(e[1]):
                # the stored best vector is an object of its own (owned by the paths): a buffer no operation touches
                case["buffers"].append(list(case["buffers"][b]))
                old_value = (e[1] * -2.0 if fl["chi2"] else e[1]) if CTOR_VIA_CALL[0] else e[1]
                case["ctor"] = {"pbuf": nbuf, "old": hx(old_value)}
                break
    return case


def gen_cases(ctx):
    rng = ctx.rng
    n = 900 if ctx.tier != "thorough" else 20000
    cases = []
    # every flag combination for both interfaces first, then the random stream
    for ps in (False, True):
        for like in (True, False):
            for chi2 in (True, False):
                for store in (True, False):
                    for _ in range(4 if ctx.tier != "thorough" else 20):
                        cases.append(gen_case(rng, {"ps": ps, "flags": {"like": like, "chi2": chi2, "store": store}}))
    # every search's own wiring (flags and designated resample value as regenerated from its source)
    for f, wps, like, res, chi2 in WIRING[0]:
        for _ in range(3 if ctx.tier != "thorough" else 12):
            cases.append(gen_case(rng, {"ps": wps, "flags": {"like": like, "chi2": chi2, "store": rng.random() < 0.5},
                                        "resample": res, "wired": f}))
    # a Model nested as a constructor argument of a Model (one and two levels), asserted on the nested model / root / both
    for where in ("nested", "root", "both"):
        for levels in (1, 2):
            for ps in (False, True):
                for _ in range(2 if ctx.tier != "thorough" else 8):
                    cases.append(gen_case(rng, {"ps": ps, "nest": (where, levels)}))
    # one long run: hundreds of evaluations through one fitness object
    cases.append(gen_case(rng, {"ps": False, "flags": {"like": False, "chi2": True, "store": True}, "long": True, "ctor_p": 0.0}))
    while len(cases) < n:
        cases.append(gen_case(rng))
    return cases


# ---------------------------------------------------------------------------
# property oracle: C04 stated directly on the abstract case (no Coq model involved)
# ---------------------------------------------------------------------------
CLS_ALIAS = "history-aliases-caller-buffer"
CLS_INPLACE = "inplace-chi2-on-boxed-likelihood"
CLS_PSHIST = "pyswarms-ignores-store-history"
CLS_CTOR = "resumed-paths-sanity-check-with-store-history"
CLS_JAX = "use-jax-skips-limits"


def slots_of(md):
    return [o for comp in md["comps"] for _, o in comp["attrs"]]


def gate(md, vec, skip_limits=False):
    if not skip_limits:
        for p, v in zip(md["priors"], vec):
            if not (unhex(p["lo"]) <= v <= unhex(p["hi"])):
                return "limit"
    for a in md["asserts"]:
        if not holds(a, vec):
            return "assert"
    return None


def script_value(sc, vals):
    """-> ('exc',) | ('ret', ll)"""
    if sc["exc"] and vals[sc["exc"][0]] > unhex(sc["exc"][1]):
        return ("exc",)
    if sc["nan"] and vals[sc["nan"][0]] > unhex(sc["nan"][1]):
        return ("ret", NAN)
    acc = unhex(sc["bias"])
    for w, v in zip(sc["weights"], vals):
        acc = acc + unhex(w) * v
    return ("ret", acc)


def evaluate(c, vec, skip_limits=False):
    """-> ('esc',) | ('resample', why) | ('ok', ll)   -- the user's likelihood of the instance of vec"""
    md = c["model"]
    if len(vec) != len(md["priors"]):
        return ("esc",)
    g = gate(md, vec, skip_limits)
    if g:
        return ("resample", g)
    r = script_value(c["script"], [opv(o, vec) for o in slots_of(md)])
    if r[0] == "exc":
        return ("resample", "fitexc")
    if math.isnan(r[1]):
        return ("resample", "nan")
    return ("ok", r[1])


def prior_sum(lp, vec):
    """sum(log prior terms) as computed by the implementation's interpreter (oracle tables from the driver:
    lp[0][k] = value -> term of prior k, lp[1] = list of terms -> builtin sum)."""
    terms = [dict(lp[0][k])[hx(v)] for k, v in enumerate(vec)]
    for key, val in lp[1]:
        if key == terms:
            return unhex(val)
    raise KeyError("no sum oracle for %s" % terms)


def expected(c, lp, skip_limits=False):
    """Replays the op sequence: expected outputs per op, expected history (by value), bookkeeping
    for failure classification.  -> dict.  skip_limits: not the property but the behaviour with the limit
    checks switched off (used only to decide whether a failure is the USE_JAX finding)."""
    fl, ps, r = c["flags"], c["ps"], unhex(c["resample"])
    heap = [[unhex(x) for x in b] for b in c["buffers"]]
    outs, hist, kinds, op_kinds = [], [], [], []
    hist_src = []       # (op index, buffer index) of every expected history entry

    def one(vec):
        e = evaluate(c, vec, skip_limits)
        kinds.append(e[0] if e[0] != "resample" else e[1])
        if e[0] == "esc":
            return "esc", None
        if ps:
            if e[0] == "resample":
                return -2.0 * r, None
            f = -2.0 * (e[1] + prior_sum(lp, vec))
            if math.isnan(f):
                kinds[-1] = "nan-posterior"
                return -2.0 * r, None
            return f, e[1]
        if e[0] == "resample":
            return r, None
        f = e[1] if fl["like"] else e[1] + prior_sum(lp, vec)
        if fl["chi2"]:
            f = f * -2.0
        return f, e[1]

    # (the sanity evaluation inside the constructor of a resumed fit is not a proposal of the search: it
    #  returns nothing to the search and is not part of the history)
    for t, op in enumerate(c["ops"]):
        if op[0] == "write":
            heap[op[1]] = [unhex(x) for x in op[2]]
        if op[0] in ("write", "pickle"):
            outs.append([])
            op_kinds.append([])
            continue
        bs = [op[1]] if op[0] == "call" else op[1]
        row, escaped = [], False
        op_kinds.append([])
        for b in bs:
            vec = list(heap[b])
            f, ll = one(vec)
            op_kinds[-1].append(kinds[-1])
            if f == "esc":
                escaped = True
                break
            row.append(hx(f))
            if ll is not None and fl["store"]:
                hist.append(([hx(x) for x in vec], hx(ll)))
                hist_src.append((t, b))
        outs.append("esc" if escaped else row)
    return {"outs": outs, "hist": hist, "hist_src": hist_src, "kinds": kinds, "op_kinds": op_kinds}


BIG = 1e99

# which path through the translated method body an evaluation takes (distribution printed with the evidence)
_EXITS = {"esc": "instance_from_vector raises AssertionError: not caught, leaves the call",
          "limit": "instance_from_vector raises PriorLimitException: except FitException",
          "assert": "instance_from_vector raises FitException (assertion): except FitException",
          "fitexc": "likelihood raises FitException: except FitException",
          "nan": "np.isnan(log_likelihood)", "nan-posterior": "np.isnan(figure_of_merit) of a nan posterior"}


def source_path(c, kind):
    fl = c["flags"]
    if c["ps"]:
        if kind == "ok":
            return "FitnessPySwarms.__call__: loop body falls through; elif store_history=%s" % fl["store"]
        return "FitnessPySwarms.__call__: %s%s" % (_EXITS[kind], "" if kind in ("esc", "nan-posterior", "nan") else " -> np.nan -> isnan -> -2*resample")
    if kind == "ok":
        return "Fitness.__call__: fom_is_log_likelihood=%s store_history=%s convert_to_chi_squared=%s -> return figure_of_merit" % (
            fl["like"], fl["store"], fl["chi2"])
    return "Fitness.__call__: %s%s" % (_EXITS[kind], "" if kind == "esc" else " -> return resample_figure_of_merit")


def wired_label(c):
    f = c["wired"]
    return "wired-resample:" + ("bfgs" if f.startswith("mle/bfgs/") else f)


def oracle(c, r, exp, lp):
    """-> list of (message, classes).  Empty list = the implementation satisfies C04 on this case."""
    fails = oracle_values(c, r, exp)
    if fails and c.get("jax") and jax_arithmetic_escape(c, r, exp):
        # the unchecked evaluation of an out-of-limit entry blew up inside a prior term (1.0 / 0, huge ** 2.0)
        return [(m + " [USE_JAX=1, arithmetic error in the log prior of an out-of-limit entry]", [CLS_JAX]) for m, _ in fails]
    if fails and c.get("jax"):
        # the USE_JAX finding: what was observed is exactly the behaviour with the limit checks switched off
        try:
            if not oracle_values(c, r, expected(c, lp, skip_limits=True)):
                fails = [(m + " [USE_JAX=1]", [CLS_JAX]) for m, _ in fails]
        except KeyError:
            pass
    if c.get("wired"):
        # "works in posterior space" / "minimises chi-squared" are facts about the search, not about its keywords:
        # MCMC and MLE searches sample / optimise the posterior, nested samplers take the likelihood; scipy's
        # minimize (bfgs) and pyswarms minimise, everything else maximises
        f = c["wired"]
        want_like = not (f.startswith("mcmc/") or f.startswith("mle/"))
        want_chi2 = f.startswith("mle/bfgs/") or f.startswith("mle/pyswarms/")
        if (c["flags"]["like"], c["flags"]["chi2"]) != (want_like, want_chi2):
            fails.append(("%s is wired with fom_is_log_likelihood=%s convert_to_chi_squared=%s but %s and %s its figure of merit"
                          % (f, c["flags"]["like"], c["flags"]["chi2"],
                             "takes the likelihood" if want_like else "works in posterior space",
                             "minimises" if want_chi2 else "maximises"), ["wired-flags:" + f]))
    if c.get("wired") and not r.get("ctor_raised"):
        # the designated resample value must be on the bad side of the direction the search optimises
        for t, (ks, got) in enumerate(zip(exp["op_kinds"], r["out"])):
            for k, g in zip(ks, got):
                if k in ("ok", "esc") or "v" not in g:
                    continue
                v = unhex(g["v"])
                bad = not (v >= BIG) if c["flags"]["chi2"] else not (v <= -BIG)
                if bad:
                    fails.append(("op %d: %s receives %r for a vector it must resample although it %s its figure of merit"
                                  % (t, c["wired"], v, "minimises" if c["flags"]["chi2"] else "maximises"), [wired_label(c)]))
                    break
            else:
                continue
            break
    return fails


def jax_arithmetic_escape(c, r, exp):
    """USE_JAX case in which ZeroDivisionError / OverflowError left a call that evaluated an out-of-limit vector
    (and nothing else escaped anywhere)."""
    hit = False
    for ks, got in zip(exp["op_kinds"], r["out"]):
        for g in got:
            if "esc" in g:
                if g["esc"] in ("ZeroDivisionError", "OverflowError") and "limit" in ks:
                    hit = True
                elif not (g["esc"] == "AssertionError" and "esc" in ks):
                    return False
    return hit


def oracle_values(c, r, exp):
    fails = []
    if r.get("ctor_raised"):
        cls = [CLS_CTOR] if (c.get("ctor") and c["flags"]["store"] and r["ctor_raised"]["esc"] == "AttributeError"
                             and "history_list" in r["ctor_raised"]["msg"]) else []
        return [("constructing the fitness for a resumed fit raised %s: %s" % (r["ctor_raised"]["esc"], r["ctor_raised"]["msg"]), cls)]
    if not (r["ids_ascending"] and r["ordered_is_creation"] and r["prior_count"] == len(c["model"]["priors"])):
        fails.append(("abstraction: priors_ordered_by_id is not the creation order of the generated priors", []))
    # figures of merit / escapes
    for t, (want, got) in enumerate(zip(exp["outs"], r["out"])):
        if want == "esc":
            if not (len(got) == 1 and got[0].get("esc") == "AssertionError"):
                fails.append(("op %d: a vector of the wrong length should raise AssertionError, got %s" % (t, got), []))
            continue
        if any("esc" in g for g in got):
            fails.append(("op %d: exception %s escaped from the fitness call" % (t, got[0].get("esc")), []))
            continue
        gv = [g["v"] for g in got]
        if gv != want:
            fails.append(("op %d (%s): figure of merit %s, property says %s" % (t, c["ops"][t][0], gv, want), []))
    # history
    hp, hl = r["hist_p"], r["hist_l"]
    want = exp["hist"]
    if len(hp) != len(hl):
        fails.append(("history lists have different lengths %d / %d" % (len(hp), len(hl)), []))
    elif len(hp) != len(want):
        cls = [CLS_PSHIST] if (c["ps"] and c["flags"]["store"] and len(hp) == 0) else []
        fails.append(("history has %d entries, %d vectors were successfully evaluated" % (len(hp), len(want)), cls))
    else:
        bad_p = [j for j in range(len(want)) if hp[j] != want[j][0]]
        bad_l = [j for j in range(len(want)) if hl[j] != want[j][1]]
        if bad_p:
            # explained by aliasing only if every wrong entry's buffer is overwritten later in the sequence
            def overwritten(j):
                t, b = exp["hist_src"][j]
                return any(o[0] == "write" and o[1] == b for o in c["ops"][t + 1:])
            cls = [CLS_ALIAS] if all(overwritten(j) for j in bad_p) and not c["ps"] else []
            j = bad_p[0]
            fails.append(("history entry %d holds %s but the vector evaluated was %s" % (j, hp[j], want[j][0]), cls))
        if bad_l:
            fl = c["flags"]
            cls = [CLS_INPLACE] if (c["script"]["ret"] == "arr0" and fl["like"] and fl["chi2"] and not c["ps"]) else []
            j = bad_l[0]
            fails.append(("history entry %d records likelihood %s, the likelihood was %s" % (j, hl[j], want[j][1]), cls))
    return fails


# ---------------------------------------------------------------------------
# Coq case printer
# ---------------------------------------------------------------------------

def cf(h):
    return cfloat(unhex(h))


def coperand(o):
    return "(OPrior %s)" % cnat(o["p"]) if "p" in o else "(OConst %s)" % cf(o["c"])


def cassert(a):
    l, r = coperand(a["l"]), coperand(a["r"])
    strict = a["op"] in ("lt", "gt")
    if a["op"] in ("gt", "ge"):
        l, r = r, l
    return "(Build_assertion %s %s %s)" % (cbool(strict), l, r)


def cres(g):
    if "esc" in g:
        return "(Escaped %s)" % ("EAssertionError" if g["esc"] == "AssertionError" else "EFit")
    return "(Returned %s)" % cf(g["v"])


def coq_case(c, r):
    md, sc, fl = c["model"], c["script"], c["flags"]
    flags = "{| fl_like := %s; fl_chi2 := %s; fl_store := %s |}" % (cbool(fl["like"]), cbool(fl["chi2"]), cbool(fl["store"]))
    model = "(Build_model %s %s %s %s)" % (
        clist([cpair(cf(p["lo"]), cf(p["hi"])) for p in md["priors"]]),
        clist([coperand(o) for o in slots_of(md)]),
        clist([cassert(a) for a in md["asserts"]]), cbool(bool(c.get("jax"))))

    def rule(x):
        return copt(x, lambda v: cpair(cnat(v[0]), cf(v[1])))
    script = "{| s_bias := %s; s_weights := %s; s_exc := %s; s_nan := %s; s_boxed := %s |}" % (
        cf(sc["bias"]), clist([cf(w) for w in sc["weights"]]), rule(sc["exc"]), rule(sc["nan"]), cbool(sc["ret"] == "arr0"))
    tab = clist([clist([cpair(cf(v), cf(y)) for v, y in row]) for row in r["lp"]])
    sumtab = clist([cpair(clist([cf(x) for x in k]), cf(y)) for k, y in r["sums"]])
    heap0 = clist([clist([cf(x) for x in b]) for b in c["buffers"]])
    ops = []
    for op in c["ops"]:
        if op[0] == "call":
            ops.append("OCall %s" % cnat(op[1]))
        elif op[0] == "write":
            ops.append("OWrite %s %s" % (cnat(op[1]), clist([cf(x) for x in op[2]])))
        elif op[0] == "pickle":
            ops.append("OPickle")
        else:
            ops.append("OBatch %s" % clist([cnat(b) for b in op[1]]))
    outs = clist([clist([cres(g) for g in row]) for row in r["out"]])
    hist = clist([cpair(clist([cf(x) for x in p]), cf(l)) for p, l in zip(r["hist_p"], r["hist_l"])])
    if c.get("ctor"):
        return "CCtor %s %s\n   %s\n   %s\n   %s\n   %s\n   %s %s\n   %s\n   %s %s\n   %s" % (
            flags, cf(c["resample"]), model, script, tab, sumtab, heap0, cnat(c["ctor"]["pbuf"]), clist(ops),
            cbool(bool(r.get("ctor_raised"))), outs, hist)
    return "CSeq %s %s %s\n   %s\n   %s\n   %s\n   %s\n   %s\n   %s\n   %s\n   %s" % (
        cbool(c["ps"]), flags, cf(c["resample"]), model, script, tab, sumtab, heap0, clist(ops), outs, hist)


# ---------------------------------------------------------------------------
# check
# ---------------------------------------------------------------------------

def run(ctx):
    ctx.rule = (
        "a case is one fitness object (Fitness or FitnessPySwarms; flags likelihood/posterior x chi-squared x history; a resample "
        "value) over a generated model (1-5 priors of four families created out of path order, shared priors, constants, nested "
        "collections, models nested as constructor arguments of models one and more levels deep, assertions on the root, an intermediate "
        "collection, a component or a nested model), a scripted likelihood of the instance (weighted sum; FitException / "
        "nan rules depending on the instance; float, numpy scalar or 0-d array return) and a sequence of 1-12 operations on caller "
        "buffers (call, overwrite a buffer in place, pyswarms batch over rows of one persistent position array, pickle round trip of "
        "the fitness); buffers are lists, tuples, numpy arrays, some with int entries or one buffer of the wrong length; 6% of the cases "
        "run with USE_JAX set; every search's own wiring (flags / designated resample value read from its source) is run 3x; one "
        "300-operation run; a fifth of the Fitness cases are constructed "
        "with the paths of a resumed fit (sanity evaluation of a stored best vector inside the constructor); all eight flag combinations are forced for both "
        "interfaces before the random stream; the reproductions of the recorded findings (corpus/C04) run first; a case is non-trivial when at least one call evaluates successfully; distinct = distinct abstract case")
    ctx.trusted = [
        "Coq 8.16.1 kernel incl. vm_compute; primitive floats (PrimFloat, Uint63) are kernel primitives",
        "harness/vcheck/pyexpr2coq.py + c04.py:traits regenerating coq/C04/Gen.v (leaf formulas, the five implementation traits, the Fitness wiring of every search; fail closed on any other use of the history lists) "
        "from /repo on every run, fail-closed",
        "harness/vcheck/c04_stmt.py: the statement-level translator (Python ast -> continuation-passing Gallina over coq/C04/PyStmt.v) and "
        "the instantiation table of its Section variables in coq/C04/GenModel.v; its semantics is additionally run against the real code "
        "(check_case_gen: the translated functions on every generated case, bit for bit)",
        "correspondence harness c04.py / impl/c04_impl.py: abstraction of a composed model into (limits in id order, slots, assertions); "
        "the abstraction is cross-checked against priors_ordered_by_id / prior_count of the live model",
        "prior.log_prior_from_value is an oracle table computed on the prior objects (its values are C02/C17 matter; C04 is about "
        "which term is added for which entry and how they are combined); the interpreter's builtin sum() of those terms is an oracle "
        "table too (CPython 3.12 sums exact floats with Neumaier compensation and numpy scalars naively)",
        "modelled, not verified: instance construction below the slot level (C01), the timeout decorator (disabled: lh_timeout_seconds "
        "is empty), jax jit (jax not installed)",
    ]
    ctx.assumptions = [
        "theorems are over an abstract number type with the generated formulas plugged in; their arithmetic meaning (-2*(ll+sum)) is "
        "proved over exact rationals, binary64 results are compared bit for bit by the correspondence only",
        "the user's likelihood is a function of the instance (deterministic), returning a number or raising FitException; other "
        "exceptions and non-numeric returns are outside the property and outside the model",
        "vectors have the model's length in the no-escape theorem (a vector of another length raises AssertionError, modelled and compared)",
        "vectors are what searches propose: float sequences (lists, tuples, float64 arrays; ints accepted by the plain Fitness are "
        "generated). Out of scope, recorded here rather than as findings: FitnessPySwarms single-vector detection "
        "`isinstance(parameters[0], float)` raises TypeError for an int / float32 first entry (pyswarms and the initializer only pass "
        "floats / float64) and resample_figure_of_merit=None is not usable with FitnessPySwarms (no search designates None: C04_wiring_*)",
        "FitnessPySwarms consults no flag and converts the resample value (-2*r): it agrees with the property only for the flags it is "
        "wired with (C04_pyswarms_matches_fitness; C04_pyswarms_flags_refuted / C04_pyswarms_resample_refuted state the divergence)",
        "which searches minimise and which work in posterior space is knowledge about the third-party samplers (coq/C04/Wiring.v)",
        "C04_deterministic presupposes a likelihood that is a function of the instance returning a fresh value; a likelihood that hands "
        "out one cached mutable array would alias the recorded likelihoods (user-side aliasing, not generated)",
        "the control flow of the model is tied to the source by proof: the bodies of Fitness.__call__ and FitnessPySwarms.__call__ are "
        "translated statement by statement (c04_stmt.py -> Gen.Fitness_call / Gen.FitnessPySwarms_call, regenerated every run, fail closed) "
        "and proved equal to the hand-written step / ps_batch for all inputs (C04_source_call, C04_source_pyswarms_call, C04_source_run); "
        "C04_fom / C04_resample / C04_no_escape / C04_success_iff (one-step unfoldings of the hand model) are restated on the translated "
        "function as C04_source_fom / C04_source_history / C04_source_pyswarms_run",
        "abstracted in the statement-level translation, each a NAMED Section variable of Gen.v instantiated in GenModel.v: "
        "self.model.instance_from_vector, self.log_likelihood_function / self.analysis.log_likelihood_function (property + jax jit), "
        "self.model.log_prior_list_from_vector (assumed not to raise), builtin sum, np.isnan, np.nan (any value with isnan = true), "
        "copy.copy, np.asarray (identity), the @timeout(timeout_seconds) decorator (identity: lh_timeout_seconds is empty), the "
        "single-vector idiom `if isinstance(parameters[0], float): parameters = [parameters]` (batch_of_parameters), the exception "
        "class test of `except exc.FitException`, UnboundLocalError as an exception value; object identity of numbers is not "
        "modelled (augmented assignment is refused)",
    ]
    try:
        infos = regenerate()
        tr = infos.pop("__traits__")
        WIRING[0] = infos.pop("__wiring__")
        stmt_reports = infos.pop("__stmt__")
        CTOR_VIA_CALL[0] = tr["impl_ctor_via_call"]
        ctx.notes["wiring"] = [list(w) for w in WIRING[0]]
        ctx.translated = {k: {"source": v["source"], "line": v["line"]} for k, v in infos.items()}
        ctx.translated["traits"] = tr
        ctx.translated["statement_level"] = stmt_reports
        ctx.obligation("translator:Gen.v", "translator", True, "%d expressions, traits %s; statement-level: %s" % (
            len(infos), tr, ", ".join("%s (%d statements, %d named section variables)" % (k, len(v["statements"]), len(v["section_variables"]))
                                      for k, v in sorted(stmt_reports.items()))))
        translated = True
    except T.TranslationError as e:
        ctx.obligation("translator:Gen.v", "translator", False, str(e))
        translated = False
    if translated:
        ctx.build()
    cases = gen_cases(ctx)
    corpus = os.path.join(common.VERIF, "corpus", "C04")
    if os.path.isdir(corpus):
        for f in sorted(os.listdir(corpus)):
            if f.endswith(".json"):
                cases.insert(0, json.load(open(os.path.join(corpus, f)))["case"])
    if ctx.replay:
        rp = json.load(open(ctx.replay))
        if rp.get("case"):
            cases = [rp["case"]]
    nshard = 1 if len(cases) < 200 else common.NCPU
    chunks = [cases[i::nshard] for i in range(nshard)]
    # the caller's environment must not silently disable what is being checked (PYAUTOFIT_TEST_MODE=1 skips the
    # constructor's sanity check; USE_JAX=1 makes `import autofit` demand jax -- the jax path is exercised per case)
    outs = common.run_impl_parallel("c04_impl", [{"cases": ch} for ch in chunks], timeout=1500,
                                    extra_env={"PYAUTOFIT_TEST_MODE": "0", "USE_JAX": "0"})
    results = [None] * len(cases)
    for k, (ch, o) in enumerate(zip(chunks, outs)):
        if "__error__" in o:
            ctx.obligation("impl-driver", "harness", False, o["__error__"][-800:])
            return
        for j, rr in enumerate(o["results"]):
            results[k + j * nshard] = rr
    coq_cases, coq_idx, verdicts = [], [], {}
    for i, (c, r) in enumerate(zip(cases, results)):
        ctx.oracle["cases"] += 1
        if "exc" in r:
            ctx.count_case(c, False, "driver-error")
            ctx.oracle["failures"] += 1
            ctx.failure("oracle", "driver raised %s: %s" % (r["exc"], r.get("msg")), c, impl=r)
            continue
        r = r["ok"]
        lp = (r["lp"], r["sums"])
        try:
            exp = expected(c, lp)
        except KeyError as e:
            ctx.count_case(c, False, "oracle-table-incomplete")
            ctx.oracle["failures"] += 1
            ctx.failure("oracle", "oracle tables of the driver lack an entry the property needs: %s" % e, c, impl=r)
            continue
        ctx.count_case(c, "ok" in exp["kinds"], "pyswarms" if c["ps"] else "fitness")
        fl = c["flags"]
        ctx.hist("flags", "%s/%s/%s" % ("like" if fl["like"] else "post", "chi2" if fl["chi2"] else "raw",
                                        "hist" if fl["store"] else "nohist"))
        for k in exp["kinds"]:
            ctx.hist("outcome", k)
            ctx.hist("translated-source-path", source_path(c, k))
        ctx.hist("priors", len(c["model"]["priors"]))
        ctx.hist("ops", len(c["ops"]))
        ctx.hist("return-type", c["script"]["ret"])
        ctx.hist("container", c["container"])
        ctx.hist("writes", sum(1 for o in c["ops"] if o[0] == "write"))
        ctx.hist("assertions", len(c["model"]["asserts"]))
        nestedc = [j for j, cp in enumerate(c["model"]["comps"]) if cp.get("parent") is not None]
        ctx.hist("nested-models", len(nestedc))
        ctx.hist("assertion-on-nested-model", sum(1 for a in c["model"]["asserts"] if a["at"] in nestedc))
        ctx.hist("constructed-with-resumed-paths", bool(c.get("ctor")))
        ctx.hist("use-jax", bool(c.get("jax")))
        ctx.hist("int-entries", bool(c.get("ints")))
        ctx.hist("pickle-round-trips", sum(1 for o in c["ops"] if o[0] == "pickle"))
        ctx.hist("wired-as", c.get("wired", "-"))
        fails = oracle(c, r, exp, lp)
        verdicts[i] = fails
        for msg, classes in fails:
            ctx.oracle["failures"] += 1
            ctx.failure("oracle", msg, c, classes=classes, impl=r, model={"expected": exp["outs"], "expected_history": exp["hist"]})
        if c.get("jax") and jax_arithmetic_escape(c, r, exp):
            ctx.hist("not-in-correspondence", "use-jax arithmetic escape")     # no figure of merit to compare
        else:
            coq_cases.append(coq_case(c, r))
            coq_idx.append(i)
        if i % 61 == 0:
            ctx.sample({"case": c, "observed": {"out": r["out"], "hist_p": r["hist_p"], "hist_l": r["hist_l"]}}, limit=5)
    def _vo(name):
        f = os.path.join(common.COQ, "C04", name + ".vo")
        return os.path.getmtime(f) if os.path.exists(f) else None
    # GenModel.vo is usable only when it was compiled against the Gen.vo / Model.vo now on disk (it is stale when the
    # regenerated Gen.v no longer offers a Section variable GenModel.v instantiates: then only the hand model is run)
    have_gen = _vo("GenModel") is not None and _vo("Gen") is not None and _vo("Model") is not None \
        and _vo("GenModel") >= _vo("Gen") and _vo("GenModel") >= _vo("Model")
    if os.path.exists(os.path.join(common.COQ, "C04", "Model.vo")):
        # both the hand-written model (check_case) and the statement-level translation of the source
        # (check_case_gen: Gen.Fitness_call / Gen.FitnessPySwarms_call run on the same case) against the observables
        hdr = ctx.header(["Common.PyFloat", "Gen", "Model"] + (["GenModel"] if have_gen else []))
        if not have_gen:
            ctx.obligation("correspondence:translated-source", "correspondence", False, "GenModel.vo not built")
        bad, log = ctx.eval_cases(hdr, "case", "check_case_both" if have_gen else "check_case", coq_cases,
                                  shard=60 if ctx.tier != "thorough" else 250)
        ctx.notes["correspondence_runs"] = "hand-written model and translated source (check_case_both)" if have_gen else "hand-written model only"
        if bad:
            for b in bad[:5]:
                i = coq_idx[b]
                fails = verdicts.get(i) or []
                classes = sorted({x for _, cl in fails for x in cl}) if fails and all(cl for _, cl in fails) else []
                shown = ctx.show(hdr, "model_run (%s)" % coq_cases[b], tag="show%d" % b)
                which = ""
                if have_gen:
                    w = ctx.show(hdr, "(check_case (%s), check_case_gen (%s))" % (coq_cases[b], coq_cases[b]), tag="which%d" % b)
                    hand_ok, gen_ok = ("(true," in w.replace(" ", "")), (",true)" in w.replace(" ", ""))
                    which = {(False, True): "; the hand-written model disagrees, the function translated from the source agrees with the running code",
                             (True, False): "; the function translated from the source disagrees (the hand-written model agrees): translator semantics or an abstracted external",
                             (False, False): "; both the hand-written model and the function translated from the source disagree"}.get((hand_ok, gen_ok), "")
                    shown = shown[:1800] + "\n--- translated source: ---\n" + ctx.show(hdr, "model_run_gen (%s)" % coq_cases[b], tag="showg%d" % b)[:1800]
                ctx.failure("correspondence", "model and implementation disagree (fitness object: %s)%s" % ("pyswarms" if cases[i]["ps"] else "plain", which),
                            cases[i], classes=classes, impl=results[i]["ok"], model=shown[:4000],
                            broken={"kind": "correspondence", "name": "C04.check_case"}, found_input=bool(fails))
    else:
        ctx.obligation("correspondence:cases", "correspondence", False, "Model.vo not built")


MANIFEST = {
    "text": "Coq 8.16 theorems over a model of Fitness.__call__ / FitnessPySwarms.__call__ / Fitness.__init__ whose arithmetic leaves, "
            "implementation traits and the Fitness wiring of every search are regenerated from /repo by a fail-closed translator: "
            "figure of merit for all eight flag combinations x all outcomes (exact meaning over rationals), resample value and no "
            "escaping exception for limit/assertion/FitException/nan (limit case: refuted under USE_JAX, proved without), log-prior "
            "terms paired with entries in id order, history = successfully evaluated vectors with likelihoods in order for every "
            "sequence of calls, in-place buffer overwrites, batches and pickle round trips -- stated for the traits of the code as it is "
            "(proof terms are eq_refl on the regenerated constants, a regression breaks the build) --, constructor of a resumed fit, "
            "pyswarms against the plain fitness (agreement for the wired flags, divergences stated as refuted), wiring of all searches "
            "(flags; designated resample value on the bad side of the optimisation direction, refuted for BFGS/LBFGS), plus a "
            "bit-exact vm_compute correspondence of the model AND of the statement-level translation of the source with the running code "
            "on generated sequences and a direct property oracle on every case. The bodies of Fitness.__call__ and "
            "FitnessPySwarms.__call__ (try/except FitException, early returns, if/elif/else over the configuration attributes, np.isnan "
            "tests, history appends, the particle loop) are translated statement by statement into executable Gallina on every run "
            "(fail closed) and PROVED equal to the hand-written model for all inputs (C04_source_call, C04_source_pyswarms_call, "
            "C04_source_run), so every theorem speaks about the function read off the source",
    "note": "Trusted: Coq kernel + vm_compute, primitive floats, the translator, the harness abstraction of composed models "
            "(cross-checked against the live model), prior.log_prior_from_value and builtin sum() as oracle tables, which third-party "
            "samplers minimise / work in posterior space, the statement-level translator c04_stmt.py and the instantiation of "
            "its named Section variables (GenModel.v). Control flow of both __call__ bodies is translated and proved equal to the model; "
            "still abstracted there (named Section variables, not modelled further): instance_from_vector, the likelihood callable "
            "(property + jax jit), log_prior_list_from_vector (assumed total), sum, np.isnan, np.nan, copy.copy, np.asarray, the "
            "@timeout decorator (identity), the single-vector idiom of FitnessPySwarms (isinstance(parameters[0], float)), exception "
            "class matching. Fitness.__init__ / check_log_likelihood remain trait-read only. USE_JAX is exercised by setting "
            "autofit.jax_wrapper.use_jax (jax itself is not installed). Not covered: timeout decorator, jax jit, non-FitException "
            "errors, non-float vectors for FitnessPySwarms, likelihoods returning a shared mutable array, instance construction "
            "below the attribute-slot level (C01), compound-prior assertions (C03).",
    "technique": "machine-checked proof in Coq (translator-regenerated leaves, traits and wiring table) + vm_compute correspondence",
}
