"""C15 -- summed analyses: likelihood is the sum, parameters shared or freed as declared
(DESIGN.md section 5, C15).

Case kinds (abstract inputs; the same input goes to the real code and to the Coq model):
  struct   an expression over analyses (any bracketing, `sum([...])`, with_model leaves, the same
           analysis twice, with_free_parameters anywhere): class and members of the result, or the error
  (every kind also with the SAME analysis object written more than once -- a + b + a, a + (b + a),
   (a + b) + (a + b), sum([c, c, c]) and random repetitions -- and with distinct analyses that compare
   and hash equal; hist / idx histories of such sums start with evaluations made before any pool exists)
  hist     a sum of plain analyses + a history of evaluations (some raising FitException / ValueError),
           visualize calls (through AnalysisPool.map when a pool exists), changes of n_cores (setter or
           general.yaml), and a scripted schedule of the pool for every call
  idx      free parameters / per-analysis models (or both): members, sharing classes of the fitted
           model, prior count, histories on instances of the fitted model
  fit      a real MockSearch fit of a plain / with_model / free-parameter sum, any bracketing, 1-2 cores:
           who wrote into folder i (save_attributes, visualize_before_fit, save_results and the child
           result it was handed) and what child result i is
"""
import json
import os

from . import common
from .common import cZ, cnat, cbool, clist

FINDING_FLAGS = [
    # (signature in known_findings/C15.json, class label, cfg field)
    ("sum-order-single-plus-combined", "order:single-plus-combined", "fix_order"),
    ("plain-combined-plus-model-combined", "mixed:plain-plus-model-combined", "fix_new"),
    ("pool-stale-results-after-raise", "pool:stale-after-raise", "fix_drain"),
    ("pool-map-folder-per-process", "pool:map-folder-per-process", "fix_map"),
    ("free-parameters-drop-own-models", "free:over-own-models", "fix_free_own"),
    ("model-analysis-drops-save-hooks", "fit:with-model-save-hooks", "fix_model_hooks"),
    ("free-sum-right-of-combined", "free:right-of-combined", "fix_free_right"),
]
L_ORDER, L_MIXED, L_STALE, L_MAP, L_FREE_OWN, L_HOOKS, L_FREE_RIGHT = [x[1] for x in FINDING_FLAGS]
EXC_KINDS = {"FitException": 0, "ValueError": 1}


def model_cfg(ctx):
    """Which repairs the Coq model is asked to contain: a defect listed with status `known` is
    modelled as present; once it is listed as `fixed` (or not listed) the repaired behaviour is the
    one the code must correspond to.
    C15_ASSUME_FIXED=sig1,sig2|all (used to try a proposed fix on a scratch copy via VERIF_REPO) treats
    the named findings as fixed for this run: no suppression, repaired model."""
    forced = [x for x in os.environ.get("C15_ASSUME_FIXED", "").split(",") if x]
    if forced:
        ctx.known = [k for k in ctx.known if k.get("signature") not in forced and "all" not in forced]
    known = {k.get("signature"): k.get("status") for k in ctx.known}
    return {field: known.get(sig) != "known" for sig, _, field in FINDING_FLAGS}


# ---------------------------------------------------------------------------
# expressions
# ---------------------------------------------------------------------------
def desugar(e):
    """tree ('L', j, hm) | ('A', l, r) | ('F', e); sum([...]) is a left fold (Analysis.__radd__)."""
    if "j" in e:
        return ("L", e["j"], bool(e.get("hm")))
    if "add" in e:
        return ("A", desugar(e["add"][0]), desugar(e["add"][1]))
    if "free" in e:
        return ("F", desugar(e["free"]))
    xs = [desugar(x) for x in e["sum"]]
    t = xs[0]
    for x in xs[1:]:
        t = ("A", t, x)
    return t


def leaves(t):
    if t[0] == "L":
        return [(t[1], t[2])]
    if t[0] == "F":
        return leaves(t[1])
    return leaves(t[1]) + leaves(t[2])


def nofree(t):
    return t[0] == "L" or (t[0] == "A" and nofree(t[1]) and nofree(t[2]))


def labels_of_tree(t):
    """class labels computed from the expression only"""
    out = set()

    def go(t):
        if t[0] == "L":
            return
        if t[0] == "F":
            go(t[1])
            return
        a, b = t[1], t[2]
        if a[0] == "L" and b[0] == "A":
            out.add(L_ORDER)
        if a[0] == "A" and b[0] == "A" and not any(h for _, h in leaves(a)) and any(h for _, h in leaves(b)):
            out.add(L_MIXED)
        if a[0] == "A" and b[0] == "F":
            out.add(L_FREE_RIGHT)
        if (a[0] == "L" and a[2] and b[0] == "F") or (a[0] == "F" and b[0] == "L" and b[2]):
            out.add(L_FREE_OWN)       # a.with_model(m) + free sum (either order): same root cause (__new__), same repair
        go(a)
        go(b)
    go(t)
    return out


def coq_expr(t):
    if t[0] == "L":
        return "(Leaf %s %s)" % (cnat(t[1]), cbool(t[2]))
    if t[0] == "F":
        return "(Free %s)" % coq_expr(t[1])
    return "(Add %s %s)" % (coq_expr(t[1]), coq_expr(t[2]))


def rand_tree(rng, leafs, p_sum=0.25):
    """random bracketing of the leaves in the given order"""
    if len(leafs) == 1:
        return leafs[0]
    if len(leafs) >= 2 and rng.random() < p_sum:
        k = rng.randint(2, min(4, len(leafs)))
        cuts = sorted(rng.sample(range(1, len(leafs)), k - 1))
        parts = [leafs[a:b] for a, b in zip([0] + cuts, cuts + [len(leafs)])]
        return {"sum": [rand_tree(rng, p, p_sum * 0.5) for p in parts]}
    shape = rng.random()
    if shape < 0.3:
        cut = len(leafs) - 1          # left nested
    elif shape < 0.55:
        cut = 1                        # right nested
    else:
        cut = rng.randint(1, len(leafs) - 1)
    return {"add": [rand_tree(rng, leafs[:cut], p_sum), rand_tree(rng, leafs[cut:], p_sum)]}


def all_trees(leafs):
    if len(leafs) == 1:
        return [leafs[0]]
    out = []
    for cut in range(1, len(leafs)):
        for a in all_trees(leafs[:cut]):
            for b in all_trees(leafs[cut:]):
                out.append({"add": [a, b]})
    return out



# ---------------------------------------------------------------------------
# sums in which the same analysis occurs more than once
# ---------------------------------------------------------------------------
def dup_shapes(leaf):
    """the named shapes over two (one) analyses a, b (c); leaf(j) -> leaf node of analysis j"""
    a, b = lambda: leaf(0), lambda: leaf(1)
    return [
        ("a+b+a", {"add": [{"add": [a(), b()]}, a()]}),
        ("a+(b+a)", {"add": [a(), {"add": [b(), a()]}]}),
        ("(a+b)+(a+b)", {"add": [{"add": [a(), b()]}, {"add": [a(), b()]}]}),
        ("sum([c,c,c])", {"sum": [a(), a(), a()]}),
        ("a+a", {"add": [a(), a()]}),
        ("sum([a,b,b,a])", {"sum": [a(), b(), b(), a()]}),
    ]


def dup_ids(rng, n):
    """n positions holding fewer than n distinct analyses (every analysis 0..k-1 occurs, k < n)"""
    k = rng.randint(1, n - 1)
    ids = list(range(k)) + [rng.randrange(k) for _ in range(n - k)]
    rng.shuffle(ids)
    return ids, k


def multiplicity(lv):
    """per position: the number of positions holding the same analysis OBJECT; `a` and `a.with_model(m)` are
    two objects (the harness builds one object per (analysis id, wrapper) and reuses it)"""
    return [sum(1 for y in lv if y == x) for x in lv]


def twin(rng, ads):
    """two DISTINCT analyses with equal content: they compare and hash equal (VA.__eq__/__hash__)"""
    if len(ads) >= 2:
        i, j = rng.sample(range(len(ads)), 2)
        ads[j] = json.loads(json.dumps(ads[i]))
        return True
    return False


def serial_prefix(rng, value, k=None):
    """evaluations / visualize calls made before anything touches n_cores (no pool exists yet)"""
    out = []
    for _ in range(k or rng.randint(1, 3)):
        out.append(["eval" if rng.random() < 0.8 else "map", value(), []])
    return out


def has_repeat(c):
    lv = leaves(desugar(c["expr"]))
    return len(set(lv)) < len(lv)


def has_twin(c):
    ads = c.get("ads") or []
    used = sorted(set(j for j, _ in leaves(desugar(c["expr"]))))
    return any(ads[i] == ads[j] for i in used for j in used if i < j and i < len(ads) and j < len(ads))

# ---------------------------------------------------------------------------
# generator
# ---------------------------------------------------------------------------
def gen_ads(rng, n, nslots, pool_vals, vis=False):
    ads = []
    two_kinds = rng.random() < 0.5
    for _ in range(n):
        fail = [v for v in pool_vals if rng.random() < 0.10]
        fail2 = [v for v in pool_vals if v not in fail and rng.random() < 0.07] if two_kinds else []
        ad = {"c": rng.randint(-20, 20), "w": [rng.randint(-9, 9) for _ in range(nslots)], "fail": fail, "fail2": fail2,
              "vfail": [], "vfail2": []}
        if vis:
            ad["vfail"] = [v for v in pool_vals if rng.random() < 0.08]
            ad["vfail2"] = [v for v in pool_vals if v not in ad["vfail"] and rng.random() < 0.05]
        ads.append(ad)
    return ads


def gen_masks(rng, nproc):
    rows = []
    for _ in range(rng.choice([0, 0, 1, 2, 3, 5])):
        p = rng.choice([0.3, 0.5, 0.8])
        rows.append([rng.random() < p for _ in range(nproc)])
    return rows


def gen_ops(rng, n, neval, value, max_cores=4, p_map=0.2, c0=1, p_mod=0.12):
    """history: changes of cores, evaluations, visualize calls and modify_before_fit with schedules;
    c0 = n_cores of general.yaml (what a freshly built combined analysis starts with)"""
    ops = []
    cores, pool_procs = c0, (min(n, c0) if c0 > 1 else 0)
    if c0 == 1 and rng.random() < 0.85:
        cores = rng.choice([2, 2, 3, max_cores, 1])
        ops.append(["cores", cores])
        if cores > 1:
            pool_procs = min(n, cores)
    for _ in range(neval):
        r = rng.random()
        if r < 0.15:
            cores = rng.choice([1, 1, 2, 3, max_cores])
            ops.append(["cores", cores])
            if cores > 1:
                pool_procs = min(n, cores)
        elif r < 0.15 + p_mod:
            # the members set themselves up in place; the combined analysis is rebuilt with n_cores = c0
            ops.append(["modify", rng.choice([-5, -3, -1, 1, 2, 4, 9])])
            cores, pool_procs = c0, (min(n, c0) if c0 > 1 else 0)
        if rng.random() < p_map:
            ops.append(["map", value(), gen_masks(rng, pool_procs) if pool_procs else []])
        else:
            ops.append(["eval", value(), gen_masks(rng, pool_procs) if cores > 1 else []])
    return ops


def eff_ops(c):
    """history as the model sees it: n_cores taken from the configuration by the constructor is an
    initial change of cores"""
    pre = [["cores", c["conf_cores"]]] if c.get("conf_cores") else []
    return pre + c["ops"]


def gen_shape_and_pids(rng):
    shape = [rng.randint(1, 3) for _ in range(rng.randint(1, 3))]
    while sum(shape) > 6:
        shape[rng.randrange(len(shape))] = 1
    pids = []
    for _ in range(sum(shape)):
        if pids and rng.random() < 0.3:
            pids.append(rng.choice(pids))
        else:
            pids.append(max(pids) + 1 if pids else 0)
    return shape, pids


def gen_own(rng, ids, hm, pids):
    own, fresh = {}, 20
    for j, h in zip(ids, hm):
        if not h or str(j) in own:
            continue
        row = []
        for p in pids:
            r = rng.random()
            if r < 0.4:
                row.append(p)                               # shared with the default model
            elif r < 0.55 and own:
                row.append(rng.choice(rng.choice(list(own.values()))))   # shared with another own model
            else:
                row.append(fresh)
                fresh += 1
        own[str(j)] = row
    return own


def gen_free_items(rng, shape, pids, own=None):
    items = []
    for _ in range(rng.randint(1, 3)):
        r = rng.random()
        if r < 0.55:
            src = pids if not own or rng.random() < 0.6 else rng.choice(list(own.values()))
            items.append({"prior": rng.choice(src)})
        elif r < 0.85:
            items.append({"component": rng.randrange(len(shape))})
        else:
            items.append({"prior": 50 + rng.randint(0, 3)})      # a prior no model contains
    return items


def gen_cases(ctx):
    rng = ctx.rng
    thorough = ctx.tier == "thorough"
    cases = []
    # ---- struct: every bracketing of 2..4 leaves x every with_model pattern; free on top; random larger ones
    for n in (2, 3, 4) + ((5,) if thorough else ()):
        for pat in range(2 ** n):
            leafs = [{"j": j, "hm": bool(pat >> j & 1)} for j in range(n)]
            for t in all_trees(leafs):
                cases.append({"kind": "struct", "expr": t})
        for t in all_trees([{"j": j} for j in range(n)]):
            cases.append({"kind": "struct", "expr": {"free": t}})
    # the same analysis object written more than once: the named shapes x with_model patterns, free on top
    for pat in range(4):
        hm = [bool(pat & 1), bool(pat >> 1 & 1)]
        for _, t in dup_shapes(lambda j: {"j": j, "hm": hm[j]}):
            cases.append({"kind": "struct", "expr": t})
            cases.append({"kind": "struct", "expr": {"free": t}})
    cases.append({"kind": "struct", "expr": {"sum": [{"j": 0}, {"j": 0, "hm": True}, {"j": 0}, {"j": 0, "hm": True}]}})
    for _ in range(100 if not thorough else 1500):
        n = rng.randint(3, 7 if not thorough else 12)
        ids = list(range(n))
        rng.shuffle(ids)
        r = rng.random()
        if r < 0.15:
            ids[rng.randrange(1, n)] = ids[0]                   # the same analysis object written twice
        elif r < 0.3:
            ids, _ = dup_ids(rng, n)                            # ... or several of them several times
        pm = rng.choice([0.0, 0.0, 0.25, 0.5])
        leafs = [{"j": j, "hm": rng.random() < pm} for j in ids]
        r = rng.random()
        if r < 0.25:
            expr = {"free": rand_tree(rng, leafs)}
        elif r < 0.45:
            # with_free_parameters somewhere inside a sum (or on a single analysis)
            cut = rng.randint(1, n - 1)
            a, b = leafs[:cut], leafs[cut:]
            fa, fb = {"free": rand_tree(rng, a)}, {"free": rand_tree(rng, b)}
            expr = rng.choice([{"add": [fa, rand_tree(rng, b)]}, {"add": [rand_tree(rng, a), fb]}, {"add": [fa, fb]},
                               {"sum": [rand_tree(rng, a), fb]}])
        else:
            expr = rand_tree(rng, leafs)
        cases.append({"kind": "struct", "expr": expr})
    # ---- hist
    pool_vals = [-3, -2, -1, 0, 1, 2, 3, 7]
    for k in range(120 if not thorough else 2000):
        n = rng.choice([2, 2, 3, 3, 4, 5, 6] + ([8, 10, 12] if thorough else []))
        ids, nd = list(range(n)), n
        repeated = k % 3 == 1
        if repeated:
            ids, nd = dup_ids(rng, n)                 # n positions, nd < n analysis objects
        elif rng.random() < 0.5:
            rng.shuffle(ids)
        ads = gen_ads(rng, nd, 1, pool_vals, vis=True)
        twinned = (not repeated) and k % 6 == 2 and twin(rng, ads)     # distinct objects that compare / hash equal
        if rng.random() < 0.25 or ((repeated or twinned) and rng.random() < 0.5):
            for a in ads:
                a["fail"], a["fail2"] = [], []
        expr = {"sum": [{"j": j} for j in ids]} if rng.random() < 0.4 else rand_tree(rng, [{"j": j} for j in ids])
        max_cores = rng.choice([4, n, n + 2])
        conf_cores = rng.choice([2, 3]) if k % 4 == 3 else None      # n_cores from general.yaml (read by the constructor)
        value = lambda: rng.choice(pool_vals)
        ops = gen_ops(rng, n, rng.randint(3, 10), value, max_cores, c0=conf_cores or 1)
        if not conf_cores and (repeated or twinned or rng.random() < 0.2):
            ops = serial_prefix(rng, value) + ops                    # evaluated before any pool exists
        case = {"kind": "hist", "ads": ads, "expr": expr, "ops": ops, "scale": rng.choice([1, 1, 1024])}
        if conf_cores:
            case["conf_cores"] = conf_cores
        cases.append(case)
    # ---- hist, the named shapes with a repeated analysis: serial first, then the random history (pool, raising calls,
    #      back to one core, modify_before_fit); once more with the pool made by the constructor
    for si, (_, expr) in enumerate(dup_shapes(lambda j: {"j": j})):
        for conf_cores in (None, 2) if si < 3 else (None,):
            n = len(leaves(desugar(expr)))
            ads = gen_ads(rng, 2, 1, pool_vals, vis=True)
            for a in ads:
                a["c"] = a["c"] or 7
                if si % 2 == 0:
                    a["fail"], a["fail2"] = [], []
            value = lambda: rng.choice(pool_vals)
            ops = gen_ops(rng, n, rng.randint(4, 8), value, n + 1, c0=conf_cores or 1, p_mod=0.2)
            if not conf_cores:
                ops = serial_prefix(rng, value, 2) + [["map", value(), []]] + ops
            case = {"kind": "hist", "ads": ads, "expr": expr, "ops": ops, "scale": 1}
            if conf_cores:
                case["conf_cores"] = conf_cores
            cases.append(case)
    # ---- hist, unsteered: the raw queue.empty() polling decides the schedule; one exception class only
    for k in range(4 if not thorough else 30):
        n = rng.randint(2, 6)
        ads = gen_ads(rng, n, 1, pool_vals, vis=True)
        for a in ads:
            a["fail2"], a["vfail2"] = [], []
        ops = [op[:2] + [[]] if op[0] in ("eval", "map") else op for op in
               gen_ops(rng, n, rng.randint(4, 10), lambda: rng.choice(pool_vals))]
        cases.append({"kind": "hist", "ads": ads, "expr": {"sum": [{"j": j} for j in range(n)]}, "ops": ops,
                      "scale": 1, "unsteered": True})
    # ---- idx: free parameters / per-analysis models / both
    vals_pool = [-3, -2, -1, 0, 1, 2, 3, 7]
    for k in range(110 if not thorough else 1600):
        variant = ["free", "own", "free", "own", "both"][k % 5]
        cases.append(gen_idx_case(rng, variant, vals_pool, conf_cores=2 if k % 3 == 2 else None, repeated=k % 4 == 1,
                                  twinned=k % 8 == 3))
    # ---- idx, the named shapes with a repeated analysis x free / own models / both
    for si, (_, skel) in enumerate(dup_shapes(lambda j: {"j": j})[:4]):
        for vi, variant in enumerate(["free", "own", "both"]):
            cases.append(gen_idx_case(rng, variant, vals_pool, conf_cores=2 if (si + vi) % 3 == 2 else None, skeleton=skel))
    # ---- real fits: plain / with_model / free (/ free over own models), any bracketing, 1-2 cores
    for k in range(16 if not thorough else 60):
        variant = ["plain", "own", "free", "plain", "own", "free", "both", "plain"][k % 8]
        cases.append(gen_fit_case(rng, variant, 2 if k % 2 == 1 else None, repeated=k % 5 == 2, twinned=k % 8 in (3, 4)))
    # ---- real fits of the named shapes with a repeated analysis
    shapes = dup_shapes(lambda j: {"j": j})
    for si, variant, cc in [(0, "plain", None), (1, "plain", 2), (2, "free", 2), (3, "own", None), (0, "both", None)]:
        cases.append(gen_fit_case(rng, variant, cc, skeleton=shapes[si][1]))
    return cases


def with_hm(skel, hm_of):
    """copy of an expression skeleton over leaves {"j": j} with hm set per analysis id"""
    if "j" in skel:
        return {"j": skel["j"], "hm": hm_of(skel["j"])}
    k = next(iter(skel))
    v = skel[k]
    return {k: [with_hm(x, hm_of) for x in v] if isinstance(v, list) else with_hm(v, hm_of)}


def gen_members(rng, need_own, repeated, skeleton):
    """(expr, ids, hm, n positions, n distinct analyses)"""
    if skeleton is not None:
        ids = [j for j, _ in leaves(desugar(skeleton))]
        nd = max(ids) + 1
        hm_id = [need_own and rng.random() < 0.6 for _ in range(nd)]
        if need_own and not any(hm_id):
            hm_id[rng.randrange(nd)] = True
        expr = with_hm(skeleton, lambda j: hm_id[j])
        return expr, ids, [hm_id[j] for j in ids], len(ids), nd
    n = rng.randint(2, 4)
    if repeated:
        n = rng.randint(3, 4)
        ids, nd = dup_ids(rng, n)
    else:
        ids, nd = list(range(n)), n
        rng.shuffle(ids)
    hm = [False] * n
    if need_own:
        hm = [rng.random() < 0.6 for _ in ids]       # a repeated id may occur both as `a` and as `a.with_model(m)`
        if not any(hm):
            hm[rng.randrange(n)] = True
    expr = rand_tree(rng, [{"j": j, "hm": h} for j, h in zip(ids, hm)])
    return expr, ids, hm, n, nd


def gen_idx_case(rng, variant, vals_pool, conf_cores=None, repeated=False, twinned=False, skeleton=None):
    shape, pids = gen_shape_and_pids(rng)
    expr, ids, hm, n, nd = gen_members(rng, variant != "free", repeated, skeleton)
    own = gen_own(rng, ids, hm, pids)
    ads = gen_ads(rng, nd, len(pids), vals_pool if rng.random() < 0.4 else [], vis=True)
    if twinned and not repeated and skeleton is None:
        twin(rng, ads)
    free = None
    if variant != "own":
        free = gen_free_items(rng, shape, pids, own)
        expr = {"free": expr}
    nvals = len(pids) * n + 2
    value = lambda: [rng.choice(vals_pool) for _ in range(nvals)]
    ops = gen_ops(rng, n, rng.randint(2, 6), value, 3, c0=conf_cores or 1)
    if not conf_cores and (repeated or twinned or skeleton is not None):
        ops = serial_prefix(rng, value, 2) + ops
    case = {"kind": "idx", "ads": ads, "expr": expr, "shape": shape, "default": pids, "own": own,
            "free": free, "ops": ops, "scale": 1}
    if conf_cores:
        case["conf_cores"] = conf_cores
    return case


def gen_fit_case(rng, variant, conf_cores=None, repeated=False, skeleton=None, twinned=False):
    shape, pids = gen_shape_and_pids(rng)
    expr, ids, hm, n, nd = gen_members(rng, variant in ("own", "both"), repeated, skeleton)
    own = gen_own(rng, ids, hm, pids)
    free = None
    if variant in ("free", "both"):
        free = [{"prior": p} for p in sorted(set(rng.sample(pids, rng.randint(1, min(2, len(pids))))))]
        expr = {"free": expr}
    ads = gen_ads(rng, nd, len(pids), [])
    if twinned and not repeated and skeleton is None:
        twin(rng, ads)
    case = {"kind": "fit", "ads": ads, "expr": expr, "shape": shape, "default": pids, "own": own, "free": free,
            "mod_delta": rng.choice([-4, 3, 7])}
    if conf_cores:
        case["conf_cores"] = conf_cores
    return case


# ---------------------------------------------------------------------------
# reference semantics of the harness analyses and expected values (oracle side)
# ---------------------------------------------------------------------------
def lik(ad, s):
    """int numerator | ('exc', class name)"""
    if s and s[0] in ad.get("fail", []):
        return ("exc", "FitException")
    if s and s[0] in ad.get("fail2", []):
        return ("exc", "ValueError")
    return ad["c"] + sum(a * b for a, b in zip(ad["w"], s))


def vis(ad, s):
    if s and s[0] in ad.get("vfail", []):
        return ("exc", "FitException")
    if s and s[0] in ad.get("vfail2", []):
        return ("exc", "ValueError")
    return 0


def expected_struct(c):
    t = c["_tree"] if "_tree" in c else desugar(c["expr"])
    lv = leaves(t)
    if t[0] == "L":
        return {"kind": "single", "items": [["plain", lv[0][0], lv[0][1]]]}
    if t[0] == "A" and nofree(t):
        kind = "model" if any(h for _, h in lv) else "plain"
    elif t[0] == "F":
        # with_free_parameters of whatever the inner expression is: a combined analysis -> re-wrapped in order
        inner = expected_struct({"expr": None, "_tree": t[1]})
        if inner["kind"] in ("plain", "model", "free"):
            return {"kind": "free", "items": [["idx", it[1], it[2], i] for i, it in enumerate(inner["items"])]}
        return {"kind": "error"}
    else:
        return {"kind": "error"}
    if kind == "plain":
        return {"kind": kind, "items": [["plain", j, h] for j, h in lv]}
    return {"kind": kind, "items": [["idx", j, h, i] for i, (j, h) in enumerate(lv)]}


def comp_pids(shape, pids):
    out, pos = [], 0
    for n in shape:
        out.append(pids[pos:pos + n])
        pos += n
    return out


def effective_free(c):
    """prior ids the free-parameter items expand to (harness's own description of the model)"""
    out = []
    cp = comp_pids(c["shape"], c["default"])
    for it in c["free"] or []:
        if "prior" in it:
            out.append(it["prior"])
        else:
            out += cp[it["component"]]
    return out


def expected_keys(c):
    """identity of the prior at (analysis position, slot) as the property declares it: every analysis
    reads an instance of its own model (with_model) or of the default one; with free parameters each
    analysis has its own copy of every free prior of that model"""
    lv = leaves(desugar(c["expr"]))
    fs = set(effective_free(c)) if c.get("free") is not None else set()
    rows = []
    for i, (j, h) in enumerate(lv):
        src = c["own"][str(j)] if h else c["default"]
        rows.append([("fresh", i, p) if p in fs else ("orig", p) for p in src])
    return rows


def canon(rows):
    num = {}
    out = []
    for r in rows:
        row = []
        for k in r:
            if k not in num:
                num[k] = len(num)
            row.append(num[k])
        out.append(row)
    return out, len(num)


def val_of(a, scale=1):
    """answer -> int numerator | ('exc', name) | None (not representable: never expected)"""
    if a[0] == "exc":
        return ("exc", a[1])
    if a[0] != "val":
        return None
    f = float.fromhex(a[1]) * scale
    return int(f) if f == int(f) else None


def expected_call(fn, c, lv, subs, pooled, offs=None):
    """expected outcome of one evaluation / visualize: serial -> the first raising analysis' class;
    pool -> the class of any raising analysis; offs = state the members added to their likelihood"""
    rs = [fn(c["ads"][j], s) for (j, _), s in zip(lv, subs)]
    if offs is not None:
        rs = [x if isinstance(x, tuple) else x + o for x, o in zip(rs, offs)]
    excs = [r[1] for r in rs if isinstance(r, tuple)]
    if not excs:
        return sum(rs), rs
    if pooled:
        return ("exc-any", sorted(set(excs))), rs
    return ("exc", excs[0]), rs


def answer_ok(got, exp):
    if isinstance(exp, tuple) and exp[0] == "exc-any":
        return isinstance(got, tuple) and got[1] in exp[1]
    return got == exp


def oracle_history(c, r, lv, subs_of, out):
    """evaluations / visualize calls / residue of hist and idx cases"""
    scale = c.get("scale", 1)
    cores, pool, tainted, e = 1, False, False, 0
    outs = r["outs"]
    c0 = c.get("conf_cores") or 1
    offs = [0] * len(lv)                       # what each member added to its own state in modify_before_fit
    for op in eff_ops(c):
        if op[0] == "cores":
            cores = op[1]
            if cores > 1:
                pool, tainted = True, False
            continue
        if op[0] == "modify":
            # members without a with_model wrapper set themselves up in place (ModelAnalysis inherits the default
            # hook and does not ask the wrapped analysis); the combined analysis is rebuilt: n_cores from general.yaml
            # modify_before_fit is called once per POSITION and the harness analyses change themselves in place: an
            # object written k times has been modified k times when the next evaluation reads it at any of its positions
            offs = [o if h else o + op[1] * m for o, (_, h), m in zip(offs, lv, multiplicity(lv))]
            cores, pool, tainted = c0, c0 > 1, False
            continue
        subs = subs_of(op[1])

        got = outs[e] if e < len(outs) else {"ans": ["other", "missing"]}
        if op[0] == "eval":
            pooled = cores > 1
            exp, rs = expected_call(lik, c, lv, subs, pooled, offs)
            gotv = val_of(got["ans"], scale)
            if not answer_ok(gotv, exp):
                out.append(("evaluation %d (n_cores=%d) returned %r, the sum of the members' own likelihoods is %r"
                            % (e, cores, gotv, exp),
                            {L_STALE} if (pooled and tainted) else set()))
        else:
            pooled = pool
            exp, rs = expected_call(vis, c, lv, subs, pooled)
            gotv = val_of(got["ans"], 1)
            if not answer_ok(gotv, exp):
                out.append(("visualize %d returned %r, expected %r" % (e, gotv, exp), {L_STALE} if (pooled and tainted) else set()))
            okpos = [i for i, x in enumerate(rs) if not isinstance(x, tuple)]
            if not pooled:
                first_bad = min([i for i, x in enumerate(rs) if isinstance(x, tuple)] + [len(rs)])
                okpos = [i for i in okpos if i < first_bad]
            expw = sorted([i, lv[i][0]] for i in okpos)
            if sorted(got.get("written", [])) != expw:
                n = len(lv)
                lab = {L_MAP} if (pooled and n > min(n, max(cores, 2))) else set()
                out.append(("visualize %d wrote (folder, analysis) %s, expected %s" % (e, got.get("written"), expw), lab))
        if pooled and isinstance(exp, tuple):
            tainted = True
        e += 1
    if len(outs) != e:
        out.append(("history has %d calls, %d outcomes" % (e, len(outs)), set()))
    if any(q for q in r["residue"]):
        out.append(("results left on the pool's queues after the history: %s" % r["residue"],
                    {L_STALE} if tainted else set()))


def oracle(c, r):
    """Direct statement of C15 on the implementation's outputs.  Returns a list of (message, labels)
    where labels are computed from the case (and the position in its history), never from the outcome."""
    out = []
    k = c["kind"]
    t = desugar(c["expr"])
    tl = labels_of_tree(t)
    lv = leaves(t)
    exp = expected_struct(c)
    got = dict(r["struct"])
    got_exc = got.pop("exc", None)
    if exp["kind"] == "error":
        if got["kind"] == "error" and got_exc == "uninitialised":
            out.append(("the expression must raise; it returned an object whose __init__ never ran (it fails on first use)",
                        tl & {L_FREE_OWN}))
        if got["kind"] != "error":
            out.append(("adding to a free-parameter analysis (or freeing a single analysis) gave %s instead of an error" % got,
                        tl & {L_FREE_RIGHT}))
        return out
    if got["kind"] == "error":
        out.append(("expression raised %s, expected %s" % (got_exc, exp), set()))
        return out
    if got != exp:
        got_ids = [it[1] for it in got["items"]]
        exp_ids = [it[1] for it in exp["items"]]
        if sorted(got_ids) == sorted(exp_ids) and got_ids != exp_ids:
            out.append(("analyses are %s, written order is %s" % (got_ids, exp_ids), tl & {L_ORDER}))
        got_shape = (got["kind"], [(it[0], it[3] if len(it) > 3 else None) for it in got["items"]])
        exp_shape = (exp["kind"], [(it[0], it[3] if len(it) > 3 else None) for it in exp["items"]])
        if got_shape != exp_shape or sorted(got_ids) != sorted(exp_ids):
            out.append(("combined analysis is %s, the expression asks for %s" % (got, exp), tl & {L_MIXED}))
        return out
    if k == "hist":
        oracle_history(c, r, lv, lambda x: [[x]] * len(lv), out)
    free_own = {L_FREE_OWN} if (c.get("free") is not None and any(h for _, h in lv)) else set()
    if k in ("idx", "fit"):
        rows, count = canon(expected_keys(c))
    if k == "idx":
        n = len(lv)
        if r["classes"] != rows:
            out.append(("sharing of the fitted model is %s, declared %s" % (r["classes"], rows), free_own))
        if r["count"] != count:
            out.append(("fitted model has %d parameters, declared %d" % (r["count"], count), free_own))
        if c.get("free") is not None and not free_own:
            fs = set(effective_free(c)) & set(c["default"])
            formula = len(fs) * n + len(set(c["default"]) - fs)
            if r["count"] != formula:
                out.append(("fitted model has %d parameters, |free|*n+|shared| = %d" % (r["count"], formula), set()))
        if r["classes"] == rows:
            oracle_history(c, r, lv, lambda vals: [[vals[kk] for kk in row] for row in rows], out)
    if k == "fit":
        ids = [j for j, _ in lv]
        pos = [[i, j] for i, j in enumerate(ids)]
        hooks = {L_HOOKS} if any(h for _, h in lv) else set()
        if r["attr"] != pos:
            out.append(("save_attributes wrote (folder, analysis) %s, expected %s" % (r["attr"], pos), hooks))
        if r["vbf"] != pos:
            out.append(("visualize_before_fit wrote (folder, analysis) %s, expected %s" % (r["vbf"], pos), set()))
        if r["res"] != [[i, j, j] for i, j in enumerate(ids)]:
            out.append(("save_results wrote (folder, analysis, child result handed over) %s, expected position i, "
                        "analysis i, child i" % r["res"], hooks))
        d = c.get("mod_delta", 0)
        expo = sorted([j, 0 if h else d * lv.count((j, h))] for j, h in set(lv))     # one call per position, in place
        if "offs" in r and r["offs"] != expo:
            out.append(("during the fit the likelihoods were evaluated by members in state (analysis, offset) %s; after "
                        "modify_before_fit every evaluation must see %s" % (r["offs"], expo), set()))
        if exp["kind"] == "plain":
            base, _ = canon([[("orig", p) for p in c["default"]]])
            expc = [[j, base[0]] for j in ids]
        else:
            expc = [[j, rows[i]] for i, j in enumerate(ids)]
        if r["children"] != expc:
            out.append(("child results (analysis, sharing classes of its model) are %s, expected %s" % (r["children"], expc),
                        free_own))
    return out


def case_labels(c):
    labs = set(labels_of_tree(desugar(c["expr"])))
    if c.get("free") is not None and any(h for _, h in leaves(desugar(c["expr"]))):
        labs.add(L_FREE_OWN)
    if c["kind"] == "fit" and any(h for _, h in leaves(desugar(c["expr"]))):
        labs.add(L_HOOKS)
    return labs


def nontrivial(c):
    k = c["kind"]
    if k == "struct":
        return len(leaves(desugar(c["expr"]))) >= 3
    if k in ("hist", "idx"):
        cores, pool, steered, mapped, raised, after_raise = 1, False, False, False, False, False
        for op in eff_ops(c):
            if op[0] == "cores":
                cores = op[1]
                if cores > 1:
                    pool, raised = True, False
                continue
            if op[0] == "modify":
                if pool:
                    mapped = True                 # a pool existed when the members changed their state
                c0 = c.get("conf_cores") or 1
                cores, pool, raised = c0, c0 > 1, False
                continue
            pooled = cores > 1 if op[0] == "eval" else pool
            if pooled and any(not all(row) for row in op[2]):
                steered = True
            if pooled and op[0] == "map":
                mapped = True
            if pooled and raised:
                after_raise = True
            if k == "hist" and pooled:
                key = ("fail", "fail2") if op[0] == "eval" else ("vfail", "vfail2")
                if any(op[1] in a[key[0]] or op[1] in a[key[1]] for a in c["ads"]):
                    raised = True
        if k == "idx":
            return steered or mapped or bool(c["own"]) or bool(set(effective_free(c)) & set(c["default"]))
        return steered or after_raise or mapped
    return True


# ---------------------------------------------------------------------------
# Coq printing
# ---------------------------------------------------------------------------
def coq_aval(d):
    def item(it):
        if it[0] == "idx":
            return "IIdx %s %s %s" % (cnat(it[1]), cbool(it[2]), cnat(it[3]))
        return "IPlain %s %s" % (cnat(it[1]), cbool(it[2]))
    if d["kind"] == "error":
        return "VErr"
    if d["kind"] == "single":
        return "(VSingle %s %s)" % (cnat(d["items"][0][1]), cbool(d["items"][0][2]))
    kind = {"plain": "KPlain", "model": "KModel", "free": "KFree"}.get(d["kind"])
    if kind is None:
        return "(VComb KPlain [])"     # a class the model never produces
    return "(VComb %s %s)" % (kind, clist([item(it) for it in d["items"]]))


def coq_res(a, scale=1):
    v = val_of(a, scale)
    if isinstance(v, tuple):
        return "(RExc %s)" % cnat(EXC_KINDS.get(v[1], 9))
    if v is None:
        return "(RVal (-987654321)%Z)"
    return "(RVal %s)" % cZ(v)


def coq_masks(m):
    return clist([clist([cbool(b) for b in row]) for row in m])


def coq_ads(ads):
    zs = lambda l: clist([cZ(x) for x in l])
    return clist(["(mkA %s %s %s %s %s %s)" % (cZ(a["c"]), zs(a["w"]), zs(a.get("fail", [])), zs(a.get("fail2", [])),
                                            zs(a.get("vfail", [])), zs(a.get("vfail2", []))) for a in ads])


def cpairs(l):
    n = lambda a: cnat(a) if 0 <= a < 4999 else "4999%nat"
    return clist(["(%s, %s)" % (n(a), n(b)) for a, b in l])


def coq_outs(c, r):
    scale = c.get("scale", 1)
    res = []
    ops = [op for op in eff_ops(c) if op[0] in ("eval", "map")]
    for op, o in zip(ops, r["outs"]):
        if op[0] == "eval":
            res.append("ObsAns (Some %s)" % coq_res(o["ans"], scale))
        else:
            res.append("ObsMap (Some %s) %s" % (coq_res(o["ans"], 1), cpairs(o.get("written", []))))
    if len(ops) != len(r["outs"]):
        res.append("ObsAns None")
    return clist(res)


def coq_case(c, r):
    k = c["kind"]
    e = coq_expr(desugar(c["expr"]))
    if k == "struct":
        return "CStruct %s %s" % (e, coq_aval(r["struct"]))
    nl = lambda l: clist([cnat(p) for p in l])
    residue = lambda: clist([clist([coq_res(a, 1) for a in q]) for q in r["residue"]])
    if k == "hist":
        ops = []
        for op in eff_ops(c):
            if op[0] == "cores":
                ops.append("OCores %s" % cnat(op[1]))
            elif op[0] == "modify":
                ops.append("OModify %s %s" % (cZ(op[1]), cnat(c.get("conf_cores") or 1)))
            else:
                ops.append("%s ([%s], []) %s" % ("OEval" if op[0] == "eval" else "OMap", cZ(op[1]), coq_masks(op[2])))
        # residue of evaluations carries the scale; compare numerators
        rs = clist([clist([coq_res(a, c.get("scale", 1)) for a in q]) for q in r["residue"]])
        return "CHist %s %s %s %s %s %s" % (coq_ads(c["ads"]), e, clist(ops), coq_aval(r["struct"]), coq_outs(c, r), rs)
    n_ads = max(j for j, _ in leaves(desugar(c["expr"]))) + 1
    own = [c["own"].get(str(j), []) for j in range(n_ads)]
    free = effective_free(c) if c.get("free") is not None else []
    if k == "idx":
        ops = []
        for op in eff_ops(c):
            if op[0] == "cores":
                ops.append("ICores %s" % cnat(op[1]))
            elif op[0] == "modify":
                ops.append("IModify %s %s" % (cZ(op[1]), cnat(c.get("conf_cores") or 1)))
            else:
                ops.append("%s %s %s" % ("IEval" if op[0] == "eval" else "IMap", clist([cZ(x) for x in op[1]]), coq_masks(op[2])))
        return "CIdx %s %s %s %s %s %s %s %s %s %s %s" % (
            coq_ads(c["ads"]), e, nl(c["default"]), clist([nl(row) for row in own]), nl(free),
            coq_aval(r["struct"]), clist([nl(row) for row in r["classes"]]), cnat(r["count"]),
            clist(ops), coq_outs(c, r), residue())
    if k == "fit":
        n = lambda a: cnat(a) if 0 <= a < 4999 else "4999%nat"
        res = clist(["(%s, (%s, %s))" % (n(a), n(b), n(g)) for a, b, g in r["res"]])
        ch = clist(["(%s, %s)" % (n(j), clist([n(x) for x in row])) for j, row in r["children"]])
        return "CFit %s %s %s %s %s %s %s %s" % (e, nl(c["default"]), clist([nl(row) for row in own]), nl(free),
                                              cpairs(r["attr"]), cpairs(r["vbf"]), res, ch)
    return None


# ---------------------------------------------------------------------------
# run
# ---------------------------------------------------------------------------
def run_impl_chunks(cases, workers):
    idx_cases = []
    for i, c in enumerate(cases):
        d = dict(c)
        d["idx"] = i
        idx_cases.append(d)
    order = sorted(range(len(cases)), key=lambda i: (cases[i]["kind"] == "struct", i))
    chunks = [[] for _ in range(workers)]
    for pos, i in enumerate(order):
        chunks[pos % workers].append(i)
    chunks = [ch for ch in chunks if ch]
    outs = common.run_impl_parallel("c15_impl", [{"cases": [idx_cases[i] for i in ch]} for ch in chunks],
                                    timeout=2400, workers=workers)
    results = [None] * len(cases)
    err = None
    for ch, o in zip(chunks, outs):
        if "__error__" in o:
            err = o["__error__"]
            continue
        for i, r in zip(ch, o["results"]):
            results[i] = r
    # a timeout of the steering harness is a harness matter first: retry that case alone, once
    retries = 0
    for i, r in enumerate(results):
        if r is not None and "timeout" in r and retries < 6:
            retries += 1
            o = common.run_impl("c15_impl", {"cases": [idx_cases[i]]}, timeout=900)
            if "__error__" not in o:
                first = r["timeout"]
                results[i] = o["results"][0]
                if "timeout" in results[i]:
                    results[i]["timeout"] = "twice: %s / %s" % (first, results[i]["timeout"])
                    break                     # reproducible: no point in retrying the others
    return results, err


def run(ctx):
    ctx.rule = ("cases are abstract inputs of four kinds (struct: an expression over analyses incl. with_model leaves, repeated "
                "analyses and with_free_parameters anywhere; hist: a sum + a history of evaluations / raising evaluations of two "
                "exception classes / visualize calls / changes of n_cores with a scripted pool schedule per call; idx: free "
                "parameters and/or per-analysis models + histories on instances of the fitted model; real fits of plain, "
                "with_model and free-parameter sums on 1-2 cores). Non-trivial: struct with >= 3 analyses; hist with a pool whose "
                "scripted schedule withholds a result at least once, that visualizes through the pool or that is used after a "
                "raising call; idx with an effective free parameter, an own model, a pool visualize or a withholding schedule; "
                "every real fit. Every kind contains sums in which the same analysis object is written more than once (the named "
                "shapes a+b+a, a+(b+a), (a+b)+(a+b), sum([c,c,c]) in every run + random repetitions) and distinct analyses "
                "that compare/hash equal, evaluated serially before any pool exists and through the pool. "
                "distinct = distinct abstract input")
    ctx.trusted = [
        "Coq 8.16.1 kernel incl. vm_compute",
        "correspondence harness c15.py / impl/c15_impl.py: harness analyses (affine, integer or k/1024 valued => float sums exact; "
        "__eq__/__hash__ by content; modify_before_fit changes the object in place and returns it, so an object written k times "
        "is modified k times - Model.fresh_members / modf_member), "
        "expression builder, desugaring of sum([...]) into a left fold of +, model builder from prior-id lists, "
        "canonical numbering of prior identities (by Prior.id)",
        "schedule steering: the main-process side of each AnalysisProcess.queue is wrapped by a proxy whose empty() follows the "
        "scripted availability mask (not available => True; available => waits for the real item, then False); workers, "
        "queues, pickling, __call__, results, map are the real code; a few hist cases per run are not steered at all",
        "modelled not verified: multiprocessing.Queue is FIFO per queue; AnalysisProcess._run handles its instance queue "
        "sequentially; OS scheduling and feeder-thread timing are represented by the availability masks (universally "
        "quantified in the theorems, sampled on the implementation side); fork start method",
    ]
    ctx.assumptions = [
        "likelihood values are integers or multiples of 1/1024 (exact binary64 sums); for inexact addends the pool adds in arrival "
        "order, so its float sum may differ from the serial one in the last place and depend on the schedule - recorded as a "
        "tolerance decision, not checked",
        "which recorded defects the model contains is read from known_findings/C15.json (status known => present); "
        "the seven defects of the snapshot are fixed in /repo; theorems about cfg_snapshot / cfg_round1 / cfg_round2 / drain = false "
        "are historical; no known finding is open",
        "an expression that adds to a FreeParameterAnalysis, or frees a single analysis, must raise (TypeError/AttributeError)",
        "when several analyses raise on one instance the pool may raise the exception of any of them (serial: the first)",
    ]
    cfg = model_cfg(ctx)
    ctx.notes["model_cfg"] = cfg
    ctx.notes["env"] = {k: os.environ[k] for k in ("C15_ASSUME_FIXED", "C15_WAIT", "C15_CASE_LIMIT", "VERIF_REPO") if k in os.environ}
    ctx.build()
    cases = gen_cases(ctx)
    corpus_dir = os.path.join(common.VERIF, "corpus", "C15")
    pinned = []                                  # (signature of a repaired finding, case) from the corpus
    if os.path.isdir(corpus_dir):
        for f in sorted(os.listdir(corpus_dir), reverse=True):
            if f.endswith(".json"):
                d = json.load(open(os.path.join(corpus_dir, f)))
                cases.insert(0, d["case"])
                if d.get("signature"):
                    pinned.append((d["signature"], d["case"]))
    if ctx.replay:
        rp = json.load(open(ctx.replay))
        if rp.get("case"):
            cases = [rp["case"]]
    results, err = run_impl_chunks(cases, 1 if len(cases) < 4 else 8)
    if err:
        ctx.obligation("impl-driver", "harness", False, err[-800:])
        return
    coq_cases, coq_idx = [], []
    oracle_msgs = {}
    timeouts = []
    for i, (c, r) in enumerate(zip(cases, results)):
        key = {k: v for k, v in c.items() if k != "idx"}
        ctx.count_case(key, nontrivial(c), c["kind"])
        for lab in sorted(case_labels(c)):
            ctx.hist("label", lab)
        ctx.hist("repeated_analysis:" + c["kind"], has_repeat(c))
        if c["kind"] in ("hist", "idx"):
            ctx.hist("equal_twins:" + c["kind"], has_twin(c))
            if has_repeat(c) or has_twin(c):
                ctx.hist("repeated_or_twin:serial_evals_before_any_pool",
                         sum(1 for op in (c["ops"] if not c.get("conf_cores") else [])[:next(
                             (i for i, op in enumerate(c["ops"]) if op[0] in ("cores", "modify")), len(c["ops"]))]
                             if op[0] == "eval"))
            ctx.hist("n_analyses", len(leaves(desugar(c["expr"]))))
            ctx.hist("cores_from_config", bool(c.get("conf_cores")))
            ctx.hist("scale", c.get("scale", 1))
            ctx.hist("steered", not c.get("unsteered"))
            for op in c["ops"]:
                ctx.hist("op", op[0])
                if op[0] == "cores":
                    ctx.hist("cores", op[1])
                elif op[0] != "modify":
                    ctx.hist("scripted_passes", len(op[2]))
        if c["kind"] == "fit":
            ctx.hist("equal_twins:fit", has_twin(c))
            ctx.hist("fit_variant", expected_struct(c)["kind"] + ("+own" if c.get("free") is not None and c["own"] else ""))
            ctx.hist("fit_cores", c.get("conf_cores", 1))
        ctx.oracle["cases"] += 1
        if r is not None and "timeout" in r:
            timeouts.append((i, r["timeout"]))
            continue
        if r is None or "exc" in r:
            ctx.oracle["failures"] += 1
            # a real fit of free parameters over own models dies in modify_before_fit (part of that finding)
            labs = [L_FREE_OWN] if (c["kind"] == "fit" and L_FREE_OWN in case_labels(c)) else []
            ctx.failure("oracle", "implementation raised %s: %s" % ((r or {}).get("exc"), (r or {}).get("msg")), c,
                        classes=labs, impl=r)
            continue
        msgs = oracle(c, r["ok"])
        oracle_msgs[i] = msgs
        for msg, labs in msgs:
            ctx.oracle["failures"] += 1
            ctx.failure("oracle", msg, c, classes=sorted(labs), impl=r["ok"])
        cc = coq_case(c, r["ok"])
        if cc:
            coq_cases.append(cc)
            coq_idx.append(i)
        if i % 41 == 0:
            ctx.sample({"case": key if len(str(key)) < 500 else {"kind": c["kind"], "expr": c.get("expr")}}, limit=8)
    # a repaired finding must stay repaired: its pinned corpus case has to satisfy the oracle
    status = {k.get("signature"): k.get("status") for k in common.load_known("C15")}
    if not ctx.replay:
        for sig in sorted(set(sg for sg, _ in pinned)):
            if status.get(sig) != "fixed":
                continue
            idxs = [i for i, c in enumerate(cases) if any(c is pc for sg, pc in pinned if sg == sig)]
            bad = [m for i in idxs for m, _ in oracle_msgs.get(i, [("case did not run", set())])]
            ctx.obligation("regression:" + sig, "regression", not bad,
                           "; ".join(bad)[:400] if bad else "%d pinned case(s) pass" % len(idxs))
    if timeouts:
        # the steering harness gave up twice on the same case: the pool never delivered / never returned
        i, msg = timeouts[0]
        ctx.obligation("impl-driver:pool-returns", "harness", False,
                       "%d case(s) timed out twice, first: case %d (%s): %s" % (len(timeouts), i, cases[i]["kind"], msg))
        ctx.failure("harness", "the pool never returned on this case (steering harness timed out twice): %s" % msg,
                    cases[i], impl=None, found_input=True)
    else:
        ctx.obligation("impl-driver:pool-returns", "harness", True, "no steering timeout")
    if os.path.exists(os.path.join(common.COQ, "C15", "Model.vo")):
        hdr = ctx.header(["Model"]) + "\nDefinition the_cfg := mkCfg %s %s %s %s %s %s %s.\n" % tuple(
            cbool(cfg[f]) for f in ("fix_order", "fix_new", "fix_drain", "fix_map", "fix_free_own", "fix_model_hooks",
                                    "fix_free_right"))
        bad, log = ctx.eval_cases(hdr, "case", "check_case the_cfg", coq_cases, shard=80)
        if bad:
            for b in bad[:5]:
                i = coq_idx[b]
                ctx.failure("correspondence", "model and implementation disagree on a %s case" % cases[i]["kind"],
                            cases[i], impl=results[i].get("ok"), broken={"kind": "correspondence", "name": "C15.check_case"},
                            found_input=bool(oracle_msgs.get(i)))
    else:
        ctx.obligation("correspondence:cases", "correspondence", False, "Model.vo not built")


MANIFEST = {
    "text": "Coq 8.16 theorems over a model of Analysis.__add__/CombinedAnalysis (+ algebra for every bracketing, errors for sums "
            "with a FreeParameterAnalysis), the serial sum, the AnalysisPool as a transition system (per-process FIFO queues, "
            "availability masks = every schedule, histories of evaluations / visualize calls through map / raising calls of several "
            "exception classes / changes of n_cores), FreeParameterAnalysis/CombinedModelAnalysis.modify_model (sharing "
            "characterisation and |free|*n+|shared| count), the fit pipeline modify_before_fit -> make_result -> save_results "
            "(position i = analysis i = child i = folder i), multiplicity of repeated analyses (C15_sum_multiplicity, "
            "C15_serial/pool_multiplicity, C15_member_multiplicity, C15_free_params_count_of_expr; a sum over de-duplicated "
            "analyses refuted) and an end-to-end statement over expressions; the model is parametrised "
            "by the recorded defects; vm_compute correspondence with the running code under externally steered pool schedules, "
            "real MockSearch fits, and a direct property oracle on every generated case",
    "note": "Trusted: Coq kernel + vm_compute, the correspondence harness incl. the queue proxies that steer pool schedules. "
            "Likelihoods are integers or multiples of 1/1024 (float rounding of inexact sums in arrival order not covered); OS "
            "scheduling is represented by availability masks; theorems about cfg_snapshot / cfg_round1 / cfg_round2 / drain=false describe historical "
            "trees, not /repo.",
    "technique": "machine-checked proof in Coq (transition-system model, induction over histories and schedules) + vm_compute "
                 "correspondence under steered schedules",
}
