"""C15 -- summed analyses: likelihood is the sum, parameters shared or freed as declared
(DESIGN.md section 5, C15).

Case kinds (abstract inputs; the same input goes to the real code and to the Coq model):
  struct   an expression over analyses (any bracketing, `sum([...])`, with_model leaves,
           optional with_free_parameters): class and members of the combined analysis
  hist     a sum of plain analyses + a history of evaluations (some raising), changes of n_cores,
           and a scripted schedule of the pool for every evaluation
  idx      free parameters / per-analysis models: members, sharing classes of the fitted model,
           prior count, histories of evaluations on instances of the fitted model
  folders  visualize through _for_each_analysis (serial) or AnalysisPool.map (pool)
  fit      a real MockSearch fit: folders written by save_attributes/save_results, child results
"""
import json
import os

from . import common
from .common import cZ, cnat, cbool, clist, copt

FINDING_FLAGS = [
    # (signature in known_findings/C15.json, class label, cfg field)
    ("sum-order-single-plus-combined", "order:single-plus-combined", "fix_order"),
    ("plain-combined-plus-model-combined", "mixed:plain-plus-model-combined", "fix_new"),
    ("pool-stale-results-after-raise", "pool:stale-after-raise", "fix_drain"),
    ("pool-map-folder-per-process", "pool:map-folder-per-process", "fix_map"),
]
L_ORDER, L_MIXED, L_STALE, L_MAP = [x[1] for x in FINDING_FLAGS]


def model_cfg(ctx):
    """Which repairs the Coq model is asked to contain: a defect listed with status `known` is
    modelled as present (faithful to the pinned tree); once it is listed as `fixed` (or not listed)
    the repaired behaviour is the one the code must correspond to.
    C15_ASSUME_FIXED=sig1,sig2 (used to try a proposed fix on a scratch copy via VERIF_REPO) treats
    the named findings as fixed for this run: no suppression, repaired model."""
    forced = [x for x in os.environ.get("C15_ASSUME_FIXED", "").split(",") if x]
    if forced:
        ctx.known = [k for k in ctx.known if k.get("signature") not in forced and "all" not in forced]
    known = {k.get("signature"): k.get("status") for k in ctx.known}
    return {field: known.get(sig) != "known" for sig, _, field in FINDING_FLAGS}


# ---------------------------------------------------------------------------
# expressions
# ---------------------------------------------------------------------------
def desugar(e):
    """binary tree ('L', j, hm) | ('A', l, r); sum([...]) is a left fold (Analysis.__radd__)."""
    if "j" in e:
        return ("L", e["j"], bool(e.get("hm")))
    if "add" in e:
        return ("A", desugar(e["add"][0]), desugar(e["add"][1]))
    xs = [desugar(x) for x in e["sum"]]
    t = xs[0]
    for x in xs[1:]:
        t = ("A", t, x)
    return t


def leaves(t):
    return [(t[1], t[2])] if t[0] == "L" else leaves(t[1]) + leaves(t[2])


def labels_of_tree(t):
    """class labels computed from the expression only"""
    out = set()

    def go(t):
        if t[0] == "L":
            return
        a, b = t[1], t[2]
        if a[0] == "L" and b[0] == "A":
            out.add(L_ORDER)
        if a[0] == "A" and b[0] == "A" and not any(h for _, h in leaves(a)) and any(h for _, h in leaves(b)):
            out.add(L_MIXED)
        go(a)
        go(b)
    go(t)
    return out


def coq_expr(t):
    if t[0] == "L":
        return "(Leaf %s %s)" % (cnat(t[1]), cbool(t[2]))
    return "(Add %s %s)" % (coq_expr(t[1]), coq_expr(t[2]))


def rand_tree(rng, leafs, p_sum=0.25):
    """random bracketing of the leaves in the given order"""
    if len(leafs) == 1:
        return leafs[0]
    if len(leafs) >= 2 and rng.random() < p_sum:
        # n-ary sum of sub-expressions
        k = rng.randint(2, min(4, len(leafs)))
        cuts = sorted(rng.sample(range(1, len(leafs)), k - 1))
        parts = [leafs[a:b] for a, b in zip([0] + cuts, cuts + [len(leafs)])]
        return {"sum": [rand_tree(rng, p, p_sum * 0.5) for p in parts]}
    shape = rng.random()
    if shape < 0.3:
        cut = len(leafs) - 1          # left nested
    elif shape < 0.55:
        cut = 1                        # right nested
    else:
        cut = rng.randint(1, len(leafs) - 1)
    return {"add": [rand_tree(rng, leafs[:cut], p_sum), rand_tree(rng, leafs[cut:], p_sum)]}


def all_trees(leafs):
    if len(leafs) == 1:
        return [leafs[0]]
    out = []
    for cut in range(1, len(leafs)):
        for a in all_trees(leafs[:cut]):
            for b in all_trees(leafs[cut:]):
                out.append({"add": [a, b]})
    return out


# ---------------------------------------------------------------------------
# generator
# ---------------------------------------------------------------------------
def gen_ads(rng, n, nslots, pool_vals):
    ads = []
    for _ in range(n):
        fail = [v for v in pool_vals if rng.random() < 0.12]
        ads.append({"c": rng.randint(-20, 20), "w": [rng.randint(-9, 9) for _ in range(nslots)], "fail": fail})
    return ads


def gen_masks(rng, nproc):
    rows = []
    for _ in range(rng.choice([0, 0, 1, 2, 3, 5])):
        p = rng.choice([0.3, 0.5, 0.8])
        rows.append([rng.random() < p for _ in range(nproc)])
    return rows


def gen_ops(rng, n, neval, value):
    """history: optional change of cores, evaluations with schedules"""
    ops = []
    cores = 1
    if rng.random() < 0.85:
        cores = rng.choice([2, 2, 3, 4, 1])
        ops.append(["cores", cores])
    for _ in range(neval):
        if rng.random() < 0.12:
            cores = rng.choice([1, 2, 3, 4])
            ops.append(["cores", cores])
        nproc = min(n, cores) if cores > 1 else 0
        ops.append(["eval", value(), gen_masks(rng, nproc) if nproc else []])
    return ops


def eff_ops(c):
    """history as the model sees it: n_cores taken from the configuration by the constructor is an
    initial change of cores"""
    pre = [["cores", c["conf_cores"]]] if c.get("conf_cores") else []
    return pre + c["ops"]


def gen_shape_and_pids(rng):
    shape = [rng.randint(1, 3) for _ in range(rng.randint(1, 3))]
    while sum(shape) > 6:
        shape[rng.randrange(len(shape))] = 1
    pids = []
    for _ in range(sum(shape)):
        if pids and rng.random() < 0.3:
            pids.append(rng.choice(pids))
        else:
            pids.append(max(pids) + 1 if pids else 0)
    return shape, pids


def gen_cases(ctx):
    rng = ctx.rng
    thorough = ctx.tier == "thorough"
    cases = []
    # ---- struct: every bracketing of 2..4 leaves x every with_model pattern; random larger ones
    for n in (2, 3, 4) + ((5,) if thorough else ()):
        for pat in range(2 ** n):
            leafs = [{"j": j, "hm": bool(pat >> j & 1)} for j in range(n)]
            for t in all_trees(leafs):
                cases.append({"kind": "struct", "expr": t, "free": False})
        for t in all_trees([{"j": j} for j in range(n)]):
            cases.append({"kind": "struct", "expr": t, "free": True})
    for _ in range(80 if not thorough else 1500):
        n = rng.randint(3, 7)
        ids = list(range(n))
        rng.shuffle(ids)
        pm = rng.choice([0.0, 0.0, 0.25, 0.5])
        leafs = [{"j": j, "hm": rng.random() < pm} for j in ids]
        free = (not any(x["hm"] for x in leafs)) and rng.random() < 0.3
        cases.append({"kind": "struct", "expr": rand_tree(rng, leafs), "free": free})
    # ---- hist
    pool_vals = [-3, -2, -1, 0, 1, 2, 3, 7]
    for k in range(110 if not thorough else 2000):
        n = rng.choice([2, 2, 3, 3, 4, 5, 6])
        ids = list(range(n))
        if rng.random() < 0.5:
            rng.shuffle(ids)
        ads = gen_ads(rng, n, 1, pool_vals)
        if rng.random() < 0.25:
            for a in ads:
                a["fail"] = []
        # mostly well-bracketed (left nested / sums) so that the order finding does not mask the rest
        if rng.random() < 0.7:
            expr = {"sum": [{"j": j} for j in ids]} if rng.random() < 0.5 else rand_tree(rng, [{"j": j} for j in ids], 0.0)
        else:
            expr = rand_tree(rng, [{"j": j} for j in ids])
        ops = gen_ops(rng, n, rng.randint(3, 10), lambda: rng.choice(pool_vals))
        case = {"kind": "hist", "ads": ads, "expr": expr, "ops": ops}
        if k % 6 == 5:
            # n_cores from general.yaml (read by the constructor) instead of the setter
            conf_cores = rng.choice([2, 3])
            while ops and ops[0][0] == "cores":
                ops.pop(0)
            nproc = min(n, conf_cores)
            for op in ops:
                if op[0] == "cores":
                    break
                op[2] = gen_masks(rng, nproc)
            case["conf_cores"] = conf_cores
        cases.append(case)
    # ---- idx: free parameters
    for k in range(50 if not thorough else 800):
        shape, pids = gen_shape_and_pids(rng)
        n = rng.randint(2, 4)
        ids = list(range(n))
        rng.shuffle(ids)
        items = []
        for _ in range(rng.randint(1, 3)):
            r = rng.random()
            if r < 0.55:
                items.append({"prior": rng.choice(pids)})
            elif r < 0.85:
                items.append({"component": rng.randrange(len(shape))})
            else:
                items.append({"prior": 50 + rng.randint(0, 3)})      # a prior the model does not contain
        vals_pool = [-3, -2, -1, 0, 1, 2, 3, 7]
        ads = gen_ads(rng, n, len(pids), vals_pool if rng.random() < 0.4 else [])
        expr = rand_tree(rng, [{"j": j} for j in ids])
        nvals = len(pids) * n + 2
        ops = gen_ops(rng, n, rng.randint(2, 5), lambda: [rng.choice(vals_pool) for _ in range(nvals)])
        cases.append({"kind": "idx", "ads": ads, "expr": expr, "shape": shape, "default": pids, "own": {},
                      "free": items, "ops": ops})
    # ---- idx: per-analysis models
    for k in range(40 if not thorough else 700):
        shape, pids = gen_shape_and_pids(rng)
        n = rng.randint(2, 4)
        ids = list(range(n))
        rng.shuffle(ids)
        hm = [rng.random() < 0.6 for _ in ids]
        if not any(hm):
            hm[rng.randrange(n)] = True
        own = {}
        fresh = 20
        for j, h in zip(ids, hm):
            if not h:
                continue
            row = []
            for s, p in enumerate(pids):
                r = rng.random()
                if r < 0.4:
                    row.append(p)                               # shared with the default model
                elif r < 0.55 and own:
                    row.append(rng.choice(rng.choice(list(own.values()))))   # shared with another own model
                else:
                    row.append(fresh)
                    fresh += 1
            own[str(j)] = row
        vals_pool = [-3, -2, -1, 0, 1, 2, 3, 7]
        ads = gen_ads(rng, n, len(pids), vals_pool if rng.random() < 0.4 else [])
        expr = rand_tree(rng, [{"j": j, "hm": h} for j, h in zip(ids, hm)])
        nvals = len(pids) * n + 2
        ops = gen_ops(rng, n, rng.randint(2, 5), lambda: [rng.choice(vals_pool) for _ in range(nvals)])
        cases.append({"kind": "idx", "ads": ads, "expr": expr, "shape": shape, "default": pids, "own": own,
                      "free": None, "ops": ops})
    # ---- folders
    seen = set()
    for _ in range(14 if not thorough else 40):
        n = rng.randint(2, 6)
        ids = list(range(n))
        rng.shuffle(ids)
        cores = rng.choice([1, 2, 2, 3, 4])
        if (n, cores) in seen and not thorough:
            continue
        seen.add((n, cores))
        cases.append({"kind": "folders", "ids": ids, "cores": cores})
    # ---- real fits
    for _ in range(5 if not thorough else 20):
        shape, pids = gen_shape_and_pids(rng)
        n = rng.randint(2, 4)
        ids = list(range(n))
        rng.shuffle(ids)
        free = sorted(set(rng.sample(pids, rng.randint(1, min(2, len(pids))))))
        ads = gen_ads(rng, n, len(pids), [])
        cases.append({"kind": "fit", "ads": ads, "ids": ids, "shape": shape, "default": pids, "free": free})
    return cases


# ---------------------------------------------------------------------------
# reference semantics of the harness analyses and expected values (oracle side)
# ---------------------------------------------------------------------------
def lik(ad, s):
    if s and s[0] in ad["fail"]:
        return None
    return ad["c"] + sum(a * b for a, b in zip(ad["w"], s))


def expected_struct(c):
    t = desugar(c["expr"])
    lv = leaves(t)
    if t[0] == "L":
        return {"kind": "single", "items": [["plain", lv[0][0], lv[0][1]]]}
    if c.get("free"):
        kind = "free"
    elif any(h for _, h in lv):
        kind = "model"
    else:
        kind = "plain"
    if kind == "plain":
        return {"kind": kind, "items": [["plain", j, h] for j, h in lv]}
    return {"kind": kind, "items": [["idx", j, h, i] for i, (j, h) in enumerate(lv)]}


def effective_free(c):
    """prior ids the free-parameter items expand to (harness's own description of the model)"""
    out = []
    pos = 0
    comp_pids = []
    for n in c["shape"]:
        comp_pids.append(c["default"][pos:pos + n])
        pos += n
    for it in c["free"] or []:
        if "prior" in it:
            out.append(it["prior"])
        else:
            out += comp_pids[it["component"]]
    return out


def expected_keys(c):
    """identity of the prior at (analysis position, slot) as the property declares it"""
    lv = leaves(desugar(c["expr"]))
    rows = []
    if c.get("free") is not None:
        fs = set(effective_free(c))
        for i, _ in enumerate(lv):
            rows.append([("fresh", i, p) if p in fs else ("orig", p) for p in c["default"]])
    else:
        for j, h in lv:
            src = c["own"][str(j)] if h else c["default"]
            rows.append([("orig", p) for p in src])
    return rows


def canon(rows):
    num = {}
    out = []
    for r in rows:
        row = []
        for k in r:
            if k not in num:
                num[k] = len(num)
            row.append(num[k])
        out.append(row)
    return out, len(num)


def val_of(a):
    """answer -> int | 'exc' | None (not an integer: never expected)"""
    if a[0] == "exc":
        return "exc"
    if a[0] != "val":
        return None
    f = float.fromhex(a[1])
    return int(f) if f == int(f) else None


def oracle(c, r):
    """Direct statement of C15 on the implementation's outputs.  Returns a list of (message, labels)
    where labels are computed from the case (and the position in its history), never from the outcome."""
    out = []
    k = c["kind"]
    if k in ("struct", "hist", "idx"):
        t = desugar(c["expr"])
        tl = labels_of_tree(t)
        exp = expected_struct(c)
        got = r["struct"]
        if got != exp:
            got_ids = [it[1] for it in got["items"]]
            exp_ids = [it[1] for it in exp["items"]]
            if sorted(got_ids) == sorted(exp_ids) and got_ids != exp_ids:
                out.append(("analyses are %s, written order is %s" % (got_ids, exp_ids), tl & {L_ORDER}))
            got_shape = (got["kind"], [(it[0], it[3] if len(it) > 3 else None) for it in got["items"]])
            exp_shape = (exp["kind"], [(it[0], it[3] if len(it) > 3 else None) for it in exp["items"]])
            if got_shape != exp_shape or sorted(got_ids) != sorted(exp_ids):
                out.append(("combined analysis is %s, the expression asks for %s" % (got, exp), tl & {L_MIXED}))
        struct_ok = got == exp
    if k == "hist":
        lv = leaves(desugar(c["expr"]))
        n = len(lv)
        cores, tainted, e = 1, False, 0
        for op in eff_ops(c):
            if op[0] == "cores":
                cores, tainted = op[1], False
                continue
            x = op[1]
            vals = [lik(c["ads"][j], [x]) for j, _ in lv]
            expv = "exc" if any(v is None for v in vals) else sum(vals)
            gotv = val_of(r["answers"][e]) if e < len(r["answers"]) else None
            if gotv != expv:
                out.append(("evaluation %d on instance %r with n_cores=%d returned %r, the sum of the analyses is %r"
                            % (e, x, cores, gotv, expv), {L_STALE} if (cores > 1 and tainted) else set()))
            if cores > 1 and expv == "exc":
                tainted = True
            e += 1
        if len(r["answers"]) != e:
            out.append(("history has %d evaluations, %d answers" % (e, len(r["answers"])), set()))
        if any(q for q in r["residue"]):
            out.append(("results left on the pool's queues after the history: %s" % r["residue"],
                        {L_STALE} if (cores > 1 and tainted) else set()))
    if k == "idx" and struct_ok:
        lv = leaves(desugar(c["expr"]))
        n = len(lv)
        rows, count = canon(expected_keys(c))
        if r["classes"] != rows:
            out.append(("sharing of the fitted model is %s, declared %s" % (r["classes"], rows), set()))
        if r["count"] != count:
            out.append(("fitted model has %d parameters, declared %d" % (r["count"], count), set()))
        if c.get("free") is not None:
            fs = set(effective_free(c)) & set(c["default"])
            formula = len(fs) * n + len(set(c["default"]) - fs)
            if r["count"] != formula:
                out.append(("fitted model has %d parameters, |free|*n+|shared| = %d" % (r["count"], formula), set()))
        if r["classes"] == rows:
            cores, tainted, e = 1, False, 0
            for op in eff_ops(c):
                if op[0] == "cores":
                    cores, tainted = op[1], False
                    continue
                vals = op[1]
                ls = [lik(c["ads"][j], [vals[kk] for kk in rows[i]]) for i, (j, _) in enumerate(lv)]
                expv = "exc" if any(v is None for v in ls) else sum(ls)
                gotv = val_of(r["answers"][e]) if e < len(r["answers"]) else None
                if gotv != expv:
                    out.append(("evaluation %d with n_cores=%d returned %r, the sum over sub-instances is %r"
                                % (e, cores, gotv, expv), {L_STALE} if (cores > 1 and tainted) else set()))
                if cores > 1 and expv == "exc":
                    tainted = True
                e += 1
            if any(q for q in r["residue"]):
                out.append(("results left on the pool's queues after the history: %s" % r["residue"],
                            {L_STALE} if (cores > 1 and tainted) else set()))
    if k == "folders":
        exp = [[i, j] for i, j in enumerate(c["ids"])]
        if r["folders"] != exp:
            n = len(c["ids"])
            lab = {L_MAP} if (c["cores"] > 1 and n > min(n, c["cores"])) else set()
            out.append(("visualize wrote (folder, analysis) %s, expected %s" % (r["folders"], exp), lab))
    if k == "fit":
        exp = [[i, j] for i, j in enumerate(c["ids"])]
        if r["attr"] != exp or r["res"] != exp:
            out.append(("fit wrote attributes %s and results %s into folders, expected %s" % (r["attr"], r["res"], exp), set()))
        if r["children"] != [[j, i] for i, j in enumerate(c["ids"])]:
            out.append(("child results (analysis, model index) are %s" % r["children"], set()))
    return out


def case_labels(c):
    """all labels a case carries (for the evidence histogram)"""
    labs = set()
    if c["kind"] in ("struct", "hist", "idx"):
        labs |= labels_of_tree(desugar(c["expr"]))
    if c["kind"] in ("hist", "idx"):
        lv = leaves(desugar(c["expr"]))
        cores, tainted = 1, False
        for op in eff_ops(c):
            if op[0] == "cores":
                cores, tainted = op[1], False
            elif cores > 1:
                if tainted:
                    labs.add(L_STALE)
                # may raise?  (free/model kinds: only known with classes; approximate by fail lists)
                if c["kind"] == "hist":
                    if any(lik(c["ads"][j], [op[1]]) is None for j, _ in lv):
                        tainted = True
                elif any(c["ads"][j]["fail"] for j, _ in lv):
                    tainted = True
    if c["kind"] == "folders":
        n = len(c["ids"])
        if c["cores"] > 1 and n > min(n, c["cores"]):
            labs.add(L_MAP)
    return labs


def nontrivial(c):
    k = c["kind"]
    if k == "struct":
        return len(leaves(desugar(c["expr"]))) >= 3
    if k in ("hist", "idx"):
        cores, after_raise, steered = 1, False, False
        raised = False
        for op in eff_ops(c):
            if op[0] == "cores":
                cores, raised = op[1], False
            else:
                if cores > 1 and any(not all(row) for row in op[2]):
                    steered = True
                if cores > 1 and raised:
                    after_raise = True
                if k == "hist" and any(op[1] in a["fail"] for a in c["ads"]):
                    raised = True
        if k == "idx":
            return steered or bool(c["own"]) or bool(set(effective_free(c)) & set(c["default"]))
        return steered or after_raise
    if k == "folders":
        return c["cores"] > 1
    return True


# ---------------------------------------------------------------------------
# Coq printing
# ---------------------------------------------------------------------------
def coq_aval(d):
    def item(it):
        if it[0] == "idx":
            return "IIdx %s %s %s" % (cnat(it[1]), cbool(it[2]), cnat(it[3]))
        return "IPlain %s %s" % (cnat(it[1]), cbool(it[2]))
    if d["kind"] == "single":
        return "(VSingle %s %s)" % (cnat(d["items"][0][1]), cbool(d["items"][0][2]))
    kind = {"plain": "KPlain", "model": "KModel", "free": "KFree"}.get(d["kind"])
    if kind is None:
        return "(VComb KPlain [])"     # a class the model never produces
    return "(VComb %s %s)" % (kind, clist([item(it) for it in d["items"]]))


def coq_res(a):
    v = val_of(a)
    if v == "exc":
        return "RExc"
    if v is None:
        return "(RVal (-987654321)%Z)"
    return "(RVal %s)" % cZ(v)


def coq_masks(m):
    return clist([clist([cbool(b) for b in row]) for row in m])


def coq_ads(ads):
    return clist(["(mkA %s %s %s)" % (cZ(a["c"]), clist([cZ(x) for x in a["w"]]), clist([cZ(x) for x in a["fail"]]))
                  for a in ads])


def coq_case(c, r):
    k = c["kind"]
    if k == "struct":
        return "CStruct %s %s %s" % (coq_expr(desugar(c["expr"])), cbool(c.get("free", False)), coq_aval(r["struct"]))
    answers = lambda: clist(["(Some %s)" % coq_res(a) for a in r["answers"]])
    residue = lambda: clist([clist([coq_res(a) for a in q]) for q in r["residue"]])
    if k == "hist":
        ops = []
        for op in eff_ops(c):
            if op[0] == "cores":
                ops.append("OCores %s" % cnat(op[1]))
            else:
                ops.append("OEval ([%s], []) %s" % (cZ(op[1]), coq_masks(op[2])))
        return "CHist %s %s %s %s %s %s" % (coq_ads(c["ads"]), coq_expr(desugar(c["expr"])), clist(ops),
                                            coq_aval(r["struct"]), answers(), residue())
    if k == "idx":
        n_ads = max(int(j) for j in [x for x, _ in leaves(desugar(c["expr"]))]) + 1
        own = [c["own"].get(str(j), []) for j in range(n_ads)]
        free = None if c["free"] is None else effective_free(c)
        ops = []
        for op in eff_ops(c):
            if op[0] == "cores":
                ops.append("ICores %s" % cnat(op[1]))
            else:
                ops.append("IEval %s %s" % (clist([cZ(x) for x in op[1]]), coq_masks(op[2])))
        return "CIdx %s %s %s %s %s %s %s %s %s %s %s" % (
            coq_ads(c["ads"]), coq_expr(desugar(c["expr"])), clist([cnat(p) for p in c["default"]]),
            clist([clist([cnat(p) for p in row]) for row in own]),
            copt(free, lambda f: clist([cnat(p) for p in f])),
            coq_aval(r["struct"]), clist([clist([cnat(x) for x in row]) for row in r["classes"]]), cnat(r["count"]),
            clist(ops), answers(), residue())
    pairs = lambda l: clist(["(%s, %s)" % (cnat(max(a, 0)) if a >= 0 else "4999%nat", cnat(b) if b >= 0 else "4999%nat")
                             for a, b in l])
    if k == "folders":
        return "CFolders %s %s %s" % (clist([cnat(j) for j in c["ids"]]), cnat(c["cores"]), pairs(r["folders"]))
    if k == "fit":
        return "CFit %s %s %s %s" % (clist([cnat(j) for j in c["ids"]]), pairs(r["attr"]), pairs(r["res"]), pairs(r["children"]))
    return None


# ---------------------------------------------------------------------------
# run
# ---------------------------------------------------------------------------
def run_impl_chunks(cases, workers):
    idx_cases = []
    for i, c in enumerate(cases):
        d = dict(c)
        d["idx"] = i
        idx_cases.append(d)
    # heavy kinds spread evenly
    order = sorted(range(len(cases)), key=lambda i: (cases[i]["kind"] == "struct", i))
    chunks = [[] for _ in range(workers)]
    for pos, i in enumerate(order):
        chunks[pos % workers].append(i)
    chunks = [ch for ch in chunks if ch]
    outs = common.run_impl_parallel("c15_impl", [{"cases": [idx_cases[i] for i in ch]} for ch in chunks],
                                    timeout=1500, workers=workers)
    results = [None] * len(cases)
    err = None
    for ch, o in zip(chunks, outs):
        if "__error__" in o:
            err = o["__error__"]
            continue
        for i, r in zip(ch, o["results"]):
            results[i] = r
    return results, err


def run(ctx):
    ctx.rule = ("cases are abstract inputs of five kinds (struct: an expression over analyses; hist: a sum + a history of "
                "evaluations/raising evaluations/changes of n_cores with a scripted pool schedule per evaluation; idx: free "
                "parameters or per-analysis models + histories on instances of the fitted model; folders; real fits). "
                "Non-trivial: struct with >= 3 analyses; hist with a pool whose scripted schedule withholds a result at least "
                "once or that evaluates after a raising evaluation; idx with an effective free parameter, an own model or a "
                "withholding schedule; folders through the pool; every real fit. distinct = distinct abstract input")
    ctx.trusted = [
        "Coq 8.16.1 kernel incl. vm_compute",
        "correspondence harness c15.py / impl/c15_impl.py: harness analyses (affine, integer valued => float sums exact), "
        "expression builder, desugaring of sum([...]) into a left fold of +, model builder from prior-id lists, "
        "canonical numbering of prior identities (by Prior.id)",
        "schedule steering: the main-process side of each AnalysisProcess.queue is wrapped by a proxy whose empty() follows the "
        "scripted availability mask (not available => True; available => waits for the real item, then False); workers, "
        "queues, pickling, __call__, results, map are the real code",
        "modelled not verified: multiprocessing.Queue is FIFO per queue; AnalysisProcess._run handles its instance queue "
        "sequentially; OS scheduling and feeder-thread timing are represented by the availability masks (universally "
        "quantified in the theorems, sampled on the implementation side)",
    ]
    ctx.assumptions = [
        "likelihood values are integers in the model (Z): float rounding of a sum taken in a different order is not covered",
        "which of the four recorded defects the model contains is read from known_findings/C15.json (status known => present); "
        "the repaired behaviour is proved for cfg_fixed",
        "with_free_parameters is applied to the finished sum only; FreeParameterAnalysis + x raises TypeError in the code "
        "(missing free_parameters) and is outside the model",
    ]
    cfg = model_cfg(ctx)
    ctx.notes["model_cfg"] = cfg
    built = ctx.build()
    cases = gen_cases(ctx)
    corpus_dir = os.path.join(common.VERIF, "corpus", "C15")
    if os.path.isdir(corpus_dir):
        for f in sorted(os.listdir(corpus_dir)):
            if f.endswith(".json"):
                cases.insert(0, json.load(open(os.path.join(corpus_dir, f)))["case"])
    if ctx.replay:
        rp = json.load(open(ctx.replay))
        if rp.get("case"):
            cases = [rp["case"]]
    results, err = run_impl_chunks(cases, 1 if len(cases) < 4 else 8)
    if err:
        ctx.obligation("impl-driver", "harness", False, err[-800:])
        return
    coq_cases, coq_idx = [], []
    oracle_msgs = {}
    for i, (c, r) in enumerate(zip(cases, results)):
        key = {k: v for k, v in c.items() if k != "idx"}
        ctx.count_case(key, nontrivial(c), c["kind"])
        for lab in sorted(case_labels(c)):
            ctx.hist("label", lab)
        if c["kind"] in ("hist", "idx"):
            ctx.hist("n_analyses", len(leaves(desugar(c["expr"]))))
            ctx.hist("evaluations", sum(1 for op in c["ops"] if op[0] == "eval"))
            ctx.hist("cores_from_config", bool(c.get("conf_cores")))
            for op in eff_ops(c):
                if op[0] == "cores":
                    ctx.hist("cores", op[1])
                else:
                    ctx.hist("scripted_passes", len(op[2]))
        ctx.oracle["cases"] += 1
        if r is None or "exc" in r:
            ctx.oracle["failures"] += 1
            ctx.failure("oracle", "implementation raised %s: %s" % ((r or {}).get("exc"), (r or {}).get("msg")), c, impl=r)
            continue
        msgs = oracle(c, r["ok"])
        oracle_msgs[i] = msgs
        for msg, labs in msgs:
            ctx.oracle["failures"] += 1
            ctx.failure("oracle", msg, c, classes=sorted(labs), impl=r["ok"])
        cc = coq_case(c, r["ok"])
        if cc:
            coq_cases.append(cc)
            coq_idx.append(i)
        if i % 41 == 0:
            ctx.sample({"case": key if len(str(key)) < 500 else {"kind": c["kind"], "expr": c.get("expr")}}, limit=8)
    if os.path.exists(os.path.join(common.COQ, "C15", "Model.vo")):
        hdr = ctx.header(["Model"]) + "\nDefinition the_cfg := mkCfg %s %s %s %s.\n" % (
            cbool(cfg["fix_order"]), cbool(cfg["fix_new"]), cbool(cfg["fix_drain"]), cbool(cfg["fix_map"]))
        bad, log = ctx.eval_cases(hdr, "case", "check_case the_cfg", coq_cases, shard=80)
        if bad:
            for b in bad[:5]:
                i = coq_idx[b]
                ctx.failure("correspondence", "model and implementation disagree on a %s case" % cases[i]["kind"],
                            cases[i], impl=results[i].get("ok"), broken={"kind": "correspondence", "name": "C15.check_case"},
                            found_input=bool(oracle_msgs.get(i)))
    else:
        ctx.obligation("correspondence:cases", "correspondence", False, "Model.vo not built")


MANIFEST = {
    "text": "Coq 8.16 theorems over a model of Analysis.__add__/CombinedAnalysis (+ algebra for every bracketing), the serial sum, "
            "the AnalysisPool as a transition system (per-process FIFO queues, availability masks = every schedule, histories with "
            "raising evaluations and changes of n_cores), FreeParameterAnalysis/CombinedModelAnalysis.modify_model (sharing "
            "characterisation and |free|*n+|shared| count), child results and folders; the model is parametrised by the four "
            "recorded defects (full statements proved for the repaired code, refuted with witnesses and proved under explicit guards "
            "for the pinned code); vm_compute correspondence with the running code under externally steered pool schedules and a "
            "direct property oracle on every generated case",
    "note": "Trusted: Coq kernel + vm_compute, the correspondence harness incl. the queue proxies that steer pool schedules. "
            "Likelihoods are integers in the model (float summation order not covered); OS scheduling is represented by "
            "availability masks; FreeParameterAnalysis + x (TypeError in the code) is outside the model.",
    "technique": "machine-checked proof in Coq (transition-system model, induction over histories and schedules) + vm_compute "
                 "correspondence under steered schedules",
}
