"""C09 -- samples survive persistence and reload identically (DESIGN.md section 5, C09)."""
import json
import math
import os
import struct

from . import common
from .common import cfloat, cnat, cbool, clist, cstr

# constructor signatures of harness/impl/c09_classes.py: (argument, tuple arity or 0)
SIGS = {
    "F1": [("a", 0)],
    "F2": [("a", 0), ("b", 0)],
    "F3": [("a", 0), ("b", 0), ("c", 0)],
    "T1": [("pos", 2), ("s", 0)],
    "T2": [("pos", 2), ("vel", 3)],
    "TF": [("s", 0), ("pos", 2)],
    "RW": [("weight", 0), ("centre", 0)],
    "RL": [("log_likelihood", 0), ("x", 0)],
}
NOT_KWARGS = {"self", "log_likelihood", "log_prior", "weight", "kwargs", "log_posterior"}
TEXT_ROUTES = ("csv", "agg", "summary", "summary_agg", "fit")


def unhex(s):
    return float(s) if s in ("nan", "inf", "-inf") else float.fromhex(s)


def hx(x):
    x = float(x)
    if math.isnan(x):
        return "nan"
    if math.isinf(x):
        return "inf" if x > 0 else "-inf"
    return x.hex()


# ---------------------------------------------------------------------------
# generator
# ---------------------------------------------------------------------------
class Gen:
    def __init__(self, rng, thorough):
        self.rng = rng
        self.thorough = thorough
        self.slots = []

    def slot(self, p_const):
        if self.rng.random() < p_const:
            return {"k": "const", "v": self.rng.choice([0.5, 1.5, -2.0, 3.25])}
        node = {"k": "prior", "pid": None}
        self.slots.append(node)
        return node

    def model(self, cls=None):
        rng = self.rng
        cls = cls or rng.choice(["F1", "F2", "F2", "F3", "T1", "T1", "T2", "TF"])
        ms = []
        for name, arity in SIGS[cls]:
            if arity == 0:
                ms.append([name, self.slot(0.15)])
            else:
                ms.append([name, {"k": "tuple", "ms": [["%s_%d" % (name, i), self.slot(0.2)] for i in range(arity)]}])
        return {"k": "model", "cls": cls, "ms": ms}

    def coll(self, depth, p_direct):
        rng = self.rng
        n = rng.choice([1, 2, 2, 3, 3, 4])
        style = "list" if rng.random() < 0.25 else "dict"
        if style == "list" and depth == 0 and rng.random() < 0.15:
            n = rng.choice([11, 12])          # keys "10", "11": numeric vs string order of collection items
        names = rng.sample(["g", "h", "lens", "src", "x", "y", "m_1", "bulge", "a", "weight_map"], min(n, 10))
        ms = []
        for i in range(n):
            r = rng.random()
            if r < p_direct:
                child = self.slot(0.1)
            elif r < p_direct + 0.2 and depth < 2:
                child = self.coll(depth + 1, p_direct)
            else:
                child = self.model(rng.choice(["RW", "RL"]) if rng.random() < 0.05 else None)
            ms.append([str(i) if style == "list" else names[i], child])
        return {"k": "coll", "style": style, "ms": ms}

    def tree(self):
        rng = self.rng
        while True:
            self.slots = []
            r = rng.random()
            if r < 0.18:
                t = self.model(rng.choice(["F2", "F3", "F2", "T2", "T2", "F1", "TF", "T1"]))
            elif r < 0.22:
                t = self.model(rng.choice(["RW", "RL"]))
            elif r < 0.24:
                # a collection holding a parameter directly under a reserved column name
                t = self.coll(0, 0.0)
                if t["style"] == "dict":
                    t["ms"].append([rng.choice(["weight", "log_prior", "kwargs"]), self.slot(0.0)])
            else:
                t = self.coll(0, rng.choice([0.0, 0.0, 0.0, 0.0, 0.15, 0.3]))
            if self.slots:
                break
        # sharing and creation order
        pid = 0
        for s in self.slots:
            if pid > 0 and rng.random() < 0.12:
                s["pid"] = rng.randrange(pid)
            else:
                s["pid"] = pid
                pid += 1
        if rng.random() < 0.35:
            perm = list(range(pid))
            rng.shuffle(perm)
            for s in self.slots:
                s["pid"] = perm[s["pid"]]
        return t, pid


SPECIAL = [5e-324, 2.2250738585072014e-308, 1.7976931348623157e308, -1.7976931348623157e308, -0.0, 0.0,
           0.1 + 0.2, 1e22, 1e23, 1 / 3, 2 / 3, 1e-7, 123456789.12345679, 9007199254740993.0, 1e16, 1e-5,
           0.1, 1.0, -1.0, 4.35, 2.675, 1e300, 1e-300, 6.02214076e23, 299792458.0]


def rand_float(rng, allow_inf=False):
    r = rng.random()
    if r < 0.25:
        return round(rng.uniform(-10, 10), rng.randint(0, 6))
    if r < 0.55:
        return rng.uniform(-1, 1) * 10 ** rng.randint(-12, 12)
    if r < 0.75:
        return rng.choice(SPECIAL)
    if r < 0.78 and allow_inf:
        return rng.choice([float("inf"), float("-inf")])
    while True:
        x = struct.unpack("<d", struct.pack("<Q", rng.getrandbits(64)))[0]
        if not (math.isnan(x) or math.isinf(x)):
            return x


def gen_rows(rng, npri, thorough):
    n = rng.choice([1, 1, 2, 3, 3, 4, 5, 6, 8, 8, 13, 30] + ([60, 120] if thorough else []))
    mode = rng.random()
    zeros = rng.random() < 0.15          # parameter values equal to +-0.0 only in some cases
    rows = []
    for i in range(n):
        p = [rand_float(rng, allow_inf=True) for _ in range(npri)]
        while not zeros and any(x == 0.0 for x in p):
            p = [rand_float(rng, allow_inf=True) if x == 0.0 else x for x in p]
        r = rng.random()
        if r < 0.7:
            ll = -abs(rng.gauss(0, 50))
        elif r < 0.8:
            ll = rng.choice([-1e99, float("-inf"), -1.7976931348623157e308, 0.0, -0.0, 5e-324])
        elif r < 0.9 and rows:
            ll = unhex(rows[-1]["ll"])      # ties: first maximum must stay first
        else:
            ll = rand_float(rng)
        lp = rng.choice([0.0, rng.uniform(-5, 5), rand_float(rng) if abs(ll) < 1e300 else 0.0])
        if mode < 0.6:
            w = rng.random()
        elif mode < 0.8:
            w = 1.0 if i == 0 else 0.0        # unconverged: one sample holds all the weight
        else:
            w = abs(rand_float(rng))
        rows.append({"p": [hx(x) for x in p], "ll": hx(ll), "lp": hx(lp), "w": hx(w)})
    if n == 1:
        rows[0]["w"] = hx(1.0)          # a one-sample result always carries the whole weight
    if mode < 0.6:
        tot = sum(unhex(r["w"]) for r in rows) or 1.0
        for r in rows:
            r["w"] = hx(unhex(r["w"]) / tot)
    return rows


def py_walk(node, pre=()):
    k = node["k"]
    if k == "prior":
        return [(pre, node["pid"])]
    if k == "const":
        return []
    out = []
    for name, child in node["ms"]:
        out += py_walk(child, pre + (name,))
    return out


def py_unique_paths(tree):
    ws = sorted(py_walk(tree), key=lambda e: e[1])
    d = {}
    for path, pid in ws:
        d[pid] = path
    return [d[pid] for pid in sorted(d)]


def has_kind(node, kind):
    if node["k"] == kind:
        return True
    return any(has_kind(c, kind) for _, c in node.get("ms", []))


def depth_of(node):
    if node["k"] in ("prior", "const"):
        return 0
    return 1 + max([depth_of(c) for _, c in node["ms"]] or [0])


def shape_labels(c):
    """labels computed from the abstract case only"""
    if "tree" not in c:
        return []
    u = py_unique_paths(c["tree"])
    lens = {len(p) for p in u}
    labels = []
    if 1 in lens and any(n >= 2 for n in lens):
        labels.append("mixed-depth")
    elif lens == {1}:
        labels.append("flat")
    else:
        labels.append("nested")
    if any(len(p) == 1 and p[0] in NOT_KWARGS for p in u):
        labels.append("reserved-name")
    ws = py_walk(c["tree"])
    if len(ws) > len({pid for _, pid in ws}):
        labels.append("shared")
    if has_kind(c["tree"], "tuple"):
        labels.append("tuple")
    first = []
    for _, pid in ws:
        if pid not in first:
            first.append(pid)
    if first != sorted(first):
        labels.append("creation-order-differs")
    if any(unhex(x) == 0.0 for row in c.get("rows", []) for x in row["p"]):
        labels.append("zero-value")
    return labels


def reserved_names(c):
    if "tree" not in c:
        return []
    return [p[0] for p in py_unique_paths(c["tree"]) if len(p) == 1 and p[0] in NOT_KWARGS]


def failure_classes(c, route, part, msg):
    """known-finding classes, each as narrow as the recorded defect:
    part = what failed ("exc:<Name>" load/lookup exception, "values", "samples", "vectors", ...).
    Fixed findings (mixed-depth-keys 9e9d176, summary-zero-value-dropped 04fca50, reserved-column-name b5615dc,
    db-resave-after-commit d19e038) have no class any more: their shapes are ordinary cases and their corpus cases
    are regression:<signature> obligations."""
    labels = shape_labels(c)
    out = []
    # positional error vectors read against a model re-created from model.json: only the vectors
    if "creation-order-differs" in labels and route in ("summary_agg", "scrape_summary") and part == "vectors":
        out.append("recreated-order:summary_agg")
    return out


# corpus file (minimised case of a former finding) -> signature of the finding it guards
REGRESSIONS = {
    "C09-mixed-depth-keys.json": "mixed-depth-keys",
    "C09-summary-zero-value.json": "summary-zero-value-dropped",
    "C09-reserved-column-name.json": "reserved-column-name",
    "C09-db-resave-after-commit.json": "db-resave-after-commit",
}


def gen_cases(ctx):
    rng = ctx.rng
    thorough = ctx.tier == "thorough"
    g = Gen(rng, thorough)
    cases = []
    n_samples = 110 if not thorough else 700
    for _ in range(n_samples):
        tree, npri = g.tree()
        c = {"kind": "samples", "tree": tree, "npri": npri,
             "kinds": [rng.choice("ugl") for _ in range(rng.randint(1, 3))],
             "rows": gen_rows(rng, npri, thorough)}
        if rng.random() < 0.3:
            c["cls"] = "nest"
            c["logz"] = hx(rand_float(rng))
        r = rng.random()
        if r < 0.25:
            c["numpy"] = "scalar"
        elif r < 0.4:
            c["numpy"] = "array"
        if rng.random() < 0.1:
            # the best row carries an exact zero (the only place where a dropped zero shows in the summary)
            k = first_argmax([unhex(x["ll"]) for x in c["rows"]])
            c["rows"][k]["p"][rng.randrange(npri)] = hx(rng.choice([0.0, -0.0]))
        cases.append(c)
    for _ in range(10 if not thorough else 50):
        tree, npri = g.tree()
        rows = gen_rows(rng, npri, thorough)
        while len(rows) < 2:
            rows = gen_rows(rng, npri, thorough)
        first = rng.randint(1, len(rows) - 1)
        updates = [first, len(rows)]
        if len(rows) - first >= 2 and rng.random() < 0.4:
            updates = [first, rng.randint(first + 1, len(rows) - 1), len(rows)]
        # a fit updates without committing; a resumed / re-scraped fit has commits in between
        commits = [rng.random() < 0.5 for _ in updates[1:]] if rng.random() < 0.6 else [False] * (len(updates) - 1)
        cases.append({"kind": "dbseq", "tree": tree, "npri": npri, "rows": rows, "first": first,
                      "updates": updates, "commits": commits, "new_paths": rng.random() < 0.5})
    names = ["samples_summary", "samples_info", "info", "search", "model"]
    for _ in range(12 if not thorough else 80):
        ops = []
        for _ in range(rng.randint(2, 9)):
            r = rng.random()
            if r < 0.65:
                ops.append({"op": "set", "name": rng.choice(names[:rng.randint(1, 4)]), "tok": rng.randint(0, 999)})
            else:
                ops.append({"op": rng.choice(["commit", "expire", "requery"])})
        cases.append({"kind": "jsonhist", "ops": ops, "names": names})
    for _ in range(6 if not thorough else 36):
        tree, npri = g.tree()
        cases.append({"kind": "fit", "tree": tree, "npri": npri, "kinds": [rng.choice("ug")],
                      "rng": rng.getrandbits(31), "draws": rng.randint(2, 6), "targets": [hx(rng.uniform(0, 1)) for _ in range(12)],
                      "csv": rng.random() < 0.75})
    return cases


# ---------------------------------------------------------------------------
# property oracle (on the implementation's outputs only)
# ---------------------------------------------------------------------------
def ok(v, name):
    x = v.get(name)
    return x["ok"] if isinstance(x, dict) and "ok" in x else None


def exc_of(v, name):
    x = v.get(name)
    if isinstance(x, dict) and "exc" in x:
        return "%s (%s)" % (x["exc"], x.get("msg", "")[:120])
    return None


def by_col(v, name):
    cols, vals = ok(v, "cols"), ok(v, name)
    if cols is None or vals is None:
        return None
    return dict(zip(cols, [json.dumps(x) for x in vals]))


def rows_by_col(v):
    cols, pl = ok(v, "cols"), ok(v, "pl")
    if cols is None or pl is None:
        return None
    return [dict(zip(cols, row)) for row in pl]


def exc_part(v, name):
    x = v.get(name)
    return "exc:%s" % x["exc"] if isinstance(x, dict) and "exc" in x else None


def compare_view(orig, got, what, stats=True):
    """every observable of the loaded samples equals the one of the samples that were persisted.
    Returns None or (part, message)."""
    if "load" in got:
        return exc_part(got, "load"), "%s: loading raised %s" % (what, exc_of(got, "load"))
    for name in ("samples", "pl", "ll", "lp", "w", "best", "inst", "info") + (("median", "v1", "e1", "e3", "v3") if stats else ()):
        e = exc_of(got, name)
        if e and not exc_of(orig, name):
            return exc_part(got, name), "%s: %s raised %s" % (what, name, e)
    for name in ("ll", "lp", "w"):
        if ok(got, name) != ok(orig, name):
            return "values", "%s: %s differ: %s vs %s" % (what, name, ok(got, name), ok(orig, name))
    if rows_by_col(got) != rows_by_col(orig):
        return "values", "%s: parameter value per path differs: %s vs %s" % (what, rows_by_col(got), rows_by_col(orig))
    if by_col(got, "best") != by_col(orig, "best"):
        return "values", "%s: best-fit vector differs" % what
    a, b = ok(got, "inst"), ok(orig, "inst")
    if (a is None) != (b is None) or (a is not None and dict(map(tuple, a)) != dict(map(tuple, b))):
        return "values", "%s: best-fit instance differs: %s vs %s" % (what, a, b)
    if stats:
        for name in ("median", "v1", "e1", "e3", "v3"):
            if by_col(got, name) != by_col(orig, name):
                return "values", "%s: %s differ: %s vs %s" % (what, name, by_col(got, name), by_col(orig, name))
    gi, oi = ok(got, "info"), ok(orig, "info")
    if gi != oi:
        return "info", "%s: samples_info differs: %s vs %s" % (what, gi, oi)
    if got.get("cls") != orig.get("cls"):
        return "info", "%s: class %s vs %s" % (what, got.get("cls"), orig.get("cls"))
    return None


def compare_summary(orig, got, what):
    """Returns a list of (part, message): part "samples" = the two persisted samples, their vectors, instance and
    evidence; part "vectors" = the positional error / value vectors."""
    if "load" in got:
        return [(exc_part(got, "load"), "%s: loading raised %s" % (what, exc_of(got, "load")))]
    out = []

    def samples_part():
        for name in ("max", "vmax", "inst", "med", "vmed", "logz"):
            e = exc_of(got, name)
            if e and not exc_of(orig, name):
                return exc_part(got, name), "%s: %s raised %s" % (what, name, e)
        for name in ("max", "med"):
            a, b = ok(got, name), ok(orig, name)
            if (a is None) != (b is None):
                return "samples", "%s: %s sample missing" % (what, name)
            if a is not None and (a["ll"], a["lp"], a["w"]) != (b["ll"], b["lp"], b["w"]):
                return "samples", "%s: %s sample ll/lp/weight differ" % (what, name)
            if a is not None and sorted((json.dumps(k), v) for k, v in a["kw"] if v is not None) != \
                    sorted((json.dumps(k), v) for k, v in b["kw"]):
                # keys are paths in both (tuple keys); values bit-exact
                ka = {".".join(k.get("t", [k.get("s")])): v for k, v in a["kw"]}
                kb = {".".join(k.get("t", [k.get("s")])): v for k, v in b["kw"]}
                if ka != kb:
                    return "samples", "%s: %s sample values differ: %s vs %s" % (what, name, ka, kb)
        for name in ("vmax", "vmed"):
            if by_col(got, name) != by_col(orig, name):
                return "samples", "%s: %s differ: %s vs %s" % (what, name, by_col(got, name), by_col(orig, name))
        a, b = ok(got, "inst"), ok(orig, "inst")
        if (a is None) != (b is None) or (a is not None and dict(map(tuple, a)) != dict(map(tuple, b))):
            return "samples", "%s: best-fit instance differs" % what
        if ok(got, "logz") != ok(orig, "logz"):
            return "samples", "%s: log evidence differs" % what
        return None

    def vectors_part():
        for name in ("e1", "e3", "v1", "v3"):
            e = exc_of(got, name)
            if e and not exc_of(orig, name):
                return exc_part(got, name), "%s: %s raised %s" % (what, name, e)
        for name in ("e1", "e3", "v1", "v3"):
            if by_col(got, name) != by_col(orig, name):
                return "vectors", "%s: %s differ: %s vs %s" % (what, name, by_col(got, name), by_col(orig, name))
        return None

    for f in (samples_part, vectors_part):
        m = f()
        if m:
            out.append(m)
    return out


def first_argmax(xs):
    best = 0
    for i, x in enumerate(xs):
        if x > xs[best]:
            best = i
    return best


def text_is(text, x):
    """the decimal text denotes a number that rounds to the binary64 x (exact rational arithmetic, no float parser)"""
    from decimal import Decimal, InvalidOperation
    from fractions import Fraction
    if math.isinf(x) or math.isnan(x):
        return text.lower().lstrip("+") in (("inf", "infinity") if x > 0 else ("-inf", "-infinity")) if math.isinf(x) else text.lower() == "nan"
    try:
        q = Fraction(Decimal(text))
    except (InvalidOperation, ValueError):
        return False
    if x == 0.0:
        return q == 0 and text.strip().startswith("-") == (math.copysign(1.0, x) < 0)
    lo, hi = math.nextafter(x, -math.inf), math.nextafter(x, math.inf)
    flo = Fraction(lo) if not math.isinf(lo) else Fraction(x) - (Fraction(hi) - Fraction(x))
    fhi = Fraction(hi) if not math.isinf(hi) else Fraction(x) + (Fraction(x) - Fraction(lo))
    return (flo + Fraction(x)) / 2 <= q <= (Fraction(x) + fhi) / 2


def latent_expected(c, r):
    """latent variables of every row, from the case alone: first / last parameter in walk order, twice the first"""
    ws = r["shape"]["ws"]                     # sorted by creation rank; walk order = model.paths order = the same list
    first_pid, last_pid = ws[0][1], ws[-1][1]
    pids = sorted({pid for _, pid in ws})
    out = []
    for row in c["rows"]:
        vals = {pid: unhex(v) for pid, v in zip(pids, row["p"])}
        a, b = vals[first_pid], vals[last_pid]
        out.append({"ll": hx(unhex(row["ll"])), "lp": hx(unhex(row["lp"])), "w": hx(unhex(row["w"])),
                    "kw": {"first": hx(a), "lat.last": hx(b), "lat.twice": hx(a + a)}})
    return out


def latent_plain(samples):
    return [{"ll": s["ll"], "lp": s["lp"], "w": s["w"],
             "kw": {".".join(k.get("t", [k.get("s")])): v for k, v in s["kw"]}} for s in samples]


def oracle_samples(c, r):
    """returns list of (route, part, message)"""
    fails = []
    rows = c["rows"]
    exp_pl = [[hx(unhex(x)) for x in row["p"]] for row in rows]
    orig = r["orig"]
    # the in-memory samples are the rows of the case
    if ok(orig, "pl") != exp_pl or ok(orig, "ll") != [hx(unhex(x["ll"])) for x in rows] \
            or ok(orig, "w") != [hx(unhex(x["w"])) for x in rows] or ok(orig, "lp") != [hx(unhex(x["lp"])) for x in rows]:
        fails.append(("memory", "values", "Sample.from_lists does not hold the given rows: %s" % json.dumps(orig)[:300]))
        return fails
    u = r["shape"]["u"]

    def add(route, m):
        if m:
            fails.append((route, m[0], m[1]))
    # files
    if "exc" in r["csv_save"]:
        fails.append(("csv", exc_part(r, "csv_save"), "save_samples raised %s" % exc_of(r, "csv_save")))
    else:
        raw = ok(r, "raw")
        if raw is None:
            fails.append(("csv", "file", "samples.csv unreadable: %s" % exc_of(r, "raw")))
        else:
            exp_header = [".".join(p) for p in u] + ["log_likelihood", "log_prior", "log_posterior", "weight"]
            exp_vals = [[unhex(v) for v in row["p"]] + [unhex(row["ll"]), unhex(row["lp"]), unhex(row["ll"]) + unhex(row["lp"]),
                                                       unhex(row["w"])] for row in rows]
            exp_rows = [[hx(v) for v in vs] for vs in exp_vals]
            if raw["header"] != exp_header:
                fails.append(("csv", "file", "samples.csv header %s, expected %s" % (raw["header"], exp_header)))
            elif raw["rows"] != exp_rows:
                fails.append(("csv", "file", "samples.csv cells do not read back as the persisted floats"))
            elif len(raw["text"]) != len(exp_vals) or any(
                    len(tr) != len(vs) or not all(text_is(t, v) for t, v in zip(tr, vs)) for tr, vs in zip(raw["text"], exp_vals)):
                fails.append(("csv", "file", "samples.csv cell text does not denote the persisted binary64 values: %s" % raw["text"][:2]))
            elif not raw["widths_ok"]:
                fails.append(("csv", "file", "samples.csv columns are not aligned"))
        for route in ("csv", "agg", "resave", "scrape"):
            if route in r:
                add(route, compare_view(orig, r[route], route))
            elif route == "resave" and "load" in r.get("csv", {}):
                pass                    # nothing was loaded that could be saved again (reported on the csv route)
            elif route != "scrape" or c.get("scrape", True):
                fails.append((route, "missing", "%s: route produced nothing" % route))
    if "load" in r.get("summary_orig", {}):
        pass        # the fit itself could not summarise these samples (numpy quantile on degenerate weights): nothing persisted
    elif "exc" in r.get("summary_save", {}):
        fails.append(("summary", exc_part(r, "summary_save"), "save_samples_summary raised %s" % exc_of(r, "summary_save")))
    else:
        so = r["summary_orig"]
        # the summary describes the best sample of the rows
        k = first_argmax([unhex(x["ll"]) for x in rows])
        mx = ok(so, "max")
        if mx is None or mx["ll"] != hx(unhex(rows[k]["ll"])) or ok(so, "vmax") != exp_pl[k]:
            fails.append(("summary", "samples", "summary's max-likelihood sample is not the best row"))
        routes = ["summary", "summary_agg", "db_summary"] + (["scrape_summary"] if "scrape" in r and "load" not in r["scrape"] else [])
        for route in routes:
            if route not in r:
                if route == "db_summary" and "exc" in r.get("db_summary_save", {}):
                    fails.append((route, exc_part(r, "db_summary_save"), "DatabasePaths.save_samples_summary raised %s" % exc_of(r, "db_summary_save")))
                else:
                    fails.append((route, "missing", "%s: route produced nothing" % route))
                continue
            for part, m in compare_summary(so, r[route], route):
                fails.append((route, part, m))
    # latent samples
    if "latent_orig" in r:
        exp = latent_expected(c, r)
        if latent_plain(r["latent_orig"]) != exp:
            fails.append(("latent", "values", "compute_latent_samples: %s expected %s" % (latent_plain(r["latent_orig"])[:2], exp[:2])))
        else:
            lc = r.get("latent_csv", {})
            if "ok" not in lc:
                fails.append(("latent", exc_part(r, "latent_csv"), "latent samples.csv: %s" % exc_of(r, "latent_csv")))
            elif latent_plain(lc["ok"]) != exp:
                fails.append(("latent", "values", "latent samples.csv reloads as %s, persisted %s" % (latent_plain(lc["ok"])[:2], exp[:2])))
            la = r.get("latent_agg", {})
            if "load" in la:
                fails.append(("latent", exc_part(la, "load"), "SearchOutput.latent_samples raised %s" % exc_of(la, "load")))
            elif latent_plain(ok(la, "samples") or []) != exp or exc_of(la, "pl") or \
                    rows_by_col(la) != [e["kw"] for e in exp]:
                fails.append(("latent", "values", "SearchOutput.latent_samples: %s / %s, persisted %s" % (
                    ok(la, "samples"), la.get("pl"), exp[:2])))
            kbest = first_argmax([unhex(x["ll"]) for x in rows])
            for route, ref in (("db_latent", "db_latent_orig"), ("scrape_latent", None)):
                if route not in r:
                    if route == "db_latent" and "exc" in r.get("db_latent_save", {}):
                        fails.append(("latent", exc_part(r, "db_latent_save"), "save_latent_samples (database) raised %s" % exc_of(r, "db_latent_save")))
                    continue
                got = r[route]
                if "ok" not in got:
                    fails.append(("latent", exc_part(r, route), "%s raised %s" % (route, exc_of(r, route))))
                    continue
                plain = latent_plain(got["ok"])
                # scalar values live in a REAL column: SQLite stores -0.0 as the integer 0, the sign of a zero is not kept
                # (the value is equal); everything else is compared bit for bit
                unsigned = lambda xs: [{**x, "kw": {k: ("0x0.0p+0" if v == "-0x0.0p+0" else v) for k, v in x["kw"].items()},
                                        **{f: ("0x0.0p+0" if x[f] == "-0x0.0p+0" else x[f]) for f in ("ll", "lp", "w")}} for x in xs]
                plain, exp_u = unsigned(plain), unsigned(exp)
                # always minimised: a sub-multiset of the latent samples that contains the best one
                # (minimised twice on this route; with tied likelihoods either tied sample may be the one kept)
                maxll = unhex(rows[kbest]["ll"])
                if not plain or any(x not in exp_u for x in plain) or not any(unhex(x["ll"]) == maxll for x in plain) \
                        or len(plain) > 2:
                    fails.append(("latent", "values", "%s holds %s, latent samples are %s" % (route, plain, exp[:3])))
    elif not r.get("latent_error"):
        fails.append(("latent", "missing", "no latent samples"))
    add("db", compare_view(orig, r["db_all"], "db_all"))
    if "min_orig" not in r:
        fails.append(("db", "missing", "minimise raised"))
    else:
        mo, got = r["min_orig"], r["db_min"]
        if "load" in got:
            fails.append(("db", exc_part(got, "load"), "db_min: loading raised %s" % exc_of(got, "load")))
        else:
            k = first_argmax([unhex(x["ll"]) for x in rows])
            if k not in r["min_idx"]:
                fails.append(("db", "values", "minimise drops the maximum-likelihood sample"))
            # the persisted list is list({best, best-posterior}); the same two objects give the same set order again
            add("db", compare_view(mo, got, "db_min", stats=False))
            lls = [unhex(x["ll"]) for x in rows]
            if lls.count(max(lls)) == 1 and by_col(got, "best") != by_col(orig, "best"):
                fails.append(("db", "values", "db_min: best fit differs from the fit's best fit"))
    return fails


def oracle_dbseq(c, r):
    fails = []
    m = compare_view(r["orig"], r["db_all"], "db after the last update")
    if m:
        if compare_view(r["first"], r["db_all"], "first") is None:
            fails.append(("db", "stale-first", "db after the last update: the samples in place at the first commit are returned, not the last (%s)" % m[1][:200]))
        else:
            fails.append(("db", m[0], m[1]))
    # the json rows: whatever happened in between, the LAST save is what a reader gets
    info = r.get("info_json", {})
    if "ok" not in info:
        fails.append(("db_json", exc_part(r, "info_json"), "samples_info json: %s" % exc_of(r, "info_json")))
    elif info["ok"] != r["info_expected"]:
        fails.append(("db_json", "values", "samples_info json is %s after the last update saved %s" % (info["ok"], r["info_expected"])))
    rows = ok(r, "json_rows")
    if rows is not None and len(rows) != len(set(rows)):
        fails.append(("db_json", "values", "several json rows with one name: %s" % rows))
    if "exc" in r.get("summary_save", {}):
        fails.append(("db_summary", exc_part(r, "summary_save"), "save_samples_summary raised %s" % exc_of(r, "summary_save")))
    if "summary_orig" in r:
        for route in ("db_summary", "fit_summary"):
            for part, msg in compare_summary(r["summary_orig"], r[route], route + " after the last update"):
                fails.append((route, part, msg))
        # and the summary agrees with the samples persisted last
        k = first_argmax([unhex(x["ll"]) for x in c["rows"]])
        if "load" not in r["db_summary"] and ok(r["db_summary"], "vmax") != [hx(unhex(x)) for x in c["rows"][k]["p"]]:
            fails.append(("db_summary", "samples", "reloaded summary's best fit %s is not the best of the samples saved last %s" % (
                ok(r["db_summary"], "vmax"), c["rows"][k]["p"])))
    return fails


def oracle_jsonhist(c, r):
    last, count = {}, {}
    for op in c["ops"]:
        if op["op"] == "set":
            last[op["name"]] = op["tok"]
            count[op["name"]] = 1
    exp = [[n, last.get(n), count.get(n, 0)] for n in c["names"]]
    if r["obs"] != exp:
        return [("db_json", "values", "get_json / rows per name %s, expected (last save wins, one row per name) %s" % (r["obs"], exp))]
    return []


def oracle_fit(c, r):
    fails = []
    if "load" in r.get("first", {}):
        return [("fit", exc_part(r["first"], "load"), "first fit raised %s" % exc_of(r["first"], "load"))]
    if "load" in r.get("second", {}) and exc_of(r["second"], "load").startswith("NoSamples"):
        if c["csv"]:
            fails.append(("fit", "missing", "re-run of the completed fit has no samples although samples.csv was requested"))
    elif "second" in r:
        m = compare_view(r["first"], r["second"], "completed fit re-run")
        if m:
            fails.append(("fit", m[0], m[1]))
    else:
        fails.append(("fit", "missing", "missing second run"))
    if "second_summary" in r:
        for part, m in compare_summary(r["first_summary"], r["second_summary"], "completed fit re-run summary"):
            fails.append(("fit", part, m))
        if r.get("second_instance") != r.get("first_instance"):
            e = r.get("second_instance", {})
            part = "exc:%s" % e["exc"] if isinstance(e, dict) and "exc" in e else "values"
            fails.append(("fit", part, "result.instance differs after re-run: %s vs %s" % (r.get("second_instance"), r.get("first_instance"))))
    return fails



# ---------------------------------------------------------------------------
# summary statistics: quantile(x, q, weights) and SamplesPDF (kinds "quant" and "pdf")
# ---------------------------------------------------------------------------
SIGMA_QS = None


def gen_exact_quant(rng, thorough):
    """inputs on which every binary64 operation of quantile() is exact: values on a 1/8 grid, non-zero weights powers of
    two, the weights of all samples but the one of largest value summing to a power of two, levels on a 1/1024 grid"""
    n = rng.choice([2, 2, 3, 3, 4, 5, 6, 8, 9] + ([17, 33] if thorough else [12]))
    parts = [2.0 ** rng.randint(-2, 4)]
    while len(parts) < n - 1 and rng.random() < 0.85:
        k = rng.randrange(len(parts))
        h = parts.pop(k) / 2
        parts[k:k] = [h, h]
    while len(parts) < n - 1:
        parts.insert(rng.randrange(len(parts) + 1), 0.0)          # zero-weight samples
    style = rng.random()
    xs, cur = [], rng.randint(-40, 40) / 8
    for i in range(n - 1):
        xs.append(cur)
        if style < 0.15:
            pass                                                   # every sample has the same value
        elif rng.random() < (0.35 if style < 0.6 else 0.0):
            pass                                                   # tie with the next sample
        else:
            cur += rng.randint(1, 24) / 8
    r = rng.random()
    if r < 0.2 and n >= 3 and xs[-1] > xs[-2]:
        xs.append(xs[-1])                                          # two samples share the largest value: equal weights
        wlast = parts[-1]
    elif style < 0.15:
        xs = xs[:1] * (n - 1) + [xs[0] + 1.0]
        wlast = rng.choice([0.0, 1.0, 0.5, 3.0])
    else:
        xs.append(xs[-1] + rng.randint(1, 24) / 8)
        wlast = rng.choice([0.0, 0.25, 1.0, 3.0, 1024.0, parts[0]])
    ws = parts + [wlast]
    order = list(range(n))
    rng.shuffle(order)
    qs = [0.0, 1.0, 0.5] + [rng.randint(0, 1024) / 1024 for _ in range(3)] + [rng.choice([1 / 1024, 1023 / 1024, 0.25, 0.75])]
    if rng.random() < 0.2:
        qs.append(rng.choice([-0.5, 1.5, -1 / 1024]))
    return {"kind": "quant", "exact": True, "xs": [hx(xs[i]) for i in order], "ws": [hx(ws[i]) for i in order],
            "qs": [hx(q) for q in qs], "array": rng.random() < 0.5}


def gen_float_quant(rng, thorough):
    n = rng.choice([0, 1, 1, 2, 2, 3, 4, 5, 7, 8, 9, 16, 17, 30] + ([64, 200] if thorough else []))
    mode = rng.random()
    if mode < 0.3:
        xs = [float(rng.randint(-3, 3)) for _ in range(n)]
    elif mode < 0.6:
        xs = [rng.uniform(-10, 10) for _ in range(n)]
    elif mode < 0.85:
        xs = [rand_float(rng, allow_inf=mode > 0.8) for _ in range(n)]
    else:
        xs = [rng.choice([0.0, -0.0, 1.5, 5e-324, rng.gauss(0, 1)]) for _ in range(n)]
    m2 = rng.random()
    if m2 < 0.35:
        ws = [rng.random() for _ in range(n)]
        tot = sum(ws) or 1.0
        ws = [w / tot for w in ws]
    elif m2 < 0.5:
        ws = [1.0 / n] * n if n else []
    elif m2 < 0.75:
        ws = [rng.choice([0.0, 0.0, 0.25, 0.5, 1.0]) for _ in range(n)]
    else:
        ws = [rng.choice([0.0, 1e-320, 1e300, 1e-300, rng.random()]) for _ in range(n)]
    global SIGMA_QS
    lv = [0.0, 1.0, 0.5, rng.random(), rng.random()] + [0.15865525393145707, 0.8413447460685429,
                                                         0.0013498980316301035, 0.9986501019683699]
    if rng.random() < 0.15:
        lv.append(rng.choice([-1e-9, 1.0000000000000002, 2.0, -5e-324]))
    return {"kind": "quant", "exact": False, "xs": [hx(x) for x in xs], "ws": [hx(w) for w in ws], "qs": [hx(q) for q in lv],
            "array": rng.random() < 0.5}


def gen_pdf_rows(rng, npri, thorough):
    n = rng.choice([2, 2, 3, 4, 5, 6, 8, 9, 12, 17, 30, 130] + ([101, 257] if thorough else []))
    vmode = rng.random()
    grid = [rng.randint(-8, 8) / 4 for _ in range(4)]
    rows = []
    for i in range(n):
        if vmode < 0.35:
            p = [rng.choice(grid) for _ in range(npri)]                   # many ties
        elif vmode < 0.6:
            p = [rng.randint(-64, 64) / 8 for _ in range(npri)]
        elif vmode < 0.9:
            p = [rng.uniform(-10, 10) for _ in range(npri)]
        else:
            p = [rand_float(rng) for _ in range(npri)]
        ll = -abs(rng.gauss(0, 50)) if not rows or rng.random() < 0.85 else unhex(rows[-1]["ll"])
        rows.append({"p": [hx(x) for x in p], "ll": hx(ll), "lp": hx(0.0), "w": hx(0.0)})
    wmode = rng.choice(["equal", "norm", "norm", "zeros", "dominant", "boundary", "dyadic"])
    if wmode == "equal":
        ws = [1.0 / n] * n
    elif wmode == "norm":
        ws = [rng.random() for _ in range(n)]
        tot = sum(ws)
        ws = [w / tot for w in ws]
    elif wmode == "zeros":
        ws = [rng.choice([0.0, 0.0, rng.random()]) for _ in range(n)]
        tot = sum(ws) or 1.0
        ws = [w / tot for w in ws]
    elif wmode == "dominant":
        ws = [1e-4 / n] * n
        ws[rng.randrange(n)] = rng.choice([0.995, 1.0, 0.9900000000000001])
    elif wmode == "boundary":
        ws = [0.01 / (n - 1)] * n
        ws[rng.randrange(n)] = 0.99                                        # np.max(w) > 0.99 is false: still converged
    else:
        ws = [rng.choice([0.0, 0.125, 0.25, 0.25, 0.5]) for _ in range(n)]
    for r, w in zip(rows, ws):
        r["w"] = hx(w)
    return rows, wmode


def gen_stat_cases(rng, thorough, g):
    cases = []
    for _ in range(60 if not thorough else 400):
        cases.append(gen_exact_quant(rng, thorough))
    for _ in range(60 if not thorough else 400):
        cases.append(gen_float_quant(rng, thorough))
    for _ in range(36 if not thorough else 200):
        g.rng, keep = rng, g.rng
        tree, npri = g.tree()
        g.rng = keep
        rows, wmode = gen_pdf_rows(rng, npri, thorough)
        c = {"kind": "pdf", "tree": tree, "npri": npri, "kinds": ["u"], "rows": rows, "wmode": wmode}
        if rng.random() < 0.3:
            c["numpy"] = rng.choice(["scalar", "array"])
        cases.append(c)
    return cases


def fsum_but_last(ws, perm):
    acc = None
    for i in perm[:-1]:
        acc = ws[i] if acc is None else acc + ws[i]
    return acc


def weights_defined(ws, perm):
    """the cases the binary64 model is compared on: finite non-negative weights whose running sum up to the sample of
    largest value is positive and finite (otherwise numpy interpolates over NaN breakpoints)"""
    if len(ws) < 2:
        return True                      # IndexError before any arithmetic
    if any(math.isnan(w) or math.isinf(w) or w < 0 for w in ws) or sorted(perm) != list(range(len(ws))):
        return False
    c = fsum_but_last(ws, perm)
    return c is not None and 0 < c < float("inf")


def qres_of(x, f):
    """attempt() result -> Coq qres term, None if the exception is not one the model knows"""
    if "ok" in x:
        return "(QOk %s)" % f(x["ok"])
    return {"IndexError": "QIndexErr", "ValueError": "QValueErr"}.get(x["exc"])


def cQ(x):
    from fractions import Fraction
    fr = Fraction(x)
    return "(%d # %d)%%Q" % (fr.numerator, fr.denominator)


def oracle_quant(c, r):
    """direct statements on the implementation's outputs: inside the range of the values, monotone in the level,
    ValueError exactly for levels outside [0, 1], IndexError exactly for fewer than two samples"""
    fails = []
    xs = [unhex(x) for x in c["xs"]]
    ws = [unhex(x) for x in c["ws"]]
    qs = [unhex(q) for q in c["qs"]]
    outs = r["outs"]
    defined = weights_defined(ws, r["argsort"]) and not any(math.isnan(x) for x in xs)
    vals = []
    for q, o in zip(qs, outs):
        if q < 0 or q > 1:
            if o.get("exc") != "ValueError":
                fails.append(("quantile", "values", "quantile(q=%r) did not raise ValueError: %s" % (q, o)))
        elif len(xs) < 2:
            if o.get("exc") != "IndexError":
                fails.append(("quantile", "values", "quantile of %d samples: %s" % (len(xs), o)))
        elif defined:
            if "ok" not in o:
                fails.append(("quantile", "exc:%s" % o["exc"], "quantile raised %s" % exc_of({"o": o}, "o")))
                continue
            v = unhex(o["ok"])
            # binary64 overflow of the slope (values beyond 1e100 or a weight below 1e-100 of the total) legitimately gives
            # inf / NaN: the statements below are about the rational function, they are checked where no overflow can occur
            if not all(abs(x) <= 1e100 for x in xs) or not all(w == 0 or w >= 1e-100 * sum(ws) for w in ws):
                continue
            tol = 0.0 if c["exact"] else 1e-9 * max(abs(min(xs)), abs(max(xs)), 1e-300)
            if not (min(xs) - tol <= v <= max(xs) + tol):
                fails.append(("quantile", "values", "quantile(q=%r)=%r outside [%r, %r]" % (q, v, min(xs), max(xs))))
            vals.append((q, v, tol))
    vals.sort()
    for (q1, v1, tol), (q2, v2, _) in zip(vals, vals[1:]):
        if not (math.isnan(v1) or math.isnan(v2)) and v1 > v2 + tol:
            fails.append(("quantile", "values", "quantile not monotone: q=%r -> %r, q=%r -> %r" % (q1, v1, q2, v2)))
    return fails


def oracle_pdf(c, r):
    """lower <= median <= upper at 1 and 3 sigma, errors are the differences, the in-memory samples are the rows"""
    fails = []
    o = r["orig"]
    rows = c["rows"]
    if ok(o, "pl") != [[hx(unhex(x)) for x in row["p"]] for row in rows] or ok(o, "w") != [hx(unhex(x["w"])) for x in rows]:
        return [("memory", "values", "Sample.from_lists does not hold the given rows")]
    # slope overflow in binary64 (see oracle_quant): order statements only where it cannot occur
    wsum = sum(unhex(x["w"]) for x in rows)
    big = any(abs(unhex(x)) > 1e100 for row in rows for x in row["p"]) or \
        any(0 < unhex(x["w"]) < 1e-100 * wsum for x in rows)
    med = ok(o, "median")
    if med is None:
        return [("stats", exc_part(o, "median"), "median_pdf raised %s" % exc_of(o, "median"))]
    for nm in ("v1", "v3"):
        v = ok(o, nm)
        if v is None:
            fails.append(("stats", exc_part(o, nm), "%s raised %s" % (nm, exc_of(o, nm))))
            continue
        for m, (lo, hi) in zip(med, v):
            m, lo, hi = unhex(m), unhex(lo), unhex(hi)
            if not all(math.isfinite(x) for x in (m, lo, hi)) or big:
                continue
            tol = 1e-9 * max(abs(lo), abs(hi), 1e-300)
            if c["wmode"] not in ("dominant",) and not (lo - tol <= m <= hi + tol):
                fails.append(("stats", "values", "%s: median %r not inside [%r, %r]" % (nm, m, lo, hi)))
    v1, v3 = ok(o, "v1"), ok(o, "v3")
    if v1 and v3:
        for (lo1, hi1), (lo3, hi3) in zip(v1, v3):
            lo1, hi1, lo3, hi3 = (unhex(x) for x in (lo1, hi1, lo3, hi3))
            if not all(math.isfinite(x) for x in (lo1, hi1, lo3, hi3)) or big:
                continue
            tol = 1e-9 * max(abs(lo3), abs(hi3), 1e-300)
            if not (lo3 - tol <= lo1 and hi1 <= hi3 + tol):
                fails.append(("stats", "values", "3 sigma interval [%r, %r] does not contain the 1 sigma one [%r, %r]" % (lo3, hi3, lo1, hi1)))
    return fails


def stats_term(o):
    """CStats term from a view (in-memory or reloaded samples), or (None, reason)"""
    st = ok(o, "statin")
    pl, ll, w, best = ok(o, "pl"), ok(o, "ll"), ok(o, "w"), ok(o, "best")
    if st is None or pl is None or ll is None or w is None or best is None or not pl:
        return None, "no-inputs"
    ws = [unhex(x) for x in w]
    if any(math.isnan(unhex(x)) for row in pl for x in row) or any(math.isnan(x) for x in ws + [unhex(x) for x in ll]):
        return None, "nan"
    if st["total"] != len(pl) or len(pl) >= 5000:
        return None, "total-samples-differs"
    converged = not (max(ws) > 0.99)
    if converged and not all(weights_defined(ws, perm) for perm in st["argsort"]):
        return None, "undefined-weights"
    parts = []
    for nm in ("median",):
        t = qres_of(o[nm], cfl)
        if t is None:
            return None, "exception:%s" % o[nm].get("exc")
        parts.append(t)
    for nm in ("v1", "e1", "v3", "e3"):
        t = qres_of(o[nm], lambda v: "(%s, %s)" % (cfl([a for a, _ in v]), cfl([b for _, b in v])))
        if t is None:
            return None, "exception:%s" % o[nm].get("exc")
        parts.append(t)
    q = [cfloat(unhex(x)) for x in st["qs"]]
    return "CStats %s %s %s %s %s %s %s %s %s %s %s" % (
        clist([cfl(r) for r in pl]), cfl(ll), cfl(w), clist([clist([cnat(i) for i in perm]) for perm in st["argsort"]]),
        cnat(st["ucs"]), q[0], q[1], q[2], q[3], cfl(best), " ".join(parts)), ("converged" if converged else "unconverged")


def coq_cases2(c, r):
    """list of (route, term, class label) for check_case2"""
    out = []
    if c["kind"] == "quant":
        xs = [unhex(x) for x in c["xs"]]
        ws = [unhex(x) for x in c["ws"]]
        qs = [unhex(q) for q in c["qs"]]
        perm = r["argsort"]
        outs = [qres_of(o, lambda v: cfloat(unhex(v))) for o in r["outs"]]
        if None in outs:
            return [("quantile", None, "unknown-exception")]
        if weights_defined(ws, perm) and not any(math.isnan(x) for x in xs):
            out.append(("quantile", "CQuantF %s %s %s %s %s" % (cfl(c["xs"]), cfl(c["ws"]), clist([cnat(i) for i in perm]),
                                                             cfl(c["qs"]), clist(outs)), "float"))
        else:
            out.append(("quantile", None, "undefined-weights"))
        if c["exact"]:
            qouts = [qres_of(o, lambda v: cQ(unhex(v))) for o in r["outs"]]
            out.append(("quantile", "CQuantQ %s %s %s %s %s" % (clist([cQ(x) for x in xs]), clist([cQ(x) for x in ws]),
                                                             clist([cnat(i) for i in perm]), clist([cQ(x) for x in qs]),
                                                             clist(qouts)), "exact"))
        return out
    views = [("memory", r.get("orig"))]
    if c["kind"] == "samples":
        views += [(route, r.get(route)) for route in ("csv", "agg", "db_all")]
    for route, v in views:
        if not v or "load" in v:
            continue
        t, label = stats_term(v)
        out.append((route, t, label))
    return out

# ---------------------------------------------------------------------------
# Coq case printer
# ---------------------------------------------------------------------------
def cpath(p):
    return clist([cstr(x) for x in p])


def cnode(n):
    k = n["k"]
    if k == "prior":
        return "NPrior %s" % cnat(n["pid"])
    if k == "const":
        return "NConst"
    ms = clist(["(%s, %s)" % (cstr(name), cnode(child)) for name, child in n["ms"]])
    return "%s %s" % ("NTuple" if k == "tuple" else "NGroup", ms)


def cfl(xs):
    return clist([cfloat(unhex(x)) for x in xs])


def crow(r):
    return "(%s, %s, %s, %s)" % (cfl(r["p"]), cfloat(unhex(r["ll"])), cfloat(unhex(r["lp"])), cfloat(unhex(r["w"])))


def ckey(k):
    return "KStr %s" % cstr(k["s"]) if "s" in k else "KTup %s" % cpath(k["t"])


def csample(s):
    kw = clist(["(%s, %s)" % (ckey(k), cfloat(unhex(v))) for k, v in s["kw"]])
    return "(mkSample %s %s %s %s)" % (cfloat(unhex(s["ll"])), cfloat(unhex(s["lp"])), cfloat(unhex(s["w"])), kw)


def cres(x, f):
    if x is None:
        return "OtherErr"
    if "ok" in x:
        return "(Ok %s)" % f(x["ok"])
    return "KeyErr" if x["exc"] == "KeyError" else "OtherErr"


def cview(v):
    """(loaded, pl, best) of a view or of a failed load"""
    if "load" in v:
        e = cres(v["load"], None)
        return e, e, e
    return (cres(v.get("samples"), lambda sl: clist([csample(s) for s in sl])),
            cres(v.get("pl"), lambda pl: clist([cfl(r) for r in pl])),
            cres(v.get("best"), cfl))


def relabel(tree, ws):
    """the case's tree with pids replaced by the creation ranks of a re-created model (matched by path)"""
    rank = {tuple(p): i for p, i in ws}

    def go(n, pre):
        k = n["k"]
        if k == "prior":
            return {"k": "prior", "pid": rank[pre]}
        if k == "const":
            return n
        return {**n, "ms": [[name, go(child, pre + (name,))] for name, child in n["ms"]]}
    return go(tree, ())


def coq_cases(c, r):
    """list of (route, coq term)"""
    out = []
    if c["kind"] == "jsonhist":
        h = clist(["(%s, %s)" % (cstr(op["name"]), cnat(op["tok"])) for op in c["ops"] if op["op"] == "set"])
        obs = clist(["(%s, %s, %s)" % (cstr(n), "None" if tok is None else ("(Some %s)" % cnat(tok) if 0 <= tok < 5000 else "(Some 4999%nat)"),
                                          cnat(cnt)) for n, tok, cnt in r["obs"]])
        return [("db_json", "CJsonHist %s %s" % (h, obs))]
    if c["kind"] != "samples":
        return out
    t = "(%s)" % cnode(c["tree"])
    sh = r["shape"]
    out.append(("shape", "CShape %s %s %s %s %s %s" % (
        t, clist(["(%s, %s)" % (cpath(p), cnat(i)) for p, i in sh["ws"]]), clist([cpath(p) for p in sh["u"]]),
        clist([clist([cpath(p) for p in g]) for g in sh["ap"]]), clist([clist([cstr(x) for x in g]) for g in sh["an"]]),
        clist([cpath(p) for p in sh["tps"]]))))
    rows = clist([crow(x) for x in c["rows"]])
    if "csv" in r:
        out.append(("csv", "CCsv %s %s %s %s %s" % ((t, rows) + cview(r["csv"]))))
    raw = ok(r, "raw")
    if "agg" in r and raw is not None and ("load" in r["agg"] or ok(r["agg"], "shape") is not None):
        if "load" in r["agg"]:
            t2 = t
        else:
            try:
                t2 = "(%s)" % cnode(relabel(c["tree"], ok(r["agg"], "shape")["ws"]))
            except KeyError:
                t2 = None       # re-created model has other paths: the oracle reports it
        if t2:
            out.append(("agg", "CLoadCsv %s %s %s %s %s %s" % ((t2, clist([cstr(h) for h in raw["header"]]),
                                                          clist([cfl(x) for x in raw["rows"]])) + cview(r["agg"]))))
    med = ok(r["orig"], "median")
    s = r.get("summary", {})
    if med is not None and ok(s, "max") is not None and ok(s, "med") is not None:
        out.append(("summary", "CSummary %s %s %s %s %s %s %s" % (
            t, rows, cfl(med), csample(ok(s, "max")), cres(s.get("vmax"), cfl), csample(ok(s, "med")), cres(s.get("vmed"), cfl))))
    # the database's own summary: same model, same key order
    s = r.get("db_summary", {})
    if med is not None and ok(s, "max") is not None and ok(s, "med") is not None:
        out.append(("db_summary", "CSummary %s %s %s %s %s %s %s" % (
            t, rows, cfl(med), csample(ok(s, "max")), cres(s.get("vmax"), cfl), csample(ok(s, "med")), cres(s.get("vmed"), cfl))))
    # the summary file read against a re-created model (aggregator, scrape)
    sraw = ok(r, "summary_raw")
    for route in ("summary_agg", "scrape_summary"):
        v = r.get(route, {})
        if sraw is None or "load" in v or ok(v, "shape") is None:
            continue
        try:
            t2 = "(%s)" % cnode(relabel(c["tree"], ok(v, "shape")["ws"]))
        except KeyError:
            continue
        for which, vec in (("max", "vmax"), ("med", "vmed")):
            if sraw.get(which) is not None and ok(v, which) is not None:
                j = sraw[which]
                out.append((route, "CJsonLoad %s %s %s %s %s %s %s" % (
                    t2, cfloat(unhex(j["ll"])), cfloat(unhex(j["lp"])), cfloat(unhex(j["w"])),
                    clist(["(%s, %s)" % (cstr(k), cfloat(unhex(x))) for k, x in j["kw"]]),
                    csample(ok(v, which)), cres(v.get(vec), cfl))))
    if "resave" in r:
        out.append(("resave", "CResave %s %s %s %s %s" % ((t, rows) + cview(r["resave"]))))
    v = r.get("scrape", {})
    if raw is not None and v and ("load" in v or ok(v, "shape") is not None):
        try:
            t2 = t if "load" in v else "(%s)" % cnode(relabel(c["tree"], ok(v, "shape")["ws"]))
            out.append(("scrape", "CScrape %s %s %s %s %s %s" % ((t2, clist([cstr(h) for h in raw["header"]]),
                                                             clist([cfl(x) for x in raw["rows"]])) + cview(v))))
        except KeyError:
            pass
    # latent samples: a three-variable model {first, lat.last, lat.twice} built by simple_model_for_kwargs
    la = r.get("latent_agg", {})
    if "latent_orig" in r and la and "load" not in la:
        lt = "(NGroup [(%s, NPrior 0%%nat); (%s, NGroup [(%s, NPrior 1%%nat); (%s, NPrior 2%%nat)])])" % (
            cstr("first"), cstr("lat"), cstr("last"), cstr("twice"))
        lrows = clist(["(%s, %s, %s, %s)" % (cfl([v for _, v in x["kw"]]), cfloat(unhex(x["ll"])), cfloat(unhex(x["lp"])),
                                              cfloat(unhex(x["w"]))) for x in r["latent_orig"]])
        out.append(("latent", "CCsv %s %s %s %s %s" % ((lt, lrows) + cview(la))))
    if "db_all" in r:
        out.append(("db", "CDb %s %s false [] %s %s %s" % ((t, rows) + cview(r["db_all"]))))
    if "db_min" in r and "min_idx" in r:
        out.append(("db", "CDb %s %s true %s %s %s %s" % ((t, rows, clist([cnat(i) for i in r["min_idx"]])) + cview(r["db_min"]))))
    return out


def nontrivial(c):
    if c["kind"] == "jsonhist":
        names = [op["name"] for op in c["ops"] if op["op"] == "set"]
        return len(names) > len(set(names))          # some name saved more than once
    if c["kind"] == "quant":
        return len(c["xs"]) >= 3 and len(set(c["ws"])) >= 2
    labels = shape_labels(c)
    n = c["npri"]
    rows = c.get("rows", [1, 2])
    return n >= 2 and len(rows) >= 2 and (depth_of(c["tree"]) >= 2 or "shared" in labels or "tuple" in labels
                                          or "mixed-depth" in labels)


def chunks(xs, n):
    k = max(1, (len(xs) + n - 1) // n)
    return [xs[i:i + k] for i in range(0, len(xs), k)]


def run(ctx):
    ctx.rule = ("a case is an abstract model shape (tree of Model/Collection/TuplePrior nodes with prior identities and a creation "
                "order, built by the driver through the real API) x a sample set (binary64 incl. subnormal, 1.8e308, -0.0, inf, "
                "random bit patterns; handed over as Python floats, numpy scalars or numpy arrays) persisted through csv+info, "
                "csv saved again after a reload, summary json, aggregator SearchOutput, database rows (all / minimised), database "
                "summary, latent samples (csv, aggregator, database), a directory scraped into a database (Aggregator.from_directory + "
                "Scraper), plus re-saved database fits and real Drawer fits run twice; non-trivial = at least 2 parameters and 2 "
                "samples and one of {nesting depth >= 2, shared prior, tuple prior, mixed path depth}; distinct = distinct abstract case; "
                "plus summary statistics: direct quantile(x, q, weights) calls (exactly representable inputs with ties / zero weights / "
                "equal weights / q in {0, 1, 1/2, 1/1024 grid, outside [0,1]} and arbitrary binary64 inputs, 0-200 samples) and SamplesPDF "
                "statistics of in-memory sample sets (equal / normalised / zero-heavy / dominant / boundary 0.99 / dyadic weights, up to "
                "130 (thorough 257) samples); a quant case is non-trivial with >= 3 samples and >= 2 distinct weights")
    ctx.trusted = [
        "Coq 8.16.1 kernel incl. vm_compute; primitive floats (PrimFloat) are kernel primitives",
        "correspondence harness c09.py / impl/c09_impl.py (abstraction of Sample kwargs into KStr/KTup keys, float.hex transport)",
        "the text layer is NOT modelled: check_case instantiates text-of-float and float-of-text with the identity; padding, "
        "strip, csv quoting, JSON float text, numpy array storage and sqlite columns are covered by the hypothesis parse (fmt v) = v "
        "of the theorems and by the oracle only (cells compared bit for bit after the code's own float(), and their decimal text "
        "checked by exact rational arithmetic to round to the persisted binary64)",
        "summary statistics: quantile() of pdf.py (argsort, cumsum, normalisation, np.interp incl. its NaN fall-backs), pdf_converged, "
        "median_pdf, values_at_sigma, errors_at_sigma are modelled once over an abstract number type (Quantile.v) and instantiated with Q "
        "(theorems) and binary64 (compared bit for bit); outside the model and supplied by the running code per case: the arrangement "
        "np.argsort gives tied values (SIMD sort, not stable: the check only requires it to BE a sorting permutation, the theorems "
        "C09_quantile_any_argsort_* hold for every such arrangement), the levels (1 - erf(sigma/sqrt 2))/2 (libm), the configured "
        "unconverged_sample_size; the sign of a zero chosen by numpy's min/max in the unconverged branch is not compared; weight lists "
        "whose running sum is 0, infinite or NaN (numpy interpolates over NaN breakpoints) are counted and not compared",
        "modelled not verified: model.json / database round trip of the model itself (C08), set iteration order in Samples.minimise "
        "(either order accepted), sign of a zero stored in an SQLite REAL column (latent samples in the database)",
    ]
    ctx.assumptions = [
        "theorems are over every id-sorted walk with distinct paths (NoDup) and dot-free attribute names, C09_shapes / C09_tree_* "
        "give this for every well-formed model tree; text/float round trip is a hypothesis",
        "C09_tree_csv / C09_tree_summary / C09_tree_db are about the code as it is now (Variant.code_is_fixed = true, "
        "dict_drops_zero = false, table_reads_by_position = true)",
        "C09_quantile_* / C09_stats_lower_median_upper are over exact rationals: non-negative weights and a positive weight of the "
        "samples other than the one of largest value (the code's normalisation); binary64 rounding is not covered by them (on inputs "
        "where every operation is exact the rational model is compared with the running code exactly); C09_stats_survive_* hold for "
        "every arithmetic",
        "C09_tree_csv / C09_roundtrip_csv are about the reader since b5615dc (Variant.table_reads_by_position = true): no guard on "
        "parameter names; names of different priors must differ only for models whose unique paths are all single names "
        "(automatic without tuple priors); *_legacy_* theorems document the code before the repairs",
    ]
    built = ctx.build()
    cases = gen_cases(ctx)
    # summary statistics: own generator stream, so that the persistence cases above are the ones of earlier rounds
    import random as _random
    rng2 = _random.Random(ctx.rng.getrandbits(64))
    cases += gen_stat_cases(rng2, ctx.tier == "thorough", Gen(rng2, ctx.tier == "thorough"))
    if ctx.replay:
        rp = json.load(open(ctx.replay))
        if rp.get("case"):
            cases = [rp["case"]]
    else:
        cdir = os.path.join(common.VERIF, "corpus", "C09")
        if os.path.isdir(cdir):
            for f in sorted(os.listdir(cdir)):
                if f.endswith(".json"):
                    cc = json.load(open(os.path.join(cdir, f)))["case"]
                    if f in REGRESSIONS:
                        cc["regression"] = REGRESSIONS[f]
                    cases.insert(0, cc)
    for i, c in enumerate(cases):
        c["idx"] = i
    fit_csv = [c for c in cases if c["kind"] == "fit" and c["csv"]]
    fit_nocsv = [c for c in cases if c["kind"] == "fit" and not c["csv"]]
    rest = [c for c in cases if c["kind"] not in ("fit", "quant", "pdf")]
    stat_cases = [c for c in cases if c["kind"] in ("quant", "pdf")]
    payloads = [{"cases": ch} for ch in chunks(rest, 14)] + [{"cases": ch} for ch in chunks(stat_cases, 2) if ch] + [{"cases": ch} for ch in chunks(fit_csv, 2 if len(fit_csv) < 12 else 6) if ch]
    if fit_nocsv:
        payloads.append({"cases": fit_nocsv, "samples_to_csv": False})
    outs = common.run_impl_parallel("c09_impl", payloads, timeout=1500)
    results = {}
    for p, o in zip(payloads, outs):
        if "__error__" in o:
            ctx.obligation("impl-driver", "harness", False, o["__error__"][-800:])
            return
        for c, r in zip(p["cases"], o["results"]):
            results[c["idx"]] = r
    terms, term_src = [], []
    terms2, term2_src = [], []
    for c in cases:
        r = results[c["idx"]]
        key = {k: v for k, v in c.items() if k != "idx"}
        labels = shape_labels(c)
        ctx.count_case(key, nontrivial(c), c["kind"])
        for lb in labels:
            ctx.hist("shape", lb)
        ctx.hist("parameters", c.get("npri", 0))
        ctx.hist("samples", len(c.get("rows", [])))
        ctx.oracle["cases"] += 1
        if "exc" in r:
            ctx.oracle["failures"] += 1
            ctx.failure("oracle", "driver raised %s: %s" % (r["exc"], r.get("msg")), c, classes=[], impl=r)
            continue
        r = r["ok"]
        fails = {"samples": oracle_samples, "dbseq": oracle_dbseq, "fit": oracle_fit, "jsonhist": oracle_jsonhist,
                 "quant": oracle_quant, "pdf": oracle_pdf}[c["kind"]](c, r)
        if c.get("regression"):
            ctx.obligation("regression:" + c["regression"], "regression", not fails,
                           "" if not fails else "; ".join("%s/%s: %s" % (a, b, m[:160]) for a, b, m in fails[:3]))
        seen = set()
        for route, part, msg in fails:
            cl = failure_classes(c, route, part or "", msg)
            if tuple(cl) in seen and cl:
                continue            # one report per finding class and case
            seen.add(tuple(cl))
            ctx.oracle["failures"] += 1
            ctx.hist("oracle-failure", "%s/%s%s" % (route, (part or "").split(":")[0], " (known)" if cl else ""))
            ctx.failure("oracle", msg[:1500], c, classes=cl, impl={"route": route, "part": part})
        for route, term in coq_cases(c, r):
            terms.append(term)
            term_src.append((c, route, bool(fails)))
        if c["kind"] in ("samples", "quant", "pdf"):
            for route, term, label in coq_cases2(c, r):
                ctx.hist("stats-correspondence", "%s:%s%s" % ("quantile" if c["kind"] == "quant" else "stats:" + route if route == "memory" else "stats:reloaded",
                                                             label, "" if term else " (not compared)"))
                if term:
                    terms2.append(term)
                    term2_src.append((c, route, bool(fails)))
        if c["kind"] == "quant":
            xs_ = [unhex(x) for x in c["xs"]]
            ctx.hist("quantile-input", "n=%s" % (len(xs_) if len(xs_) < 3 else "3-9" if len(xs_) < 10 else ">=10"))
            if len(set(xs_)) < len(xs_):
                ctx.hist("quantile-input", "tied values")
            if any(unhex(w) == 0.0 for w in c["ws"]):
                ctx.hist("quantile-input", "zero weight")
            if len(set(c["ws"])) == 1 and len(xs_) > 1:
                ctx.hist("quantile-input", "equal weights")
            for q in c["qs"]:
                qv = unhex(q)
                ctx.hist("quantile-level", "q<0 or q>1" if qv < 0 or qv > 1 else "q=0" if qv == 0 else "q=1" if qv == 1 else
                         "q=0.5" if qv == 0.5 else "tail (<0.01 or >0.99)" if qv < 0.01 or qv > 0.99 else "interior")
        if c["kind"] == "pdf":
            ctx.hist("pdf-weights", c["wmode"])
        if c["idx"] % 29 == 0:
            ctx.sample({"kind": c["kind"], "tree": c.get("tree"), "rows": c.get("rows", [])[:2], "ops": c.get("ops")}, limit=6)
    if os.path.exists(os.path.join(common.COQ, "C09", "Model.vo")):
        hdr = ctx.header(["Common.PyFloat", "Model"])
        bad, log = ctx.eval_cases(hdr, "case", "check_case", terms, shard=120)
        for b in (bad or [])[:5]:
            c, route, failing = term_src[b]
            ctx.failure("correspondence", "model and implementation disagree on the %s route" % route, c,
                        classes=[], impl={"route": route, "term": terms[b][:3000]},
                        broken={"kind": "correspondence", "name": "C09.check_case"}, found_input=failing)
    else:
        ctx.obligation("correspondence:cases", "correspondence", False, "Model.vo not built")
    if os.path.exists(os.path.join(common.COQ, "C09", "Stats.vo")):
        hdr = ctx.header(["Common.PyFloat", "Model", "Quantile", "Stats"])
        bad, log = ctx.eval_cases(hdr, "case2", "check_case2", terms2, tag="stats", shard=150)
        for b in (bad or [])[:5]:
            c, route, failing = term2_src[b]
            ctx.failure("correspondence", "model and implementation disagree on the summary statistics (%s, %s)" % (c["kind"], route), c,
                        classes=[], impl={"route": route, "term": terms2[b][:3000]},
                        broken={"kind": "correspondence", "name": "C09.check_case2"}, found_input=failing)
    else:
        ctx.obligation("correspondence:stats", "correspondence", False, "Stats.vo not built")


MANIFEST = {
    "text": "Coq 8.16 theorems over an executable model of Sample key handling, parameter lookup by path/name, the samples.csv "
            "writer/reader (cells abstract), the summary JSON form and EfficientSamples (database): for every well-formed model tree "
            "and every sample list the reloaded samples give the same value per parameter, log-likelihood, log-prior and weight in "
            "order -- database rows unconditionally (all samples, the minimised list, a scraped directory), csv and summary for the "
            "code as it is now without any guard on parameter names (the earlier failures are kept as *_legacy_refuted statements and "
            "regression obligations); named json rows of a database fit: the last save wins for every save history; value per path is independent of the prior numbering of a re-created model; hence the same "
            "best-fit vector; plus vm_compute correspondence of keys / lookups / exceptions with the running code on generated model "
            "shapes x extreme floats (Python and numpy) over csv, re-saved csv, aggregator, summary, database, scrape and latent "
            "routes and a direct property oracle incl. real fits run twice; summary statistics: an executable model of quantile() "
            "(corner.py weighted quantile: argsort, cumulative weights without the largest sample, np.interp) and of median_pdf / "
            "values_at_sigma / errors_at_sigma, with theorems over exact rationals (result between two adjacent sorted sample values, "
            "monotone in the level, lower <= median <= upper, order-independent for distinct values; order dependence on ties, influence "
            "of zero-weight samples and the missing half-weight property kept as *_refuted statements), the corollaries "
            "C09_stats_survive_csv / _db (statistics of the reloaded samples = statistics of the samples in memory, any arithmetic), "
            "bit-for-bit binary64 and exact-rational correspondence of quantile and of the statistics of in-memory and reloaded samples",
    "note": "Trusted: Coq kernel + vm_compute, the correspondence harness; the text layer (decimal text of floats, padding, JSON, "
            "numpy, sqlite) is a hypothesis of the theorems and is checked by the oracle only, bit for bit; the quantile theorems "
            "are over Q (binary64 rounding only by correspondence); np.argsort's tie order, the erf levels and numpy min/max zero signs "
            "are inputs taken from the running code; no theorem gives a weight-on-each-side guarantee for the median (refuted for this "
            "algorithm); covariance_matrix, SamplesMCMC / SamplesNest specifics (log_evidence is read from samples_info: oracle only) "
            "and instance construction from the median vector (C10/C12 territory) are not modelled; model.json/database round trip "
            "of the model itself is C08. "
            "Known finding: positional error vectors of the summary read against a re-created model.",
    "technique": "machine-checked proof in Coq (hand-written executable model) + vm_compute correspondence + property oracle",
}
